"""Translator (C01): the straight-line glue of qcelemental/periodic_table.py (class PeriodicTable)  ->  coq/Gen/PTGlue.v.

 * __init__            which shipped array every public/private attribute is, and which two arrays every index
                       dictionary zips (`dict(zip(self.E, self.Z))`, `collections.OrderedDict(zip(...))`)
 * _resolve_atom_to_key  the nested try/except/else cascade of `resolve_eliso` and the strict filter
 * to_mass, to_A, to_Z, to_E, to_element   (resolve, then dictionary look-ups, Decimal()/float())
 * the class-level alias names (to_atomic_number = to_Z, ...) and the keyword defaults

The semantics of the handful of Python constructs used (d[k], x.capitalize(), int(x), try/except/else, assert
isinstance, `in`) are the combinators of coq/Model/PeriodicTableGlue.v.  Proofs/PeriodicTableGlue.v proves, for ALL
identifiers, that the generated functions are the hand-written model of Model/PeriodicTable.v.
Fail-closed: any AST shape outside this small statically typed fragment raises TranslateError."""
import ast
import os

from .. import coqrun
from ..core import TranslateError
from ..coqrun import cstr, clist

SRC = "qcelemental/periodic_table.py"

COLUMNS = {"Z": ("pt_Z", "Z"), "E": ("pt_E", "str"), "name": ("pt_name", "str"), "_EE": ("pt_EE", "str"),
           "EA": ("pt_EA", "str"), "A": ("pt_A", "Z"), "mass": ("pt_mass_str", "str")}
EXC = {"KeyError": ["PyKeyError"], "AttributeError": ["PyAttributeError"], "ValueError": ["PyValueError"],
       "TypeError": ["PyTypeError"], "IndexError": ["PyIndexError"], "AssertionError": ["PyAssertion"],
       "NotAnElementError": ["NotAnElement"], "LookupError": ["PyKeyError", "PyIndexError"]}
ALL_KINDS = ["NotAnElement", "Validation", "MoleculeFormat", "DataUnavailable", "Dimensionality", "PyValueError", "PyKeyError",
             "PyIndexError", "PyTypeError", "PyAttributeError", "PyAssertion"]
COQTY = {"pyval": "pyval", "str": "string", "Z": "Z", "bool": "bool", "dec": "(Z * Z)", "flt": "(Z * Z)"}
WRAP = {"Z": "GZ", "str": "GS", "dec": "GDec", "flt": "GFlt"}
ACCESSORS = ["to_mass", "to_A", "to_Z", "to_E", "to_element"]


def _fail(msg, node=None):
    where = f" (line {node.lineno})" if node is not None and hasattr(node, "lineno") else ""
    raise TranslateError(f"{SRC}{where}: {msg}")


def _is_self_attr(node, name=None):
    return (isinstance(node, ast.Attribute) and isinstance(node.value, ast.Name) and node.value.id == "self"
            and (name is None or node.attr == name))


def _strip_doc(body):
    body = list(body)
    if body and isinstance(body[0], ast.Expr) and isinstance(body[0].value, ast.Constant) and isinstance(body[0].value.value, str):
        body = body[1:]
    return body


# ------------------------------------------------------------------------------------------------
def _init(fn):
    """-> (attrs: attribute -> column key, dicts: attribute -> (key attribute, value attribute), order of dicts)"""
    if [a.arg for a in fn.args.args] != ["self"] or fn.args.vararg or fn.args.kwarg or fn.args.kwonlyargs or fn.decorator_list:
        _fail("__init__ signature changed", fn)
    attrs, dicts, other = {}, {}, set()
    for st in _strip_doc(fn.body):
        if isinstance(st, ast.ImportFrom):
            if not (st.level == 1 and st.module is None and [a.name for a in st.names] == ["data"] and st.names[0].asname is None):
                _fail("__init__: unexpected import", st)
            continue
        if isinstance(st, ast.Assign) and len(st.targets) == 1 and _is_self_attr(st.targets[0]):
            name, v = st.targets[0].attr, st.value
            if name in attrs or name in dicts or name in other:
                _fail(f"__init__: self.{name} assigned twice", st)
            # self.X = data.nist_2011_atomic_weights["K"]
            if (isinstance(v, ast.Subscript) and isinstance(v.value, ast.Attribute) and v.value.attr == "nist_2011_atomic_weights"
                    and isinstance(v.value.value, ast.Name) and v.value.value.id == "data"
                    and isinstance(v.slice, ast.Constant) and v.slice.value in COLUMNS):
                attrs[name] = v.slice.value
                continue
            # self._d = dict(zip(self.A, self.B)) / collections.OrderedDict(zip(self.A, self.B))
            if isinstance(v, ast.Call) and len(v.args) == 1 and not v.keywords:
                f = v.func
                is_dict = (isinstance(f, ast.Name) and f.id == "dict") or \
                          (isinstance(f, ast.Attribute) and f.attr == "OrderedDict" and isinstance(f.value, ast.Name) and f.value.id == "collections")
                z = v.args[0]
                if is_dict and isinstance(z, ast.Call) and isinstance(z.func, ast.Name) and z.func.id == "zip" and len(z.args) == 2 \
                        and not z.keywords and all(_is_self_attr(a) for a in z.args):
                    k, w = z.args[0].attr, z.args[1].attr
                    if k not in attrs or w not in attrs:
                        _fail(f"__init__: self.{name} zips an attribute that is not (yet) one of the shipped arrays", st)
                    dicts[name] = (k, w)
                    continue
                if (isinstance(f, ast.Attribute) and f.attr == "defaultdict" and isinstance(f.value, ast.Name) and f.value.id == "collections"
                        and isinstance(z, ast.Name) and z.id == "dict"):
                    other.add(name)   # e.g. _el2a2mass (used by molparse/nucleus.py, property C06): not part of the lookups
                    continue
            _fail(f"__init__: self.{name} is neither a shipped array nor dict(zip(array, array))", st)
        if isinstance(st, ast.For) and not st.orelse:
            # a loop may only fill one of the `other` containers
            ok = bool(st.body)
            for b in st.body:
                t = b.targets[0] if isinstance(b, ast.Assign) and len(b.targets) == 1 else None
                while isinstance(t, ast.Subscript):
                    t = t.value
                ok = ok and t is not None and _is_self_attr(t) and t.attr in other
            if ok:
                continue
        _fail(f"__init__: unexpected statement {type(st).__name__}", st)
    return attrs, dicts


# ------------------------------------------------------------------------------------------------
class Fn:
    """translation of one function body; statically typed; `pure` terms are plain values, the others are outcomes"""

    def __init__(self, tr, name, params, helpers):
        self.tr, self.name, self.helpers = tr, name, dict(helpers)
        self.env = {p: ("v_" + p, t) for p, t in params}
        self.ret_types = []
        self.fresh = 0

    def var(self, hint="t"):
        self.fresh += 1
        return f"{hint}{self.fresh}"

    def expr_extra(self, n, env):
        """hook for subclasses (other source files with a few more constructs); None = not handled"""
        return None

    def block_extra(self, stmts, env):
        return None

    # -- expressions: -> (term, type, pure)
    def expr(self, n, env):
        tr = self.tr
        r = self.expr_extra(n, env)
        if r is not None:
            return r
        if isinstance(n, ast.Constant) and isinstance(n.value, bool):
            return ("true" if n.value else "false", "bool", True)
        if isinstance(n, ast.Name):
            if n.id not in env:
                _fail(f"{self.name}: unknown variable {n.id}", n)
            return (env[n.id][0], env[n.id][1], True)
        if isinstance(n, ast.UnaryOp) and isinstance(n.op, ast.Not):
            t, ty, p = self.expr(n.operand, env)
            if ty != "bool" or not p:
                _fail(f"{self.name}: `not` of a non-boolean", n)
            return (f"(negb {t})", "bool", True)
        if isinstance(n, ast.BoolOp):
            parts = [self.expr(v, env) for v in n.values]
            if any(ty != "bool" or not p for _, ty, p in parts):
                _fail(f"{self.name}: and/or over non-boolean or raising operands", n)
            op = "andb" if isinstance(n.op, ast.And) else "orb"
            acc = parts[-1][0]
            for t, _, _ in reversed(parts[:-1]):     # right-nested, as Python short-circuits left to right (operands are pure)
                acc = f"({op} {t} {acc})"
            return (acc, "bool", True)
        if isinstance(n, ast.Compare) and len(n.ops) == 1 and isinstance(n.ops[0], (ast.In, ast.NotIn, ast.Is, ast.IsNot)):
            lhs, rhs = n.left, n.comparators[0]
            if isinstance(n.ops[0], (ast.Is, ast.IsNot)):
                t, ty, p = self.expr(lhs, env)
                if ty == "bool" and p and isinstance(rhs, ast.Constant) and isinstance(rhs.value, bool):
                    same = f"(Bool.eqb {t} {'true' if rhs.value else 'false'})"
                    return (same if isinstance(n.ops[0], ast.Is) else f"(negb {same})", "bool", True)
                _fail(f"{self.name}: unsupported `is` test", n)
            t, ty, p = self.expr(lhs, env)
            if not p or not _is_self_attr(rhs) or rhs.attr not in tr.attrs:
                _fail(f"{self.name}: `in` is supported for  <value> in self.<shipped array>  only", n)
            col, cty = COLUMNS[tr.attrs[rhs.attr]]
            if ty != cty:
                _fail(f"{self.name}: membership of a {ty} in the {cty} array self.{rhs.attr}", n)
            mem = f"({'str_mem' if cty == 'str' else 'zmem'} {t} {col})"
            return (mem if isinstance(n.ops[0], ast.In) else f"(negb {mem})", "bool", True)
        if isinstance(n, ast.Subscript) and _is_self_attr(n.value):
            d = n.value.attr
            if d not in tr.dicts:
                _fail(f"{self.name}: self.{d}[...] is not one of the index dictionaries", n)
            kty, vty = COLUMNS[tr.attrs[tr.dicts[d][0]]][1], COLUMNS[tr.attrs[tr.dicts[d][1]]][1]
            return self.bind(self.expr(n.slice, env), kty, lambda k: (f"(py_item g{d} {k})", vty, False), n)
        if isinstance(n, ast.Call):
            f = n.func
            if isinstance(f, ast.Attribute) and f.attr == "capitalize" and not n.args and not n.keywords:
                def cap(x, ty):
                    if ty == "pyval":
                        return (f"(py_capitalize {x})", "str", False)
                    if ty == "str":
                        return (f"(capitalize {x})", "str", True)
                    _fail(f"{self.name}: .capitalize() of a {ty}", n)
                return self.bind_any(self.expr(f.value, env), cap)
            if isinstance(f, ast.Name) and f.id in ("int", "Decimal", "float") and len(n.args) == 1 and not n.keywords:
                def conv(x, ty):
                    table = {("int", "pyval"): ("pyint", "Z"), ("int", "str"): ("pyint_str", "Z"),
                             ("Decimal", "str"): ("pydecimal", "dec"), ("float", "str"): ("py_float_str", "flt")}
                    if (f.id, ty) not in table:
                        _fail(f"{self.name}: {f.id}() of a {ty}", n)
                    g, rty = table[(f.id, ty)]
                    return (f"({g} {x})", rty, False)
                return self.bind_any(self.expr(n.args[0], env), conv)
            callee = None
            if _is_self_attr(f) and f.attr in self.helpers:
                callee = f.attr
            elif isinstance(f, ast.Name) and f.id in self.helpers and f.id not in env:
                callee = f.id
            if callee is not None:
                gname, params, rty = self.helpers[callee]    # params: [(name, type, default term or None)]
                given = {}
                if len(n.args) > len(params):
                    _fail(f"{self.name}: too many arguments to {callee}", n)
                for (pn, _, _), a in zip(params, n.args):
                    given[pn] = a
                for kw in n.keywords:
                    if kw.arg is None or kw.arg in given or kw.arg not in [p[0] for p in params]:
                        _fail(f"{self.name}: bad keyword argument to {callee}", n)
                    given[kw.arg] = kw.value
                terms = []
                for pn, pty, dflt in params:
                    if pn in given:
                        t, ty, p = self.expr(given[pn], env)
                        if ty != pty or not p:
                            _fail(f"{self.name}: argument {pn} of {callee} must be a plain {pty}", n)
                        terms.append(t)
                    elif dflt is not None:
                        terms.append(dflt)
                    else:
                        _fail(f"{self.name}: argument {pn} of {callee} missing", n)
                return (f"({gname} {' '.join(terms)})", rty, False)
        _fail(f"{self.name}: unsupported expression {ast.dump(n)[:120]}", n)

    def bind_any(self, e, k):
        t, ty, p = e
        if p:
            return k(t, ty)
        v = self.var()
        t2, ty2, p2 = k(v, ty)
        return (f"(obind {t} (fun {v} => {t2 if not p2 else '(Ok ' + t2 + ')'}))", ty2, False)

    def bind(self, e, want, k, node):
        if e[1] != want:
            _fail(f"{self.name}: a {e[1]} is used where a {want} is needed", node)
        return self.bind_any(e, lambda x, _ty: k(x))

    def out(self, e):
        """as an outcome term"""
        t, ty, p = e
        return f"(Ok {t})" if p else t

    # -- statements: -> outcome term (of the function's return type); every path must return or raise
    def block(self, stmts, env):
        if not stmts:
            _fail(f"{self.name}: a path falls off the end of the function (returns None)")
        r = self.block_extra(stmts, env)
        if r is not None:
            return r
        st, rest = stmts[0], stmts[1:]
        if isinstance(st, ast.Return):
            if rest or st.value is None:
                _fail(f"{self.name}: bare return / statements after return", st)
            e = self.expr(st.value, env)
            self.ret_types.append(e[1])
            return self.ret(e)
        if isinstance(st, ast.Raise):
            if rest or st.cause is not None:
                _fail(f"{self.name}: statements after raise / raise from", st)
            return f"(Err {self.raised(st)})"
        if isinstance(st, ast.Assign) and len(st.targets) == 1 and isinstance(st.targets[0], ast.Name):
            t, ty, p = self.expr(st.value, env)
            name = st.targets[0].id
            v = "v_" + name
            env2 = dict(env)
            env2[name] = (v, ty)
            body = self.block(rest, env2)
            return f"(let {v} := {t} in {body})" if p else f"(obind {t} (fun {v} => {body}))"
        if isinstance(st, ast.Assert) and st.msg is None:
            c = st.test
            if (isinstance(c, ast.Call) and isinstance(c.func, ast.Name) and c.func.id == "isinstance" and len(c.args) == 2
                    and isinstance(c.args[0], ast.Name) and c.args[0].id in env and isinstance(c.args[1], ast.Name) and c.args[1].id == "str"):
                x, ty = env[c.args[0].id]
                if ty == "str":
                    return self.block(rest, env)
                if ty == "pyval":
                    return f"(obind (py_assert_str {x}) (fun _ => {self.block(rest, env)}))"
            _fail(f"{self.name}: unsupported assert", st)
        if isinstance(st, ast.If):
            t, ty, p = self.expr(st.test, env)
            if ty != "bool" or not p:
                _fail(f"{self.name}: `if` on a non-boolean or raising test", st)
            if st.orelse:
                if rest:
                    _fail(f"{self.name}: statements after a complete if/else", st)
                return f"(if {t} then {self.block(st.body, env)} else {self.block(st.orelse, env)})"
            return f"(if {t} then {self.block(st.body, env)} else {self.block(rest, env)})"
        if isinstance(st, ast.Try):
            if rest or st.finalbody or len(st.handlers) != 1 or len(st.body) != 1:
                _fail(f"{self.name}: try must have one body statement, one handler, no finally, and end the block", st)
            h = st.handlers[0]
            if h.type is None:
                kinds = ALL_KINDS
            else:
                names = h.type.elts if isinstance(h.type, ast.Tuple) else [h.type]
                kinds = []
                for nm in names:
                    if not isinstance(nm, ast.Name) or (nm.id not in EXC and nm.id not in ("Exception", "BaseException")):
                        _fail(f"{self.name}: unsupported exception class in except", h)
                    kinds += ALL_KINDS if nm.id in ("Exception", "BaseException") else EXC[nm.id]
            kinds = list(dict.fromkeys(kinds))
            b = st.body[0]
            env2 = dict(env)
            v = "_"
            if isinstance(b, ast.Expr):
                body = self.out(self.expr(b.value, env))
                if not st.orelse:
                    _fail(f"{self.name}: try without else whose body is a bare expression", st)
                orelse = self.block(st.orelse, env2)
            elif isinstance(b, ast.Assign) and len(b.targets) == 1 and isinstance(b.targets[0], ast.Name):
                e = self.expr(b.value, env)
                body = self.out(e)
                v = "v_" + b.targets[0].id
                env2[b.targets[0].id] = (v, e[1])
                if not st.orelse:
                    _fail(f"{self.name}: try without else after an assignment", st)
                orelse = self.block(st.orelse, env2)
            elif isinstance(b, ast.Return) and b.value is not None and not st.orelse:
                e = self.expr(b.value, env)
                self.ret_types.append(e[1])
                body = self.out(e)
                v = self.var("r")
                orelse = self.ret((v, e[1], True))
            else:
                _fail(f"{self.name}: unsupported try body", st)
            henv = dict(env)   # the handler does not see the variable bound in the try body
            handler = self.block(h.body, henv)
            return f"(try_else {body} {clist(kinds, str)} {handler} (fun {v} => {orelse}))"
        if isinstance(st, ast.Expr) and isinstance(st.value, ast.Constant) and isinstance(st.value.value, str):
            return self.block(rest, env)
        _fail(f"{self.name}: unsupported statement {type(st).__name__}", st)

    def raised(self, st):
        e = st.exc
        nm = e.func if isinstance(e, ast.Call) else e
        if not isinstance(nm, ast.Name) or nm.id not in EXC or len(EXC[nm.id]) != 1:
            _fail(f"{self.name}: unsupported raise", st)
        return EXC[nm.id][0]

    wrap = False
    wrappers = WRAP

    def ret(self, e):
        if self.wrap:
            if e[1] not in self.wrappers:
                _fail(f"{self.name}: cannot return a {e[1]}")
            t, ty, p = e
            return f"(Ok ({self.wrappers[ty]} {t}))" if p else f"(omap {self.wrappers[ty]} {t})"
        return self.out(e)


def _params(fn, name, types):
    """[(name, type, default)] of `def f(self, atom, strict=False, *, return_decimal=False)`; bool parameters must default to a bool"""
    a = fn.args
    if a.vararg or a.kwarg or a.posonlyargs or fn.decorator_list:
        _fail(f"{name}: signature changed", fn)
    pos = [x.arg for x in a.args]
    if not pos or pos[0] != "self":
        _fail(f"{name}: not a method", fn)
    pos = pos[1:]
    dflt = [None] * (len(pos) - len(a.defaults)) + list(a.defaults)
    out = []
    for p, d in list(zip(pos, dflt)) + list(zip([x.arg for x in a.kwonlyargs], a.kw_defaults)):
        if p not in types:
            _fail(f"{name}: unexpected parameter {p}", fn)
        if d is not None:
            if not (isinstance(d, ast.Constant) and isinstance(d.value, bool) and types[p] == "bool"):
                _fail(f"{name}: unsupported default for {p}", fn)
            d = "true" if d.value else "false"
        elif types[p] == "bool":
            _fail(f"{name}: boolean parameter {p} without default", fn)
        out.append((p, types[p], d))
    return out


class Tr:
    pass


def load(repo):
    path = os.path.join(repo, SRC)
    try:
        with open(path) as fh:
            tree = ast.parse(fh.read())
    except Exception as e:
        raise TranslateError(f"cannot parse {SRC}: {e}")
    classes = [n for n in tree.body if isinstance(n, ast.ClassDef) and n.name == "PeriodicTable"]
    if len(classes) != 1 or classes[0].bases or classes[0].decorator_list:
        _fail("expected exactly one plain class PeriodicTable")
    cls = classes[0]
    fns = {}
    aliases = []
    for n in cls.body:
        if isinstance(n, ast.FunctionDef):
            if n.name in fns:
                _fail(f"{n.name} defined twice", n)
            fns[n.name] = n
        elif isinstance(n, ast.Assign) and len(n.targets) == 1 and isinstance(n.targets[0], ast.Name) and isinstance(n.value, ast.Name):
            aliases.append((n.targets[0].id, n.value.id))
        elif isinstance(n, ast.Expr) and isinstance(n.value, ast.Constant) and isinstance(n.value.value, str):
            pass
        else:
            _fail(f"unexpected class-level statement {type(n).__name__}", n)
    for a, b in aliases:
        if b not in fns or a in fns or [x for x, _ in aliases].count(a) != 1:
            _fail(f"class-level alias {a} = {b} does not rebind one of the methods once")
    for need in ["__init__", "_resolve_atom_to_key"] + ACCESSORS:
        if need not in fns:
            _fail(f"method {need} missing")
    # other methods may exist (they are not entry points of the property); the translated bodies cannot call them:
    # a call to anything but the helpers known here is rejected by Fn.expr
    # module level: the singleton
    singles = [n for n in tree.body if isinstance(n, ast.Assign) and len(n.targets) == 1 and isinstance(n.targets[0], ast.Name)
               and n.targets[0].id == "periodictable"]
    if len(singles) != 1 or not (isinstance(singles[0].value, ast.Call) and isinstance(singles[0].value.func, ast.Name)
                                 and singles[0].value.func.id == "PeriodicTable" and not singles[0].value.args and not singles[0].value.keywords):
        _fail("expected exactly one module-level `periodictable = PeriodicTable()`")

    tr = Tr()
    tr.attrs, tr.dicts = _init(fns["__init__"])
    for col in COLUMNS:
        if list(tr.attrs.values()).count(col) != 1:
            _fail(f"__init__: shipped array {col!r} is not bound to exactly one attribute")
    defs = []
    types = {"atom": "pyval", "strict": "bool", "return_decimal": "bool"}

    # _resolve_atom_to_key with its nested helper(s)
    rk = fns["_resolve_atom_to_key"]
    rk_params = _params(rk, "_resolve_atom_to_key", types)
    helpers = {}
    body = _strip_doc(rk.body)
    while body and isinstance(body[0], ast.FunctionDef):
        h = body.pop(0)
        if [a.arg for a in h.args.args] != ["atom"] or h.args.vararg or h.args.kwarg or h.args.kwonlyargs or h.args.defaults or h.decorator_list:
            _fail(f"nested helper {h.name}: signature changed", h)
        f = Fn(tr, h.name, [("atom", "pyval")], helpers)
        term = f.block(_strip_doc(h.body), f.env)
        if set(f.ret_types) != {"str"}:
            _fail(f"nested helper {h.name} does not return a str on every path", h)
        defs.append((f"g_{h.name}", "(v_atom : pyval)", "outcome string", term))
        helpers[h.name] = (f"g_{h.name}", [("atom", "pyval", None)], "str")
    f = Fn(tr, "_resolve_atom_to_key", [(p, t) for p, t, _ in rk_params], helpers)
    term = f.block(body, f.env)
    if set(f.ret_types) != {"str"}:
        _fail("_resolve_atom_to_key does not return a str on every path", rk)
    sig = " ".join(f"(v_{p} : {COQTY[t]})" for p, t, _ in rk_params)
    defs.append(("g_resolve_atom_to_key", sig, "outcome string", term))
    method_helpers = {"_resolve_atom_to_key": ("g_resolve_atom_to_key", rk_params, "str")}
    defaults = [("_resolve_atom_to_key", p, d) for p, _t, d in rk_params if d is not None]

    for name in ACCESSORS:
        fn = fns[name]
        params = _params(fn, name, types)
        f = Fn(tr, name, [(p, t) for p, t, _ in params], method_helpers)
        probe = Fn(tr, name, [(p, t) for p, t, _ in params], method_helpers)
        probe.block(_strip_doc(fn.body), probe.env)
        rts = list(dict.fromkeys(probe.ret_types))
        f.wrap = len(rts) != 1
        term = f.block(_strip_doc(fn.body), f.env)
        rty = "outcome gval" if f.wrap else f"outcome {COQTY[rts[0]]}"
        sig = " ".join(f"(v_{p} : {COQTY[t]})" for p, t, _ in params)
        defs.append((f"g_{name}", sig, rty, term))
        defaults += [(name, p, d) for p, _t, d in params if d is not None]
    tr.defs, tr.aliases, tr.defaults = defs, aliases, defaults
    return tr


def generate(repo):
    tr = load(repo)
    out = ["(* GENERATED from qcelemental/periodic_table.py (class PeriodicTable: __init__, _resolve_atom_to_key, accessors) by",
           "   harness/translate/ptglue.py — do not edit *)",
           "From Coq Require Import ZArith List String Bool.",
           "Require Import QV.Common.Outcome QV.Common.PyAscii QV.Gen.PTable QV.Gen.PeriodGroup QV.Model.PeriodicTable QV.Model.PeriodicTableFloat",
           "               QV.Model.PeriodicTableGlue.",
           "Import ListNotations.", "Open Scope string_scope.", "",
           "(* __init__: attribute -> shipped array *)",
           "Definition g_attrs : list (string * string) := " + clist(sorted(tr.attrs.items()), lambda kv: f"({cstr(kv[0])}, {cstr(kv[1])})") + ".", "",
           "(* __init__: the index dictionaries, dict(zip(keys, values)) *)"]
    for d, (k, w) in tr.dicts.items():
        kc, kty = COLUMNS[tr.attrs[k]]
        wc, wty = COLUMNS[tr.attrs[w]]
        out.append(f"Definition g{d} : {COQTY[kty]} -> option {COQTY[wty]} := {'sdict' if kty == 'str' else 'zdict'} {kc} {wc}.   (* zip(self.{k}, self.{w}) *)")
    out.append("")
    for name, sig, rty, term in tr.defs:
        out.append(f"Definition {name} {sig} : {rty} :=\n  {term}.")
        out.append("")
    out.append("(* class-level rebindings  alias = method *)")
    out.append("Definition g_aliases : list (string * string) := " + clist(sorted(tr.aliases), lambda kv: f"({cstr(kv[0])}, {cstr(kv[1])})") + ".")
    out.append("(* keyword defaults  (method, parameter, default) *)")
    out.append("Definition g_defaults : list (string * string * bool) := "
               + clist(sorted(tr.defaults), lambda r: f"({cstr(r[0])}, {cstr(r[1])}, {r[2]})") + ".")
    out.append("")
    coqrun.write_if_changed(os.path.join(coqrun.COQ, "Gen", "PTGlue.v"), "\n".join(out) + "\n")
    return tr
