"""Translator (C17): the bodies of CovalentRadii.get and VanderWaalsRadii.get (label-or-element resolution, missing-data
handling, Datum / number form) and of Datum.to_units  ->  coq/Gen/RadiiGlue.v.

Built on the statement/expression translator of ptglue.py (same statically typed fragment) plus the few constructs these
functions use: `atom in self.<tbl>.keys()`, an if/else that binds one variable, a try whose body is asserts + one binding
and whose handler returns/raises, `raise ... from e`, `missing is not None`, `periodictable.to_E(atom)`, `qca.to_units(units)`.
Semantics of the constructs: coq/Model/RadiiGlue.v.  Proofs/RadiiGlue.v proves the generated functions equal to the
hand-written model (Model/Radii.v `get`) for ALL identifiers, fallbacks, return forms and unit factors.  Fail-closed."""
import ast
import os

from .. import coqrun
from ..core import TranslateError
from ..coqrun import cstr, clist
from . import ptglue
from .ptglue import Fn, _is_self_attr, _strip_doc

ptglue.EXC.setdefault("DataUnavailableError", ["DataUnavailable"])


def _fail(src, msg, node=None):
    where = f" (line {node.lineno})" if node is not None and hasattr(node, "lineno") else ""
    raise TranslateError(f"{src}{where}: {msg}")


class GetFn(Fn):
    wrap = True
    wrappers = {"entry": "GDatum", "opt": "GMissing", "val": "GValue"}

    def __init__(self, src, tbl_attr):
        class _T:
            attrs, dicts = {}, {}
        super().__init__(_T(), "get", [], {})
        self.src, self.tbl_attr = src, tbl_attr
        self.env = {"atom": ("v_atom", "pyval"), "return_tuple": ("v_return_tuple", "bool"), "missing": ("v_missing", "opt")}

    def is_tbl(self, n):
        return _is_self_attr(n, self.tbl_attr)

    def expr_extra(self, n, env):
        if isinstance(n, ast.Compare) and len(n.ops) == 1:
            op, lhs, rhs = n.ops[0], n.left, n.comparators[0]
            if isinstance(op, (ast.In, ast.NotIn)):
                keys = rhs.func.value if (isinstance(rhs, ast.Call) and isinstance(rhs.func, ast.Attribute) and rhs.func.attr == "keys"
                                          and not rhs.args and not rhs.keywords) else rhs
                if self.is_tbl(keys):
                    t, ty, p = self.expr(lhs, env)
                    if not p or ty not in ("pyval", "str"):
                        _fail(self.src, "membership test of a non-identifier in the radii table", n)
                    mem = f"(py_in_tbl {t} tbl)" if ty == "pyval" else f"(tbl_mem tbl {t})"
                    return (mem if isinstance(op, ast.In) else f"(negb {mem})", "bool", True)
            if isinstance(op, (ast.Is, ast.IsNot)) and isinstance(rhs, ast.Constant) and rhs.value is None:
                t, ty, p = self.expr(lhs, env)
                if ty != "opt" or not p:
                    _fail(self.src, "`is None` of something that is not the `missing` argument", n)
                return (f"(negb (is_some {t}))" if isinstance(op, ast.Is) else f"(is_some {t})", "bool", True)
        if isinstance(n, ast.Subscript) and self.is_tbl(n.value):
            def item(k, ty):
                if ty == "pyval":
                    return (f"(py_tbl_item tbl {k})", "entry", False)
                if ty == "str":
                    return (f"(py_tbl_item tbl (PStr {k}))", "entry", False)
                _fail(self.src, f"radii table indexed by a {ty}", n)
            return self.bind_any(self.expr(n.slice, env), item)
        if isinstance(n, ast.Call) and isinstance(n.func, ast.Attribute):
            f = n.func
            if isinstance(f.value, ast.Name) and f.value.id == "periodictable" and f.attr in ("to_E", "to_symbol"):
                strict = "false"
                if len(n.args) != 1:
                    _fail(self.src, "periodictable.to_E with other than one positional argument", n)
                for kw in n.keywords:
                    if kw.arg == "strict" and isinstance(kw.value, ast.Constant) and isinstance(kw.value.value, bool):
                        strict = "true" if kw.value.value else "false"
                    else:
                        _fail(self.src, "periodictable.to_E: unsupported keyword", n)
                t, ty, p = self.expr(n.args[0], env)
                if ty != "pyval" or not p:
                    _fail(self.src, "periodictable.to_E of something that is not the caller's identifier", n)
                return (f"(to_E {t} {strict})", "str", False)
            if f.attr == "to_units":
                args = list(n.args) + [kw.value for kw in n.keywords if kw.arg == "units"]
                if len(args) != 1 or len(n.keywords) > 1 or not (isinstance(args[0], ast.Name) and args[0].id == "units"):
                    _fail(self.src, "to_units must be called with the caller's `units`", n)
                t, ty, p = self.expr(f.value, env)
                if ty != "entry" or not p:
                    _fail(self.src, "to_units of something that is not a table entry", n)
                return (f"(py_to_units {t} factor)", "val", False)
        return None

    def block_extra(self, stmts, env):
        st, rest = stmts[0], stmts[1:]
        # if c: v = e1  else: v = e2   (then the rest)
        if (isinstance(st, ast.If) and rest and len(st.body) == 1 and len(st.orelse) == 1
                and all(isinstance(b, ast.Assign) and len(b.targets) == 1 and isinstance(b.targets[0], ast.Name) for b in (st.body[0], st.orelse[0]))
                and st.body[0].targets[0].id == st.orelse[0].targets[0].id):
            c, cty, cp = self.expr(st.test, env)
            if cty != "bool" or not cp:
                _fail(self.src, "`if` on a non-boolean or raising test", st)
            e1, e2 = self.expr(st.body[0].value, env), self.expr(st.orelse[0].value, env)
            ty = e1[1]
            if e1[1] != e2[1]:
                if {e1[1], e2[1]} != {"pyval", "str"}:
                    _fail(self.src, f"the two branches bind a {e1[1]} and a {e2[1]}", st)
                ty = "pyval"
                lift = lambda e: e if e[1] == "pyval" else ((f"(PStr {e[0]})", "pyval", True) if e[2] else (f"(omap PStr {e[0]})", "pyval", False))
                e1, e2 = lift(e1), lift(e2)
            name = st.body[0].targets[0].id
            v = "v_" + name
            env2 = dict(env)
            env2[name] = (v, ty)
            return f"(obind (if {c} then {self.out(e1)} else {self.out(e2)}) (fun {v} => {self.block(rest, env2)}))"
        # try: assert...; v = e   except K [as e]: <returns or raises>     (then the rest, which sees v)
        if isinstance(st, ast.Try) and rest and not st.orelse and not st.finalbody and len(st.handlers) == 1 and st.body \
                and isinstance(st.body[-1], ast.Assign) and len(st.body[-1].targets) == 1 and isinstance(st.body[-1].targets[0], ast.Name):
            h = st.handlers[0]
            names = [] if h.type is None else (h.type.elts if isinstance(h.type, ast.Tuple) else [h.type])
            kinds = [] if names else list(ptglue.ALL_KINDS)
            for nm in names:
                if not isinstance(nm, ast.Name) or (nm.id not in ptglue.EXC and nm.id not in ("Exception", "BaseException")):
                    _fail(self.src, "unsupported exception class in except", h)
                kinds += ptglue.ALL_KINDS if nm.id in ("Exception", "BaseException") else ptglue.EXC[nm.id]
            kinds = list(dict.fromkeys(kinds))
            e = self.expr(st.body[-1].value, env)
            body = self.out(e)
            for a in reversed(st.body[:-1]):
                c = a.test if isinstance(a, ast.Assert) and a.msg is None else None
                if not (isinstance(c, ast.Call) and isinstance(c.func, ast.Name) and c.func.id == "isinstance" and len(c.args) == 2
                        and isinstance(c.args[0], ast.Name) and c.args[0].id in env and isinstance(c.args[1], ast.Name) and c.args[1].id == "str"):
                    _fail(self.src, "only `assert isinstance(<name>, str)` may precede the binding in a try body", a)
                x, ty = env[c.args[0].id]
                if ty == "pyval":
                    body = f"(obind (py_assert_str {x}) (fun _ => {body}))"
                elif ty != "str":
                    _fail(self.src, "assert isinstance(..., str) of a non-identifier", a)
            name = st.body[-1].targets[0].id
            v = "v_" + name
            env2 = dict(env)
            env2[name] = (v, e[1])
            handler = self.block(h.body, dict(env))
            return f"(try_else {body} {clist(kinds, str)} {handler} (fun {v} => {self.block(rest, env2)}))"
        # raise X(...) from e
        if isinstance(st, ast.Raise) and st.cause is not None and isinstance(st.cause, ast.Name) and not rest:
            return f"(Err {self.raised(st)})"
        return None


def _get_method(repo, relpath, cls_name, tbl_attr, singleton):
    path = os.path.join(repo, relpath)
    try:
        with open(path) as fh:
            tree = ast.parse(fh.read())
    except Exception as e:
        raise TranslateError(f"cannot parse {relpath}: {e}")
    imp = [n for n in tree.body if isinstance(n, ast.ImportFrom) and n.module == "periodic_table" and n.level == 1
           and [(a.name, a.asname) for a in n.names] == [("periodictable", None)]]
    if len(imp) != 1:
        _fail(relpath, "expected `from .periodic_table import periodictable`")
    classes = [n for n in tree.body if isinstance(n, ast.ClassDef) and n.name == cls_name]
    if len(classes) != 1:
        _fail(relpath, f"expected exactly one class {cls_name}")
    gets = [n for n in classes[0].body if isinstance(n, ast.FunctionDef) and n.name == "get"]
    if len(gets) != 1 or gets[0].decorator_list:
        _fail(relpath, "expected exactly one undecorated method get")
    fn = gets[0]
    a = fn.args
    if [x.arg for x in a.args] != ["self", "atom"] or a.defaults or a.vararg or a.kwarg or a.posonlyargs:
        _fail(relpath, "get: positional signature changed", fn)
    kw = {x.arg: d for x, d in zip(a.kwonlyargs, a.kw_defaults)}
    if set(kw) != {"return_tuple", "units", "missing"}:
        _fail(relpath, f"get: keyword-only parameters changed: {sorted(kw)}", fn)
    dv = {k: (v.value if isinstance(v, ast.Constant) else TranslateError) for k, v in kw.items()}
    if dv["return_tuple"] is not False or dv["missing"] is not None or not isinstance(dv["units"], str) or not dv["units"].isascii():
        _fail(relpath, f"get: keyword defaults changed: {dv}", fn)
    singles = [n for n in tree.body if isinstance(n, ast.Assign) and len(n.targets) == 1 and isinstance(n.targets[0], ast.Name)
               and n.targets[0].id == singleton]
    if len(singles) != 1 or not (isinstance(singles[0].value, ast.Call) and isinstance(singles[0].value.func, ast.Name)
                                 and singles[0].value.func.id == cls_name):
        _fail(relpath, f"expected exactly one module-level `{singleton} = {cls_name}(...)`")
    f = GetFn(relpath, tbl_attr)
    saved, ptglue.SRC = ptglue.SRC, relpath      # messages of the shared statement translator name this source file
    try:
        term = f.block(_strip_doc(fn.body), f.env)
    finally:
        ptglue.SRC = saved
    return term, dv["units"]


def _to_units(repo):
    """Datum.to_units: to_unit = self.units if units is None else units; factor = constants.conversion_factor(self.units, to_unit);
    Decimal payload -> factor * float(self.data), anything else -> factor * self.data.  -> (term for Decimal, term for the rest)"""
    rel = "qcelemental/datum.py"
    try:
        with open(os.path.join(repo, rel)) as fh:
            tree = ast.parse(fh.read())
    except Exception as e:
        raise TranslateError(f"cannot parse {rel}: {e}")
    classes = [n for n in tree.body if isinstance(n, ast.ClassDef) and n.name == "Datum"]
    fns = [n for c in classes for n in c.body if isinstance(n, ast.FunctionDef) and n.name == "to_units"]
    if len(classes) != 1 or len(fns) != 1 or fns[0].decorator_list:
        _fail(rel, "expected exactly one Datum.to_units")
    fn = fns[0]
    a = fn.args
    if [x.arg for x in a.args] != ["self", "units"] or len(a.defaults) != 1 or not (isinstance(a.defaults[0], ast.Constant) and a.defaults[0].value is None) \
            or a.kwonlyargs or a.vararg or a.kwarg:
        _fail(rel, "to_units signature changed", fn)
    body = _strip_doc(fn.body)
    if body and isinstance(body[0], ast.ImportFrom):
        i = body.pop(0)
        if not (i.module == "physical_constants" and i.level == 1 and [(x.name, x.asname) for x in i.names] == [("constants", None)]):
            _fail(rel, "to_units: unexpected import", i)
    else:
        _fail(rel, "to_units does not import the module singleton `constants`", fn)
    env = {}

    def pure(n):
        """-> Gallina term of type string (unit names) or Q"""
        if isinstance(n, ast.Name) and n.id in env:
            return env[n.id]
        if _is_self_attr(n, "units"):
            return ("d_units", "unit")
        if _is_self_attr(n, "data"):
            return ("data", "Q")
        if isinstance(n, ast.IfExp):
            t = n.test
            if (isinstance(t, ast.Compare) and len(t.ops) == 1 and isinstance(t.ops[0], (ast.Is, ast.IsNot)) and isinstance(t.left, ast.Name)
                    and t.left.id == "units" and isinstance(t.comparators[0], ast.Constant) and t.comparators[0].value is None):
                a1, a2 = pure_or_units(n.body), pure_or_units(n.orelse)
                if a1[1] != "unit" or a2[1] != "unit":
                    _fail(rel, "to_units: conditional of non-units", n)
                none_branch, some_branch = (a1[0], a2[0]) if isinstance(t.ops[0], ast.Is) else (a2[0], a1[0])
                return (f"(match units with None => {none_branch} | Some u => {some_branch} end)", "unit")
        if isinstance(n, ast.Call) and isinstance(n.func, ast.Attribute) and n.func.attr == "conversion_factor" \
                and isinstance(n.func.value, ast.Name) and n.func.value.id == "constants" and len(n.args) == 2 and not n.keywords:
            a1, a2 = pure(n.args[0]), pure(n.args[1])
            if a1[1] != "unit" or a2[1] != "unit":
                _fail(rel, "to_units: conversion_factor of non-units", n)
            return (f"(cf {a1[0]} {a2[0]})", "Q")
        if isinstance(n, ast.Call) and isinstance(n.func, ast.Name) and n.func.id == "float" and len(n.args) == 1 and not n.keywords:
            a1 = pure(n.args[0])
            if a1[1] != "Q":
                _fail(rel, "to_units: float() of a non-number", n)
            return a1      # float(Decimal) is the value itself in exact arithmetic; the rounding is in the stated tolerance
        if isinstance(n, ast.BinOp) and isinstance(n.op, ast.Mult):
            a1, a2 = pure(n.left), pure(n.right)
            if a1[1] != "Q" or a2[1] != "Q":
                _fail(rel, "to_units: product of non-numbers", n)
            return (f"({a1[0]} * {a2[0]})%Q", "Q")
        _fail(rel, f"to_units: unsupported expression {ast.dump(n)[:100]}", n)

    def pure_or_units(n):
        if isinstance(n, ast.Name) and n.id == "units":
            return ("u", "unit")
        return pure(n)

    while body and isinstance(body[0], ast.Assign):
        st = body.pop(0)
        if len(st.targets) != 1 or not isinstance(st.targets[0], ast.Name) or st.targets[0].id in ("units",):
            _fail(rel, "to_units: unsupported assignment", st)
        env[st.targets[0].id] = pure(st.value)
    if len(body) != 1 or not isinstance(body[0], ast.If) or len(body[0].body) != 1 or len(body[0].orelse) != 1 \
            or not isinstance(body[0].body[0], ast.Return) or not isinstance(body[0].orelse[0], ast.Return):
        _fail(rel, "to_units: expected `if isinstance(self.data, Decimal): return ... else: return ...`", fn)
    t = body[0].test
    if not (isinstance(t, ast.Call) and isinstance(t.func, ast.Name) and t.func.id == "isinstance" and len(t.args) == 2
            and _is_self_attr(t.args[0], "data") and isinstance(t.args[1], ast.Name) and t.args[1].id == "Decimal"):
        _fail(rel, "to_units: the branch test is not isinstance(self.data, Decimal)", t)
    r1, r2 = pure(body[0].body[0].value), pure(body[0].orelse[0].value)
    if r1[1] != "Q" or r2[1] != "Q":
        _fail(rel, "to_units does not return numbers", fn)
    return r1[0], r2[0]


def generate(repo):
    cov, cov_units = _get_method(repo, "qcelemental/covalent_radii.py", "CovalentRadii", "cr", "covalentradii")
    vdw, vdw_units = _get_method(repo, "qcelemental/vanderwaals_radii.py", "VanderWaalsRadii", "vdwr", "vdwradii")
    dec_term, other_term = _to_units(repo)
    sig = "{M : Type} (tbl : list (string * entry)) (v_atom : pyval) (v_missing : option M) (v_return_tuple : bool) (factor : string -> Q)"
    out = ["(* GENERATED from qcelemental/covalent_radii.py, vanderwaals_radii.py (method get) and datum.py (Datum.to_units) by",
           "   harness/translate/radiiglue.py — do not edit *)",
           "From Coq Require Import ZArith QArith List String Bool.",
           "Require Import QV.Common.Outcome QV.Common.PyAscii QV.Model.PeriodicTable QV.Model.PeriodicTableGlue QV.Model.Radii QV.Model.RadiiGlue.",
           "Import ListNotations.", "",
           "(* `tbl` is self.cr / self.vdwr; `factor u` stands for constants.conversion_factor(u, units) *)",
           f"Definition g_cov_get {sig} : outcome (gres M) :=\n  {cov}.", "",
           f"Definition g_vdw_get {sig} : outcome (gres M) :=\n  {vdw}.", "",
           f"Definition g_cov_units_default : string := {cstr(cov_units)}.",
           f"Definition g_vdw_units_default : string := {cstr(vdw_units)}.", "",
           "(* Datum.to_units(units=None): `cf a b` stands for constants.conversion_factor(a, b); the payload is a Decimal or not *)",
           "Definition g_datum_to_units (cf : string -> string -> Q) (d_units : string) (data : Q) (is_decimal : bool) (units : option string) : Q :=",
           f"  if is_decimal then {dec_term} else {other_term}.", ""]
    coqrun.write_if_changed(os.path.join(coqrun.COQ, "Gen", "RadiiGlue.v"), "\n".join(out) + "\n")
