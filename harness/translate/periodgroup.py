"""Translator (C01): the `if/elif` ladders of PeriodicTable.to_period / to_group in qcelemental/periodic_table.py
->  coq/Gen/PeriodGroup.v (Gallina functions Z -> option Z).  Fail-closed: the function body must be
[docstring], `Z = self.to_Z(atom)`, one if/elif/else ladder whose tests are `Z <op> int` or `Z [not] in [ints]`
(optionally joined by and/or/not) and whose branches are `return <int or None>`."""
import ast
import os

from .. import coqrun
from ..core import TranslateError
from ..coqrun import cz, clist

SRC = "qcelemental/periodic_table.py"

CMP = {ast.LtE: "Z.leb", ast.Lt: "Z.ltb", ast.GtE: "Z.geb", ast.Gt: "Z.gtb", ast.Eq: "Z.eqb"}


def _int_const(node):
    if isinstance(node, ast.UnaryOp) and isinstance(node.op, ast.USub):
        return -_int_const(node.operand)
    if isinstance(node, ast.Constant) and isinstance(node.value, int) and not isinstance(node.value, bool):
        return node.value
    raise TranslateError(f"{SRC}: expected an integer literal, got {ast.dump(node)[:80]}")


def _test(node, var):
    if isinstance(node, ast.BoolOp):
        op = "andb" if isinstance(node.op, ast.And) else "orb"
        parts = [_test(v, var) for v in node.values]
        acc = parts[0]
        for p in parts[1:]:
            acc = f"({op} {acc} {p})"
        return acc
    if isinstance(node, ast.UnaryOp) and isinstance(node.op, ast.Not):
        return f"(negb {_test(node.operand, var)})"
    if isinstance(node, ast.Compare) and len(node.ops) == 1 and isinstance(node.left, ast.Name) and node.left.id == var:
        op, rhs = node.ops[0], node.comparators[0]
        if type(op) in CMP:
            return f"({CMP[type(op)]} z {cz(_int_const(rhs))})"
        if isinstance(op, ast.NotEq):
            return f"(negb (Z.eqb z {cz(_int_const(rhs))}))"
        if isinstance(op, (ast.In, ast.NotIn)) and isinstance(rhs, (ast.List, ast.Tuple, ast.Set)):
            t = f"(zmem z {clist([_int_const(e) for e in rhs.elts], cz)})"
            return t if isinstance(op, ast.In) else f"(negb {t})"
    raise TranslateError(f"{SRC}: unsupported test in period/group ladder: {ast.dump(node)[:120]}")


def _ret(node):
    if not isinstance(node, ast.Return):
        raise TranslateError(f"{SRC}: ladder branch is not a single return: {ast.dump(node)[:80]}")
    if node.value is None or (isinstance(node.value, ast.Constant) and node.value.value is None):
        return "None"
    return f"(Some {cz(_int_const(node.value))})"


def _ladder(stmts, var):
    """stmts: list of statements forming `if..elif..else` possibly followed by a trailing return."""
    if len(stmts) == 1 and isinstance(stmts[0], ast.Return):
        return _ret(stmts[0])
    if not stmts:
        return "None"  # falling off the end of a Python function returns None
    head = stmts[0]
    if not isinstance(head, ast.If):
        raise TranslateError(f"{SRC}: unexpected statement in period/group ladder: {type(head).__name__}")
    if len(head.body) != 1:
        raise TranslateError(f"{SRC}: ladder branch with {len(head.body)} statements")
    then = _ret(head.body[0])
    if head.orelse:
        if len(stmts) != 1:
            raise TranslateError(f"{SRC}: statements after a complete if/else")
        rest = _ladder(head.orelse, var)
    else:
        rest = _ladder(stmts[1:], var)
    return f"if {_test(head.test, var)} then {then}\n  else {rest}"


def _function(cls, name):
    fns = [n for n in cls.body if isinstance(n, ast.FunctionDef) and n.name == name]
    if len(fns) != 1:
        raise TranslateError(f"{SRC}: expected exactly one PeriodicTable.{name}")
    fn = fns[0]
    if fn.decorator_list:
        raise TranslateError(f"{SRC}: {name} is decorated")
    args = [a.arg for a in fn.args.args]
    if args != ["self", "atom"] or fn.args.vararg or fn.args.kwarg or fn.args.kwonlyargs or fn.args.defaults:
        raise TranslateError(f"{SRC}: {name} signature changed: {args}")
    body = list(fn.body)
    if body and isinstance(body[0], ast.Expr) and isinstance(body[0].value, ast.Constant) and isinstance(body[0].value.value, str):
        body = body[1:]
    if not body:
        raise TranslateError(f"{SRC}: {name} has an empty body")
    a = body[0]
    ok = (isinstance(a, ast.Assign) and len(a.targets) == 1 and isinstance(a.targets[0], ast.Name)
          and isinstance(a.value, ast.Call) and isinstance(a.value.func, ast.Attribute)
          and isinstance(a.value.func.value, ast.Name) and a.value.func.value.id == "self"
          and a.value.func.attr == "to_Z" and len(a.value.args) == 1 and isinstance(a.value.args[0], ast.Name)
          and a.value.args[0].id == "atom" and not a.value.keywords)
    if not ok:
        raise TranslateError(f"{SRC}: {name} does not start with `Z = self.to_Z(atom)`")
    var = a.targets[0].id
    return _ladder(body[1:], var)


def generate(repo):
    path = os.path.join(repo, SRC)
    try:
        with open(path) as fh:
            tree = ast.parse(fh.read())
    except Exception as e:
        raise TranslateError(f"cannot parse {SRC}: {e}")
    classes = [n for n in tree.body if isinstance(n, ast.ClassDef) and n.name == "PeriodicTable"]
    if len(classes) != 1:
        raise TranslateError(f"{SRC}: expected exactly one class PeriodicTable")
    cls = classes[0]
    # the aliases must be plain class-level rebinding of the four accessors
    alias = {}
    for n in cls.body:
        if isinstance(n, ast.Assign) and len(n.targets) == 1 and isinstance(n.targets[0], ast.Name) and isinstance(n.value, ast.Name):
            alias[n.targets[0].id] = n.value.id
    period = _function(cls, "to_period")
    group = _function(cls, "to_group")
    out = ["(* GENERATED from qcelemental/periodic_table.py (to_period / to_group) by harness/translate/periodgroup.py — do not edit *)",
           "From Coq Require Import ZArith List Bool.", "Import ListNotations.", "Open Scope Z_scope.", "",
           "Definition zmem (z : Z) (l : list Z) : bool := existsb (Z.eqb z) l.", "",
           "(* the ladder after `Z = self.to_Z(atom)`; None = Python None *)",
           f"Definition gen_period (z : Z) : option Z :=\n  {period}.", "",
           f"Definition gen_group (z : Z) : option Z :=\n  {group}.", ""]
    coqrun.write_if_changed(os.path.join(coqrun.COQ, "Gen", "PeriodGroup.v"), "\n".join(out) + "\n")
    return {"aliases": alias}
