"""Translator (C17): the table construction in CovalentRadii.__init__ and VanderWaalsRadii.__init__  ->  coq/Gen/RadiiInit.v.

What is read from the source: the empty ordered dict, the `if context == "<NAME>":` guard with `self.native_units = <data>["units"]`,
the loop `for r in <data>["<rows>"]: self.<tbl>[K] = Datum(L, U, D[, comment=C][, doi=self.doi])` and (covalent set) the loop
`for alias in aliases: a, b, c, d = alias; self.cr[K] = Datum(L, U, D, comment=C)` that follows the `aliases = [...]` literal
(the literal itself is translated by radii.py into Gen/Radii.v `cov_aliases`, third component = the label whose .data is copied).
Which tuple component / name goes into which slot (key, label, units, data, comment), `.capitalize()` on a slot, and that the
store is a plain item assignment (`d[k] = v`: Model/RadiiInit.v `dict_set`) all come from the AST; anything else (setdefault,
guards, extra statements, another call than Datum, other keywords) raises TranslateError.  Proofs/RadiiInit.v proves the
generated tables equal to the hand-written ones of Model/Radii.v."""
import ast
import os

from .. import coqrun
from ..core import TranslateError
from .ptglue import _is_self_attr, _strip_doc


def _fail(src, msg, node=None):
    where = f" (line {node.lineno})" if node is not None and hasattr(node, "lineno") else ""
    raise TranslateError(f"{src}{where}: __init__: {msg}")


def _data_item(n, data_name, key=None):
    """<data_name>["key"] -> key (or None)"""
    if isinstance(n, ast.Subscript) and isinstance(n.value, ast.Name) and n.value.id == data_name \
            and isinstance(n.slice, ast.Constant) and isinstance(n.slice.value, str) and (key is None or n.slice.value == key):
        return n.slice.value
    return None


def _store(src, st, tbl_attr, slot):
    """`self.<tbl>[K] = Datum(L, U, D, comment=C, doi=self.doi)` -> (K, L, U, D, C) as Gallina terms; `slot(node, want)` renders one
    expression of type want in {"str", "data"}"""
    if not (isinstance(st, ast.Assign) and len(st.targets) == 1 and isinstance(st.targets[0], ast.Subscript)
            and _is_self_attr(st.targets[0].value, tbl_attr)):
        _fail(src, f"expected a plain item assignment `self.{tbl_attr}[...] = Datum(...)`", st)
    call = st.value
    if not (isinstance(call, ast.Call) and isinstance(call.func, ast.Name) and call.func.id == "Datum" and len(call.args) == 3):
        _fail(src, "the stored value is not Datum(label, units, data, ...)", st)
    comment = "EmptyString"
    for kw in call.keywords:
        if kw.arg == "comment":
            comment = slot(kw.value, "str")
        elif kw.arg == "doi" and _is_self_attr(kw.value, "doi"):
            pass                      # doi is not part of the modelled entry
        else:
            _fail(src, f"Datum(...): unsupported keyword {kw.arg}", st)
    return (slot(st.targets[0].slice, "str"), slot(call.args[0], "str"), slot(call.args[1], "str"), slot(call.args[2], "data"), comment)


def _init(repo, relpath, cls_name, tbl_attr, data_name, rows_key, width, units_const, rows_const, aliases):
    path = os.path.join(repo, relpath)
    try:
        with open(path) as fh:
            tree = ast.parse(fh.read())
    except Exception as e:
        raise TranslateError(f"cannot parse {relpath}: {e}")
    classes = [n for n in tree.body if isinstance(n, ast.ClassDef) and n.name == cls_name]
    inits = [n for c in classes for n in c.body if isinstance(n, ast.FunctionDef) and n.name == "__init__"]
    if len(classes) != 1 or len(inits) != 1 or inits[0].decorator_list:
        _fail(relpath, f"expected exactly one {cls_name}.__init__")
    body = _strip_doc(inits[0].body)
    # 1. self.<tbl> = collections.OrderedDict()
    st = body.pop(0) if body else None
    val = st.value if isinstance(st, (ast.Assign, ast.AnnAssign)) else None
    tgt = st.target if isinstance(st, ast.AnnAssign) else (st.targets[0] if isinstance(st, ast.Assign) and len(st.targets) == 1 else None)
    empty = (isinstance(val, ast.Call) and not val.args and not val.keywords
             and ((isinstance(val.func, ast.Attribute) and val.func.attr == "OrderedDict" and isinstance(val.func.value, ast.Name) and val.func.value.id == "collections")
                  or (isinstance(val.func, ast.Name) and val.func.id in ("dict", "OrderedDict")))) or (isinstance(val, ast.Dict) and not val.keys)
    if not (tgt is not None and _is_self_attr(tgt, tbl_attr) and empty):
        _fail(relpath, f"first statement is not `self.{tbl_attr} = <empty ordered dict>`", st)
    # 2. from .data import <data_name>
    st = body.pop(0) if body else None
    if not (isinstance(st, ast.ImportFrom) and st.module == "data" and st.level == 1 and [(a.name, a.asname) for a in st.names] == [(data_name, None)]):
        _fail(relpath, f"expected `from .data import {data_name}`", st)
    # 3. if context == "<NAME>": self.doi = ...; self.native_units = <data>["units"]; for r in <data>["rows"]: store   else: raise
    st = body.pop(0) if body else None
    if not (isinstance(st, ast.If) and isinstance(st.test, ast.Compare) and len(st.test.ops) == 1 and isinstance(st.test.ops[0], ast.Eq)
            and isinstance(st.test.left, ast.Name) and st.test.left.id == "context" and isinstance(st.test.comparators[0], ast.Constant)
            and isinstance(st.test.comparators[0].value, str) and len(st.orelse) == 1 and isinstance(st.orelse[0], ast.Raise)):
        _fail(relpath, "expected `if context == \"<NAME>\": ... else: raise ...`", st)
    default = inits[0].args.defaults
    if [a.arg for a in inits[0].args.args] != ["self", "context"] or len(default) != 1 or not isinstance(default[0], ast.Constant) \
            or default[0].value != st.test.comparators[0].value:
        _fail(relpath, "the default context is not the one whose table is loaded", inits[0])
    native_ok, loops = False, []
    for s in st.body:
        if isinstance(s, ast.Assign) and len(s.targets) == 1 and _is_self_attr(s.targets[0], "doi") and _data_item(s.value, data_name, "doi"):
            continue
        if isinstance(s, ast.Assign) and len(s.targets) == 1 and _is_self_attr(s.targets[0], "native_units") and _data_item(s.value, data_name, "units"):
            if loops:
                _fail(relpath, "self.native_units is assigned after the loop that uses it", s)
            native_ok = True
            continue
        if isinstance(s, ast.For):
            loops.append(s)
            continue
        _fail(relpath, "unsupported statement in the context branch", s)
    if len(loops) != 1 or not native_ok:
        _fail(relpath, "expected self.native_units = <data>[\"units\"] and exactly one loop over the rows", st)
    loop = loops[0]
    if not (isinstance(loop.target, ast.Name) and _data_item(loop.iter, data_name, rows_key) and not loop.orelse and len(loop.body) == 1):
        _fail(relpath, f"the loop is not `for r in {data_name}[\"{rows_key}\"]: <one store>`", loop)
    rv = loop.target.id

    def row_slot(n, want):
        if want == "str" and _is_self_attr(n, "native_units"):
            return units_const
        comp = None
        inner = n.args[0] if (isinstance(n, ast.Call) and isinstance(n.func, ast.Name) and n.func.id == "Decimal" and len(n.args) == 1 and not n.keywords) else n
        if isinstance(inner, ast.Subscript) and isinstance(inner.value, ast.Name) and inner.value.id == rv and isinstance(inner.slice, ast.Constant) \
                and isinstance(inner.slice.value, int) and not isinstance(inner.slice.value, bool) and 0 <= inner.slice.value < width:
            comp = f"c{inner.slice.value}"
        if comp is None:
            _fail(relpath, f"unsupported expression in the row store: {ast.dump(n)[:100]}", n)
        if want == "data":
            if inner is n:
                _fail(relpath, "the data slot is not Decimal(<row component>)", n)
            return f"(dec_of_string {comp})"
        if inner is not n:
            _fail(relpath, "Decimal(...) in a text slot", n)
        return comp

    k, l, u, d, c = _store(relpath, loop.body[0], tbl_attr, row_slot)
    pat = "(" + ", ".join(f"c{i}" for i in range(width)) + ")"
    rty = " * ".join(["string"] * width)
    # key and value are rendered separately (each under its own destructuring of the row) so that the loop is syntactically
    # `fold_left (fun d r => dict_set d (K r) (W r))`, the shape Proofs/RadiiInit.v fold_dict_set speaks about
    lines = [f"  let d1 := fold_left (fun d (r : {rty}) => dict_set d (let '{pat} := r in {k}) (let '{pat} := r in Build_entry {l} {u} {d} {c})) {rows_const} [] in"]
    # 4. self.name = context; self.year = int(...)   (not modelled), then for the covalent set the aliases
    seen_aliases = False
    final = "d1"
    while body:
        s = body.pop(0)
        if isinstance(s, ast.Assign) and len(s.targets) == 1 and (_is_self_attr(s.targets[0], "name") or _is_self_attr(s.targets[0], "year")) \
                and not any(isinstance(x, ast.Attribute) and x.attr == tbl_attr for x in ast.walk(s.value)):
            continue
        if aliases and isinstance(s, ast.Assign) and len(s.targets) == 1 and isinstance(s.targets[0], ast.Name) and s.targets[0].id == "aliases" \
                and not seen_aliases and final == "d1":
            seen_aliases = True      # the literal itself: radii.py (-> cov_aliases); evaluated on the table as loaded so far (d1)
            continue
        if aliases and seen_aliases and final == "d1" and isinstance(s, ast.For):
            if not (isinstance(s.target, ast.Name) and isinstance(s.iter, ast.Name) and s.iter.id == "aliases" and not s.orelse and len(s.body) == 2):
                _fail(relpath, "the alias loop is not `for alias in aliases: <unpack>; <one store>`", s)
            un = s.body[0]
            if not (isinstance(un, ast.Assign) and len(un.targets) == 1 and isinstance(un.targets[0], ast.Tuple) and len(un.targets[0].elts) == 4
                    and all(isinstance(e, ast.Name) for e in un.targets[0].elts) and isinstance(un.value, ast.Name) and un.value.id == s.target.id
                    and len({e.id for e in un.targets[0].elts}) == 4):
                _fail(relpath, "the alias loop does not start with `a, b, c, d = alias`", un)
            names = {e.id: i for i, e in enumerate(un.targets[0].elts)}

            def alias_slot(n, want):
                cap = False
                if isinstance(n, ast.Call) and isinstance(n.func, ast.Attribute) and n.func.attr == "capitalize" and not n.args and not n.keywords:
                    cap, n = True, n.func.value
                if not (isinstance(n, ast.Name) and n.id in names):
                    _fail(relpath, f"unsupported expression in the alias store: {ast.dump(n)[:100]}", n)
                i = names[n.id]
                if (want == "data") != (i == 2) or (cap and want != "str"):
                    _fail(relpath, f"alias component {i} used as {want}", n)
                if want == "data":
                    return "(opt_entry_data (tbl_get d1 a2))"       # aliases[...][2] is self.<tbl>[a2].data, read before the loop
                return f"(capitalize a{i})" if cap else f"a{i}"

            k, l, u, d, c = _store(relpath, s.body[1], tbl_attr, alias_slot)
            lines.append(f"  let d2 := fold_left (fun d (a : string * string * string * string) => dict_set d (let '(a0, a1, a2, a3) := a in {k}) "
                         f"(let '(a0, a1, a2, a3) := a in Build_entry {l} {u} {d} {c})) cov_aliases d1 in")
            final = "d2"
            continue
        _fail(relpath, "unsupported statement after the table load", s)
    if aliases and final != "d2":
        _fail(relpath, "no alias loop found after `aliases = [...]`")
    return "\n".join(lines + [f"  {final}"])


def generate(repo):
    cov = _init(repo, "qcelemental/covalent_radii.py", "CovalentRadii", "cr", "alvarez_2008_covalent_radii", "covalent_radii", 3,
                "cov_units", "cov_rows", True)
    vdw = _init(repo, "qcelemental/vanderwaals_radii.py", "VanderWaalsRadii", "vdwr", "mantina_2009_vanderwaals_radii", "vanderwaals_radii", 2,
                "vdw_units", "vdw_rows", False)
    out = ["(* GENERATED from CovalentRadii.__init__ (qcelemental/covalent_radii.py) and VanderWaalsRadii.__init__ (vanderwaals_radii.py) by",
           "   harness/translate/radiiinit.py — do not edit *)",
           "From Coq Require Import ZArith List String.",
           "Require Import QV.Common.PyAscii QV.Gen.Radii QV.Model.PeriodicTable QV.Model.Radii QV.Model.RadiiInit.",
           "Import ListNotations.", "",
           "(* self.cr after __init__: rows loaded by item assignment, then the generic-element aliases (data read from the loaded rows) *)",
           f"Definition g_cov_init : list (string * entry) :=\n{cov}.", "",
           "(* self.vdwr after __init__ *)",
           f"Definition g_vdw_init : list (string * entry) :=\n{vdw}.", ""]
    coqrun.write_if_changed(os.path.join(coqrun.COQ, "Gen", "RadiiInit.v"), "\n".join(out) + "\n")
