"""Translator: qcelemental/molutil/align.py::kabsch_align  ->  coq/Gen/KabschAlign.v (property C12).

The straight-line numpy arithmetic of kabsch_align (centroids, centring, weighting, the call of
kabsch_quaternion, the shift TT, the rotated geometry and the residual) is turned into a Gallina let-chain
`gen_kabsch_align` over the combinators of Model/Kabsch.v.  Variables carry a kind (geometry (n,3) / 3-vector /
3x3 matrix), and `X.dot(Y)` is translated according to the kinds of its operands (geometry.matrix -> row-wise
`vmat`, matrix.vector -> `mvec`, vector.matrix -> `vmat`), so a swapped operand or a transposed product in the
source yields a different term and breaks the proof `gen_kabsch_align = kabsch_align` (Proofs/KabschGen.v).
Fail-closed: any statement or expression shape that is not expected raises TranslateError."""
import ast
import os

from .. import coqrun
from ..core import TranslateError

EXPECTED_WEIGHT = (
    "if weight is None:\n    w = np.ones(rgeom.shape[0])\nelif isinstance(weight, (list, np.ndarray)):\n    w = np.asarray(weight)\n"
    "else:\n    raise ValidationError(f\"Unrecognized argument type {type(weight)} for kwarg 'weight'.\")"
)
EXPECTED_SHORTCUT = "return (0.0, np.identity(3), np.zeros(3))"


def _is(node, text):
    return ast.unparse(node) == text


class Tr:
    def __init__(self):
        self.env = {"rgeom": ("geom", "rgeom"), "cgeom": ("geom", "cgeom")}
        self.count = {}
        self.lets = []

    def fresh(self, name):
        k = self.count.get(name, 0)
        self.count[name] = k + 1
        return f"{name}_{k}"

    def bind(self, name, kind, term):
        v = self.fresh(name)
        self.lets.append((v, term))
        self.env[name] = (kind, v)

    def expr(self, n):
        if isinstance(n, ast.Name):
            if n.id not in self.env:
                raise TranslateError(f"kabsch_align: unknown variable {n.id}")
            return self.env[n.id]
        # X.sum(axis=0) / N
        if isinstance(n, ast.BinOp) and isinstance(n.op, ast.Div):
            l, r = n.left, n.right
            if (isinstance(l, ast.Call) and isinstance(l.func, ast.Attribute) and l.func.attr == "sum" and not l.args
                    and len(l.keywords) == 1 and l.keywords[0].arg == "axis" and _is(l.keywords[0].value, "0")
                    and isinstance(r, ast.Name)):
                kx, x = self.expr(l.func.value)
                kn, nn = self.expr(r)
                if kx == "geom" and kn == "nat":
                    return "vec", f"(centroid {nn} {x})"
            raise TranslateError("kabsch_align: unexpected division " + ast.unparse(n))
        if isinstance(n, ast.BinOp) and isinstance(n.op, ast.Sub):
            (ka, a), (kb, b) = self.expr(n.left), self.expr(n.right)
            if ka == kb == "vec":
                return "vec", f"(vsub {a} {b})"
            if ka == kb == "geom":
                return "geom", f"(lsub {a} {b})"
            raise TranslateError("kabsch_align: subtraction of unlike shapes " + ast.unparse(n))
        if isinstance(n, ast.Call):
            f = n.func
            if _is(f, "np.subtract") and len(n.args) == 2 and not n.keywords:
                (ka, a), (kb, b) = self.expr(n.args[0]), self.expr(n.args[1])
                if ka == "geom" and kb == "vec":
                    return "geom", f"(map (fun v => vsub v {b}) {a})"
                raise TranslateError("kabsch_align: np.subtract of unexpected shapes " + ast.unparse(n))
            if _is(f, "kabsch_quaternion") and len(n.args) == 2 and not n.keywords:
                ops = []
                for a in n.args:
                    if not (isinstance(a, ast.Attribute) and a.attr == "T"):
                        raise TranslateError("kabsch_align: kabsch_quaternion must be called on transposed geometries")
                    k, t = self.expr(a.value)
                    if k != "geom":
                        raise TranslateError("kabsch_align: kabsch_quaternion argument is not a geometry")
                    ops.append(t)
                return "mat", f"(kabsch_quaternion eigtop {ops[0]} {ops[1]})"
            if isinstance(f, ast.Attribute) and f.attr == "dot" and len(n.args) == 1 and not n.keywords:
                (ka, a), (kb, b) = self.expr(f.value), self.expr(n.args[0])
                if (ka, kb) == ("geom", "mat"):
                    return "geom", f"(map (fun v => vmat v {b}) {a})"
                if (ka, kb) == ("mat", "vec"):
                    return "vec", f"(mvec {a} {b})"
                if (ka, kb) == ("vec", "mat"):
                    return "vec", f"(vmat {a} {b})"
                if (ka, kb) == ("mat", "mat"):
                    return "mat", f"(mmul {a} {b})"
                raise TranslateError("kabsch_align: .dot of unexpected shapes " + ast.unparse(n))
        raise TranslateError("kabsch_align: unexpected expression " + ast.unparse(n))


def generate(repo):
    path = os.path.join(repo, "qcelemental", "molutil", "align.py")
    with open(path) as fh:
        tree = ast.parse(fh.read())
    fns = [n for n in tree.body if isinstance(n, ast.FunctionDef) and n.name == "kabsch_align"]
    if len(fns) != 1:
        raise TranslateError("molutil/align.py: expected exactly one function kabsch_align")
    fn = fns[0]
    if [a.arg for a in fn.args.args] != ["rgeom", "cgeom", "weight"]:
        raise TranslateError("kabsch_align: signature is not (rgeom, cgeom, weight)")
    body = list(fn.body)
    if body and isinstance(body[0], ast.Expr) and isinstance(body[0].value, ast.Constant) and isinstance(body[0].value.value, str):
        body = body[1:]
    if not body or ast.unparse(body[0]) != EXPECTED_WEIGHT:
        raise TranslateError("kabsch_align: the weight-handling block differs from the expected one: " + (ast.unparse(body[0]) if body else ""))
    tr = Tr()
    shortcut_at = None
    result = None
    for st in body[1:]:
        if result is not None:
            raise TranslateError("kabsch_align: statements after the return")
        if isinstance(st, ast.Assign) and len(st.targets) == 1 and isinstance(st.targets[0], ast.Name):
            name = st.targets[0].id
            if _is(st.value, "rgeom.shape[0]"):
                tr.bind(name, "nat", "(length rgeom)")
                continue
            if name == "rmsd":
                v = st.value
                ok = (isinstance(v, ast.BinOp) and isinstance(v.op, ast.Div) and _is(v.right, "np.sqrt(np.sum(w))")
                      and isinstance(v.left, ast.BinOp) and isinstance(v.left.op, ast.Mult)
                      and _is(v.left.right, "constants.bohr2angstroms")
                      and isinstance(v.left.left, ast.Call) and _is(v.left.left.func, "np.linalg.norm")
                      and len(v.left.left.args) == 1 and not v.left.left.keywords)
                if not ok:
                    raise TranslateError("kabsch_align: rmsd is not norm(...) * constants.bohr2angstroms / np.sqrt(np.sum(w)): " + ast.unparse(v))
                k, t = tr.expr(v.left.left.args[0])
                if k != "geom":
                    raise TranslateError("kabsch_align: norm of a non-geometry")
                tr.bind("ssd", "scalar", f"(sumsq {t})")
                tr.env["rmsd"] = tr.env["ssd"]
                continue
            k, t = tr.expr(st.value)
            tr.bind(name, k, t)
            continue
        if isinstance(st, ast.AugAssign) and isinstance(st.op, ast.Mult) and isinstance(st.target, ast.Name) \
                and _is(st.value, "np.sqrt(w[:, None])"):
            k, t = tr.expr(st.target)
            if k != "geom":
                raise TranslateError("kabsch_align: weighting of a non-geometry")
            tr.bind(st.target.id, "geom", f"(scale_rows sw {t})")
            continue
        if isinstance(st, ast.If) and not st.orelse and len(st.body) == 1 and ast.unparse(st.body[0]) == EXPECTED_SHORTCUT \
                and isinstance(st.test, ast.Call) and _is(st.test.func, "np.allclose") and len(st.test.args) == 2 and not st.test.keywords:
            (ka, a), (kb, b) = tr.expr(st.test.args[0]), tr.expr(st.test.args[1])
            if not (ka == kb == "geom") or shortcut_at is not None:
                raise TranslateError("kabsch_align: unexpected allclose short-cut")
            shortcut_at = (len(tr.lets), a, b)
            continue
        if isinstance(st, ast.Return) and isinstance(st.value, ast.Tuple) and len(st.value.elts) == 3:
            parts = [tr.expr(e) for e in st.value.elts]
            if [p[0] for p in parts] != ["scalar", "mat", "vec"]:
                raise TranslateError("kabsch_align: return value is not (rmsd, rotation, shift)")
            result = "{| k_ssd := %s; k_rot := %s; k_shift := %s |}" % tuple(p[1] for p in parts)
            continue
        raise TranslateError("kabsch_align: unexpected statement " + ast.unparse(st))
    if result is None or shortcut_at is None:
        raise TranslateError("kabsch_align: missing return or allclose short-cut")
    pos, a, b = shortcut_at
    pre = "".join(f"  let {v} := {t} in\n" for v, t in tr.lets[:pos])
    post = "".join(f"    let {v} := {t} in\n" for v, t in tr.lets[pos:])
    text = (
        "(* GENERATED by harness/translate/kalign.py from qcelemental/molutil/align.py::kabsch_align - do not edit.\n"
        "   sw = np.sqrt(w) (the square roots of the weights; all 1 for weight=None). *)\n"
        "From Coq Require Import List.\n"
        "Require Import QV.Common.AlignAlg QV.Common.AlignAlgQuat QV.Gen.Quat QV.Model.Kabsch.\n"
        "Section Gen.\nContext {K : Type} {KO : Ops K} {KD : DivOps K}.\nLocal Open Scope K_scope.\n"
        "Definition gen_kabsch_align (eigtop : mat4 K -> quat K) (atol rtol : K) (sw : list K)\n"
        "    (rgeom cgeom : list (vec3 K)) : kabsch_out :=\n"
        + pre +
        f"  if allclose atol rtol {a} {b} then {{| k_ssd := 0; k_rot := mid; k_shift := v0 |}}\n  else\n"
        + post + "    " + result + ".\nEnd Gen.\n")
    coqrun.write_if_changed(os.path.join(coqrun.COQ, "Gen", "KabschAlign.v"), text)
    return text
