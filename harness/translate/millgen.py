"""Translator: qcelemental/models/align.py::AlignmentMill.align_*  ->  coq/Gen/MillGen.v (property C13).

The bodies of align_coordinates, align_atoms, align_vector, align_gradient, align_hessian and the per-atom
block of align_vector_gradient are short straight-line numpy code; the atom loop of align_vector_gradient (index read,
three slice reads, rotation, three slice stores into the zero-initialised result) is emitted over the loop / store
combinators of Model/MillLoop.v (gen_align_vector_gradient).  Each is turned into a Gallina let-chain over
the array combinators of Model/MillOps.v / Model/Mill.v.  Every variable carries a kind ((n,3) array, 3-vector,
3x3 matrix, blocked (n,n,3,3) array, ...) and `X.dot(Y)` / `np.dot(X, Y)` / `X[...]` are translated according
to the kinds of their operands, so a swapped operand, a dropped transpose, a mirror flip applied at another
place or to another axis, a scatter instead of a gather, or a changed order of the steps yields a different
term and breaks the proofs `gen_align_* = align_*` of Proofs/MillGen.v (stated for all inputs).
Fail-closed: any statement or expression shape that is not expected raises TranslateError."""
import ast
import os

from .. import coqrun
from ..core import TranslateError

OUTCOME = {"ogeom", "oatoms", "oblocks", "ohess"}


def _is(node, text):
    return ast.unparse(node) == text


def _neg_one(node):
    return ast.unparse(node) in ("-1.0", "-1")


class Tr:
    """translation of one method body"""

    def __init__(self, meth, env):
        self.meth = meth
        self.env = dict(env)          # python name -> (kind, gallina term)
        self.count = {}

    def err(self, msg, node=None):
        raise TranslateError("AlignmentMill.%s: %s%s" % (self.meth, msg, (": " + ast.unparse(node)) if node is not None else ""))

    def fresh(self, name):
        k = self.count.get(name, 0)
        self.count[name] = k + 1
        return "%s_%d" % (name, k)

    # ---- expressions ----
    def expr(self, n):
        if isinstance(n, ast.Name):
            if n.id not in self.env:
                self.err("unknown variable " + n.id)
            return self.env[n.id]
        if isinstance(n, ast.Attribute) and isinstance(n.value, ast.Name) and n.value.id == "self":
            table = {"rotation": ("mat", "(rot m)"), "shift": ("vec", "(shift m)"), "atommap": ("idx", "(amap m)"),
                     "mirror": ("bool", "(mirror m)")}
            if n.attr in table:
                return table[n.attr]
            self.err("unexpected attribute of self", n)
        if isinstance(n, ast.Attribute) and n.attr == "T":
            k, t = self.expr(n.value)
            if k != "mat":
                self.err("transpose of a non-matrix", n)
            return "mat", "(mtrans %s)" % t
        if isinstance(n, ast.BinOp) and isinstance(n.op, (ast.Add, ast.Sub)):
            (ka, a), (kb, b) = self.expr(n.left), self.expr(n.right)
            if (ka, kb) == ("geom", "vec"):
                return "geom", "(%s %s %s)" % ("np_add_gv" if isinstance(n.op, ast.Add) else "np_sub_gv", a, b)
            self.err("addition/subtraction of unexpected shapes", n)
        if isinstance(n, ast.Call):
            f = n.func
            if _is(f, "np.copy") and len(n.args) == 1 and not n.keywords:
                return self.expr(n.args[0])
            if _is(f, "np.zeros_like") and len(n.args) == 1 and not n.keywords:
                k, t = self.expr(n.args[0])
                if k != "blocks":
                    self.err("zeros_like of a non-blocked array", n)
                return "zeros", t
            if _is(f, "blockwise_expand"):
                if not (len(n.args) == 3 and not n.keywords and _is(n.args[1], "(3, 3)") and _is(n.args[2], "False")):
                    self.err("blockwise_expand is not called as (hess, (3, 3), False)", n)
                k, t = self.expr(n.args[0])
                if k != "hess":
                    self.err("blockwise_expand of a non-Hessian", n)
                return "blocks", "(expand n n %s)" % t
            if _is(f, "blockwise_contract") and len(n.args) == 1 and not n.keywords:
                k, t = self.expr(n.args[0])
                if k != "oblocks":
                    self.err("blockwise_contract of an array that was not selected by np.ix_", n)
                return "ohess", "(obind %s (fun G => Ok (contract (length (amap m)) (length (amap m)) G)))" % t
            if _is(f, "np.dot") and len(n.args) == 2 and not n.keywords:
                return self.dot(n, self.expr(n.args[0]), self.expr(n.args[1]))
            if isinstance(f, ast.Attribute) and f.attr == "dot" and len(n.args) == 1 and not n.keywords:
                return self.dot(n, self.expr(f.value), self.expr(n.args[0]))
            self.err("unexpected call", n)
        if isinstance(n, ast.Subscript):
            k, t = self.expr(n.value)
            sl = n.slice
            if k == "geom" and (_is(sl, "self.atommap") or _is(sl, "(self.atommap, :)")):
                return "ogeom", "(gather %s (amap m))" % t
            if k == "atoms" and _is(sl, "self.atommap"):
                return "oatoms", "(gather %s (amap m))" % t
            if k == "blocks" and _is(sl, "np.ix_(self.atommap, self.atommap)"):
                return "oblocks", "(ix_blocks n (amap m) %s)" % t
            if k == "blocks" and isinstance(sl, ast.Tuple) and len(sl.elts) == 2 and all(isinstance(e, ast.Name) for e in sl.elts):
                (k1, i), (k2, j) = self.expr(sl.elts[0]), self.expr(sl.elts[1])
                if k1 == k2 == "loopidx":
                    return "mat", "(blk n %s %s %s)" % (t, i, j)
            if k == "shape_blocks" and _is(sl, "0"):
                return "nat", "n"
            self.err("unexpected subscript", n)
        if isinstance(n, ast.Attribute) and n.attr == "shape":
            k, t = self.expr(n.value)
            if k == "blocks":
                return "shape_blocks", t
            self.err("shape of an unexpected array", n)
        self.err("unexpected expression", n)

    def dot(self, n, left, right):
        (ka, a), (kb, b) = left, right
        if (ka, kb) == ("geom", "mat"):
            return "geom", "(np_dot_gm %s %s)" % (a, b)
        if (ka, kb) == ("vec", "mat"):
            return "vec", "(vmat %s %s)" % (a, b)
        if (ka, kb) == ("mat", "vec"):
            return "vec", "(mvec %s %s)" % (a, b)
        if (ka, kb) == ("mat", "mat"):
            return "mat", "(mmul %s %s)" % (a, b)
        self.err("dot of unexpected shapes (%s, %s)" % (ka, kb), n)

    # ---- statements ----
    def block(self, stmts):
        """translate a statement list; returns (list of (var, term) lets, returned (kind, term) or None)"""
        lets = []
        ret = None
        for st in stmts:
            if ret is not None:
                self.err("statement after return", st)
            if isinstance(st, ast.Expr) and isinstance(st.value, ast.Constant) and isinstance(st.value.value, str):
                continue                                          # docstring
            if isinstance(st, ast.Return) and st.value is not None:
                ret = self.expr(st.value)
                continue
            if isinstance(st, ast.Assign) and len(st.targets) == 1 and isinstance(st.targets[0], ast.Name):
                k, t = self.expr(st.value)
                if k in ("shape_blocks", "loopidx", "bool", "idx"):
                    self.err("unexpected assignment", st)
                if k == "nat":
                    self.env[st.targets[0].id] = (k, t)
                    continue
                v = self.fresh(st.targets[0].id)
                if k != "zeros":
                    lets.append((v, t))
                    self.env[st.targets[0].id] = (k, v)
                else:
                    self.env[st.targets[0].id] = (k, t)
                continue
            if isinstance(st, ast.AugAssign) and isinstance(st.op, ast.Mult) and _neg_one(st.value) and isinstance(st.target, ast.Subscript) \
                    and isinstance(st.target.value, ast.Name):
                name = st.target.value.id
                k, t = self.expr(st.target.value)
                sl = ast.unparse(st.target.slice)
                if k == "geom" and sl == "(:, 1)":
                    term = "(col1_neg %s)" % t
                elif k == "blocks" and sl == "(:, :, 1, :)":
                    term = "(neg_axis2 %s)" % t
                elif k == "blocks" and sl == "(:, :, :, 1)":
                    term = "(neg_axis3 %s)" % t
                else:
                    self.err("unexpected in-place scaling", st)
                v = self.fresh(name)
                lets.append((v, term))
                self.env[name] = (k, v)
                continue
            if isinstance(st, ast.If):
                kt, tt = self.expr(st.test)
                if kt != "bool":
                    self.err("condition is not a flag", st.test)
                base = dict(self.env)
                lets_a, ra = self.block(st.body)
                env_a = self.env
                self.env = dict(base)
                lets_b, rb = self.block(st.orelse)
                env_b = self.env
                if ra is not None or rb is not None:
                    self.err("return inside a branch", st)
                changed = sorted({k for k in set(env_a) | set(env_b) if env_a.get(k) != base.get(k) or env_b.get(k) != base.get(k)})
                if len(changed) != 1 or changed[0] not in base:
                    self.err("a branch must update exactly one existing array", st)
                name = changed[0]
                if env_a[name][0] != env_b[name][0]:
                    self.err("branches give the array different shapes", st)
                wrap = lambda ls, fin: "".join("let %s := %s in " % lt for lt in ls) + fin
                v = self.fresh(name)
                lets.append((v, "(if %s then %s else %s)" % (tt, wrap(lets_a, env_a[name][1]), wrap(lets_b, env_b[name][1]))))
                self.env = dict(base)
                self.env[name] = (env_a[name][0], v)
                continue
            if isinstance(st, ast.For):
                # for iat in range(nat): for jat in range(nat): OUT[iat, jat] = EXPR
                def rng(f):
                    return (isinstance(f.target, ast.Name) and isinstance(f.iter, ast.Call) and _is(f.iter.func, "range")
                            and len(f.iter.args) == 1 and not f.iter.keywords and not f.orelse
                            and self.expr(f.iter.args[0]) == ("nat", "n"))
                if not (rng(st) and len(st.body) == 1 and isinstance(st.body[0], ast.For) and rng(st.body[0]) and len(st.body[0].body) == 1):
                    self.err("unexpected loop", st)
                i, j = st.target.id, st.body[0].target.id
                asg = st.body[0].body[0]
                if not (isinstance(asg, ast.Assign) and len(asg.targets) == 1 and isinstance(asg.targets[0], ast.Subscript)
                        and isinstance(asg.targets[0].value, ast.Name) and ast.unparse(asg.targets[0].slice) == "(%s, %s)" % (i, j)) or i == j:
                    self.err("unexpected loop body", st)
                out = asg.targets[0].value.id
                if self.env.get(out, (None,))[0] != "zeros":
                    self.err("the loop does not fill a fresh zeros_like array", st)
                saved = dict(self.env)
                self.env[i] = ("loopidx", i)
                self.env[j] = ("loopidx", j)
                k, t = self.expr(asg.value)
                self.env = saved
                if k != "mat":
                    self.err("a block is assigned something that is not a 3x3 matrix", asg)
                v = self.fresh(out)
                lets.append((v, "(fill_blocks n (fun %s %s => %s))" % (i, j, t)))
                self.env[out] = ("blocks", v)
                continue
            self.err("unexpected statement", st)
        return lets, ret


def _method(cls, name, args, kwonly=()):
    fns = [n for n in cls.body if isinstance(n, ast.FunctionDef) and n.name == name]
    if len(fns) != 1:
        raise TranslateError("AlignmentMill: expected exactly one method " + name)
    fn = fns[0]
    if [a.arg for a in fn.args.args] != ["self"] + list(args) or [a.arg for a in fn.args.kwonlyargs] != list(kwonly) \
            or fn.args.vararg or fn.args.kwarg or fn.args.defaults or fn.decorator_list:
        raise TranslateError("AlignmentMill.%s: unexpected signature" % name)
    if kwonly and [ast.unparse(d) for d in fn.args.kw_defaults] != ["False"]:
        raise TranslateError("AlignmentMill.%s: `reverse` does not default to False" % name)
    return fn


def _chain(lets, fin, indent="  "):
    return "".join("%slet %s := %s in\n" % (indent, v, t) for v, t in lets) + indent + fin


VG_EXPECTED_HEAD = [
    "mu_x, mu_y, mu_z = mu_derivatives",
    "nat = mu_x.shape[0] // 3",
    "al_mu = np.zeros((3, 3 * nat))",
    "Datom = np.zeros((3, 3))",
]


def _vector_gradient(fn):
    """align_vector_gradient: the loop over atoms is checked for its shape; the per-atom 3x3 block
    (rows taken from mu_x/mu_y/mu_z at atommap[at], then the two-sided rotation) is translated."""
    err = lambda msg, node=None: (_ for _ in ()).throw(TranslateError(
        "AlignmentMill.align_vector_gradient: %s%s" % (msg, (": " + ast.unparse(node)) if node is not None else "")))
    body = [s for s in fn.body if not (isinstance(s, ast.Expr) and isinstance(s.value, ast.Constant))]
    head = [ast.unparse(s) for s in body[:4]]
    if head != VG_EXPECTED_HEAD or len(body) != 6 or not _is(body[5], "return al_mu"):
        err("statements around the atom loop differ from the expected ones")
    loop = body[4]
    if not (isinstance(loop, ast.For) and _is(loop.target, "at") and _is(loop.iter, "range(nat)") and not loop.orelse):
        err("unexpected atom loop", loop)
    st = list(loop.body)
    if not st or not _is(st[0], "Datom.fill(0)"):
        err("Datom is not cleared at the start of the loop body")
    rows, rot, outs = {}, None, {}
    sl = "3 * self.atommap[at]:3 * self.atommap[at] + 3"
    for s in st[1:]:
        if not (isinstance(s, ast.Assign) and len(s.targets) == 1 and isinstance(s.targets[0], ast.Subscript)):
            err("unexpected statement in the atom loop", s)
        tg = s.targets[0]
        tv, ts = ast.unparse(tg.value), ast.unparse(tg)
        if tv == "Datom" and ts in ("Datom[0, :]", "Datom[1, :]", "Datom[2, :]") and rot is None:
            r = int(ts[6])
            v = s.value
            if not (isinstance(v, ast.Subscript) and isinstance(v.value, ast.Name) and v.value.id in ("mu_x", "mu_y", "mu_z")
                    and ast.unparse(v.slice) == sl) or r in rows or outs:
                err("unexpected Datom row assignment", s)
            rows[r] = {"mu_x": "mx", "mu_y": "my", "mu_z": "mz"}[v.value.id]
        elif tv == "Datom" and ts == "Datom[:]" and rot is None and not outs:
            if sorted(rows) != [0, 1, 2]:
                err("Datom rotated before all three rows are filled", s)
            tr = Tr("align_vector_gradient", {"Datom": ("mat", "D")})
            k, t = tr.expr(s.value)
            if k != "mat":
                err("Datom[:] is not assigned a 3x3 matrix", s)
            rot = t
        elif tv == "al_mu" and rot is not None:
            c = None
            for cc in range(3):
                if ts == "al_mu[%d, 3 * at:3 * at + 3]" % cc:
                    c = cc
            if c is None or c in outs or ast.unparse(s.value) not in ("Datom[0, :]", "Datom[1, :]", "Datom[2, :]"):
                err("unexpected al_mu assignment", s)
            outs[c] = int(ast.unparse(s.value)[6])
        else:
            err("unexpected statement in the atom loop", s)
    if rot is None or sorted(outs) != [0, 1, 2]:
        err("the atom loop does not rotate Datom and store its three rows")
    if [outs[c] for c in range(3)] != [0, 1, 2]:
        err("al_mu row c is not filled from Datom row c")
    datom = ("  let '(mx, my, mz) := mu in\n"
             "  let D := (slice3 %s p, slice3 %s p, slice3 %s p) in\n  %s" % (rows[0], rows[1], rows[2], rot))
    # the whole method, statement by statement, over the loop / slice-store combinators of Model/MillLoop.v:
    #   mu_x, mu_y, mu_z = mu_derivatives ; nat = mu_x.shape[0] // 3 ; al_mu = np.zeros((3, 3 * nat))
    #   (Datom = np.zeros((3, 3)) and Datom.fill(0): every row of Datom is assigned before it is read - checked above)
    #   for at in range(nat): the row reads in statement order (self.atommap[at]: IndexError; a short slice: ValueError),
    #   the two-sided rotation, the three slice stores into al_mu ; return al_mu
    reads = "".join("    obind (slice3o %s p) (fun d%d =>\n" % (rows[r], r) for r in rows)          # insertion order = statement order
    stores = ", ".join("store3 a%d at' (mrow D %d)" % (c, outs[c]) for c in range(3))
    loop = ("  let '(mx, my, mz) := mu in\n"
            "  let nat_ := (Nat.div (length mx) 3%%nat) in\n"
            "  let al_mu := (zeros (3 * nat_), zeros (3 * nat_), zeros (3 * nat_)) in\n"
            "  for_range nat_ (fun at' al_mu =>\n"
            "    obind (amap_at m at') (fun p =>\n"
            "%s"
            "    let D := (d0, d1, d2) in\n"
            "    let D := %s in\n"
            "    let '(a0, a1, a2) := al_mu in\n"
            "    Ok (%s)))))) al_mu" % (reads, rot, stores))
    return datom, loop


def generate(repo):
    path = os.path.join(repo, "qcelemental", "models", "align.py")
    with open(path) as fh:
        tree = ast.parse(fh.read())
    cls = [n for n in tree.body if isinstance(n, ast.ClassDef) and n.name == "AlignmentMill"]
    if len(cls) != 1:
        raise TranslateError("models/align.py: expected exactly one class AlignmentMill")
    cls = cls[0]
    defs = []

    def simple(name, args, env, want, header, kwonly=()):
        fn = _method(cls, name, args, kwonly)
        tr = Tr(name, env)
        lets, ret = tr.block(fn.body)
        if ret is None or ret[0] != want:
            raise TranslateError("AlignmentMill.%s: does not return a value of the expected shape (%s)" % (name, ret and ret[0]))
        defs.append(header + " :=\n" + _chain(lets, ret[1]) + ".")

    simple("align_coordinates", ["geom"], {"geom": ("geom", "geom"), "reverse": ("bool", "reverse")}, "ogeom",
           "Definition gen_align_coordinates (m : mill K) (reverse : bool) (geom : list (vec3 K)) : outcome (list (vec3 K))",
           kwonly=("reverse",))
    simple("align_atoms", ["ats"], {"ats": ("atoms", "ats")}, "oatoms",
           "Definition gen_align_atoms {A : Type} (m : mill K) (ats : list A) : outcome (list A)")
    simple("align_vector", ["vec"], {"vec": ("vec", "vec")}, "vec",
           "Definition gen_align_vector (m : mill K) (vec : vec3 K) : vec3 K")
    simple("align_gradient", ["grad"], {"grad": ("geom", "grad")}, "ogeom",
           "Definition gen_align_gradient (m : mill K) (grad : list (vec3 K)) : outcome (list (vec3 K))")
    simple("align_hessian", ["hess"], {"hess": ("hess", "hess")}, "ohess",
           "Definition gen_align_hessian (m : mill K) (n : nat) (hess : list K) : outcome (list K)")
    vg = _vector_gradient(_method(cls, "align_vector_gradient", ["mu_derivatives"]))
    defs.append("Definition gen_datom (m : mill K) (mu : list K * list K * list K) (p : nat) : mat3 K :=\n" + vg[0] + ".")
    defs.append("Definition gen_align_vector_gradient (m : mill K) (mu : list K * list K * list K) : outcome (list K * list K * list K) :=\n"
                + vg[1] + ".")
    text = (
        "(* GENERATED by harness/translate/millgen.py from qcelemental/models/align.py::AlignmentMill - do not edit.\n"
        "   n is the number of atoms of the Hessian (hess.shape[0] // 3 = blocked_hess.shape[0]). *)\n"
        "From Coq Require Import List.\n"
        "Require Import QV.Common.Outcome QV.Common.AlignAlg QV.Model.Mill QV.Model.MillOps QV.Model.MillLoop.\n"
        "Section Gen.\nContext {K : Type} {KO : Ops K}.\nLocal Open Scope K_scope.\n"
        + "\n".join(defs) + "\nEnd Gen.\n")
    coqrun.write_if_changed(os.path.join(coqrun.COQ, "Gen", "MillGen.v"), text)
    return text
