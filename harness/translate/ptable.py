"""Translator: qcelemental/data/nist_2011_atomic_weights.py  ->  coq/Gen/PTable.v (shared by C01, C04, C06, C15, C17).
Fail-closed: the data module must be a single dict literal assignment with the seven expected arrays."""
import ast
import os
from decimal import Decimal

from .. import coqrun
from ..core import TranslateError
from ..coqrun import cz, cstr, clist


def dec_pair(text):
    """'1.00782503223' -> (coef, exp) with value = coef * 10^exp, exactly as Decimal(text) holds it."""
    try:
        d = Decimal(text)
    except Exception:
        raise TranslateError(f"not a decimal literal: {text!r}")
    sign, digits, exp = d.as_tuple()
    if not isinstance(exp, int):
        raise TranslateError(f"non-finite decimal: {text!r}")
    coef = int("".join(map(str, digits)) or "0")
    return (-coef if sign else coef, exp)


def load_table(repo):
    path = os.path.join(repo, "qcelemental", "data", "nist_2011_atomic_weights.py")
    with open(path) as fh:
        tree = ast.parse(fh.read())
    assigns = [n for n in tree.body if isinstance(n, ast.Assign)]
    if len(assigns) != 1 or not isinstance(assigns[0].targets[0], ast.Name) or \
            assigns[0].targets[0].id != "nist_2011_atomic_weights":
        raise TranslateError("nist_2011_atomic_weights.py: expected exactly one assignment `nist_2011_atomic_weights = {...}`")
    others = [n for n in tree.body if not isinstance(n, (ast.Assign, ast.Expr))]
    if others:
        raise TranslateError("nist_2011_atomic_weights.py: unexpected statements " + str([type(n).__name__ for n in others]))
    try:
        d = ast.literal_eval(assigns[0].value)
    except Exception as e:
        raise TranslateError(f"nist_2011_atomic_weights.py: not a literal dict ({e})")
    for k in ["Z", "E", "name", "_EE", "EA", "A", "mass"]:
        if k not in d or not isinstance(d[k], list):
            raise TranslateError(f"nist_2011_atomic_weights.py: missing array {k}")
    if not (len(d["Z"]) == len(d["E"]) == len(d["name"])):
        raise TranslateError("element arrays differ in length")
    if not (len(d["_EE"]) == len(d["EA"]) == len(d["A"]) == len(d["mass"])):
        raise TranslateError("isotope arrays differ in length")
    for s in d["E"] + d["name"] + d["_EE"] + d["EA"]:
        if not (isinstance(s, str) and s.isascii()):
            raise TranslateError(f"non-ASCII or non-string label {s!r}")
    for z in d["Z"] + d["A"]:
        if not isinstance(z, int) or isinstance(z, bool):
            raise TranslateError(f"non-integer Z/A {z!r}")
    for m in d["mass"]:
        if not isinstance(m, str):
            raise TranslateError(f"mass is not a decimal string: {m!r}")
    return d


def generate(repo):
    d = load_table(repo)
    masses = [dec_pair(m) for m in d["mass"]]
    out = ["(* GENERATED from qcelemental/data/nist_2011_atomic_weights.py by harness/translate/ptable.py — do not edit *)",
           "From Coq Require Import ZArith List String.", "Import ListNotations.", "Open Scope string_scope.", ""]
    out.append("Definition pt_Z : list Z := " + clist(d["Z"], cz) + ".")
    out.append("Definition pt_E : list string := " + clist(d["E"], cstr) + ".")
    out.append("Definition pt_name : list string := " + clist(d["name"], cstr) + ".")
    out.append("Definition pt_EE : list string := " + clist(d["_EE"], cstr) + ".")
    out.append("Definition pt_EA : list string := " + clist(d["EA"], cstr) + ".")
    out.append("Definition pt_A : list Z := " + clist(d["A"], cz) + ".")
    out.append("(* masses as exact decimals (coefficient, exponent): value = coef * 10^exp *)")
    out.append("Definition pt_mass : list (Z * Z) := " + clist(masses, lambda p: f"({cz(p[0])}, {cz(p[1])})") + ".")
    out.append("(* the same masses as the decimal strings of the source *)")
    out.append("Definition pt_mass_str : list string := " + clist(d["mass"], cstr) + ".")
    coqrun.write_if_changed(os.path.join(coqrun.COQ, "Gen", "PTable.v"), "\n".join(out) + "\n")
    return d
