"""Translator (C19): the glue of qcelemental/testing.py and ProtoModel.compare  ->  coq/Gen/CompareGlue.v

What is read from the source (Python ast) and turned into Gallina, so that the theorems of Props/C19.v are about what the
code says NOW (Proofs/CompareGlue.v proves "generated = hand model" for all inputs):
  * the keyword defaults of compare_values / compare / compare_recursive / compare_molrecs / _handle_return
    (gen_values_defaults, gen_rec_defaults, ...: binary64 literals and booleans);
  * the isinstance ladder of _compare_recursive: the classes of every branch in the code's order and what the branch does
    (gen_ladder); the subclass facts between the concrete types of tree nodes and those classes are computed from the
    running Python / numpy (gen_isinst), as is np.issubdtype(dtype, np.floating) for the modelled dtypes (gen_floating);
  * the keyword arguments of the inner compare_values / compare calls (gen_leaf_cvopts);
  * np.isclose's operand order and keywords in compare_values, first try and phase retry (gen_close_f / gen_retry_f, the same
    for complex), the retry condition;
  * the node-name expressions (prefix = name + ".", prefix + str(i)) (gen_child), the entry normalisation
    (fg if fg.startswith("root.") else "root." + fg) (gen_rootify_fg / gen_rootify_ep) and the match test
    nomatch[0] == fg or nomatch[0].startswith(fg + ".") of both removal loops (gen_matches_fg / gen_matches_ep), the
    `nomatch[0] not in n_errors` guard, the `break`s;
  * the refusal test atol >= 1 (gen_refuse_atol) and the verdict expression at every `return return_handler(...)` site with
    the positional order of (return_message, quiet) (gen_values_returns, gen_compare_returns, gen_rec_returns);
  * compare_molrecs: the keys massage_dicts touches, in order (gen_massage_keys), the keywords forwarded to compare_recursive
    and quiet=(verbose == 0) (gen_mol_forward, gen_mol_quiet); ProtoModel.compare: the forwarding call;
  * ProtoModel.dict: the expression assigned to kwargs["exclude"] (translated structurally: `|` builds a new set), the
    exclude_unset default / override, that no statement of the method works in place (gen_dict_exclude, gen_dict_exclude_unset,
    gen_dict_shared_after); ProtoModel.Config's defaults (gen_shared0, gen_protoflags0); serialize's option blocks and json's
    forwarding call (gen_serialize_forwards, gen_serialize_kw); no other file of the package names serialize_default_excludes.
Statements that only build message texts are checked not to assign any verdict-relevant name and to contain no
return / raise.  Fail-closed: any other statement or expression shape raises TranslateError."""
import ast
import os

from .. import coqrun
from ..core import TranslateError

SRC = os.path.join("qcelemental", "testing.py")
BASEMODELS = os.path.join("qcelemental", "models", "basemodels.py")


def _fail(node, why, src=SRC):
    txt = ast.unparse(node) if isinstance(node, ast.AST) else str(node)
    raise TranslateError(f"{src}:{getattr(node, 'lineno', '?')}: {why}: {txt[:300]}")


def _parse(repo, src):
    path = os.path.join(repo, src)
    try:
        with open(path) as fh:
            return ast.parse(fh.read())
    except (OSError, SyntaxError) as e:
        raise TranslateError(f"cannot read/parse {path}: {e}")


def _fn(tree, name, src=SRC):
    for n in tree.body:
        if isinstance(n, ast.FunctionDef) and n.name == name:
            return n
    raise TranslateError(f"{src}: function {name} not found")


def _body(fn):
    b = list(fn.body)
    if b and isinstance(b[0], ast.Expr) and isinstance(b[0].value, ast.Constant) and isinstance(b[0].value.value, str):
        b = b[1:]
    return b


def _u(node):
    return ast.unparse(node)


def _expect(node, text, what, src=SRC):
    if _u(node) != text:
        _fail(node, f"{what}: expected `{text}`, found", src)


# ------------------------------------------------------------------------------------------------------
# literals

def cfloat(x):
    x = float(x)
    if x != x or x in (float("inf"), float("-inf")):
        raise TranslateError(f"non-finite default {x!r}")
    if x == 0:
        return "PrimFloat.zero"
    return f"({x.hex()})%float"


def cbool(b):
    return "true" if b else "false"


# ------------------------------------------------------------------------------------------------------
# signatures

def signature(fn):
    """[(name, default-node-or-None)] of positional args, then of keyword-only args"""
    a = fn.args
    if a.vararg or a.kwarg or a.posonlyargs:
        _fail(fn, "unexpected *args/**kwargs/positional-only parameters in")
    pos = [x.arg for x in a.args]
    pd = [None] * (len(pos) - len(a.defaults)) + list(a.defaults)
    kw = [x.arg for x in a.kwonlyargs]
    return list(zip(pos, pd)), list(zip(kw, a.kw_defaults))


def const(node, types, what):
    if isinstance(node, ast.Constant) and type(node.value) in types:
        return node.value
    if (isinstance(node, ast.UnaryOp) and isinstance(node.op, ast.USub) and isinstance(node.operand, ast.Constant)
            and type(node.operand.value) in types and float in types):
        return -node.operand.value
    _fail(node, f"{what}: expected a literal of type {[t.__name__ for t in types]}")


def check_sig(fn, pos_names, kw_names):
    pos, kw = signature(fn)
    if [n for n, _ in pos] != pos_names:
        _fail(fn.args, f"{fn.name}: positional parameters changed (expected {pos_names})")
    if [n for n, _ in kw] != kw_names:
        _fail(fn.args, f"{fn.name}: keyword-only parameters changed (expected {kw_names})")
    d = dict(pos)
    d.update(dict(kw))
    return d


# ------------------------------------------------------------------------------------------------------
# string expressions of the name / forgive machinery -> Gallina

class StrExpr:
    def __init__(self, env):
        self.env = env          # unparse text -> coq term

    def tr(self, n):
        """-> (kind, term)  kind in {"str", "bool"}"""
        key = _u(n)
        if key in self.env:
            return "str", self.env[key]
        if isinstance(n, ast.Constant) and isinstance(n.value, str):
            return "str", coqrun.cstr(n.value)
        if isinstance(n, ast.BinOp) and isinstance(n.op, ast.Add):
            (ka, a), (kb, b) = self.tr(n.left), self.tr(n.right)
            if ka == kb == "str":
                return "str", f"({a} ++ {b})"
        if (isinstance(n, ast.Call) and isinstance(n.func, ast.Attribute) and n.func.attr == "startswith" and len(n.args) == 1
                and not n.keywords):
            (ko, o), (ka, a) = self.tr(n.func.value), self.tr(n.args[0])
            if ko == ka == "str":
                return "bool", f"(String.prefix {a} {o})"
        if isinstance(n, ast.Compare) and len(n.ops) == 1 and isinstance(n.ops[0], ast.Eq):
            (ka, a), (kb, b) = self.tr(n.left), self.tr(n.comparators[0])
            if ka == kb == "str":
                return "bool", f"(String.eqb {a} {b})"
        if isinstance(n, ast.BoolOp):
            parts = [self.tr(v) for v in n.values]
            if all(k == "bool" for k, _ in parts):
                op = " || " if isinstance(n.op, ast.Or) else " && "
                return "bool", "(" + op.join(t for _, t in parts) + ")"
        if isinstance(n, ast.IfExp):
            (kt, t), (ka, a), (kb, b) = self.tr(n.test), self.tr(n.body), self.tr(n.orelse)
            if kt == "bool" and ka == kb == "str":
                return "str", f"(if {t} then {a} else {b})"
        _fail(n, "string expression outside the translated fragment")


# ------------------------------------------------------------------------------------------------------
# return sites

def handler_call(node, src_name):
    """`return return_handler(V, label, M, return_message, quiet)` -> V node"""
    if not (isinstance(node, ast.Return) and isinstance(node.value, ast.Call) and _u(node.value.func) == "return_handler"
            and len(node.value.args) == 5 and not node.value.keywords):
        _fail(node, f"{src_name}: a return that is not `return return_handler(v, label, msg, return_message, quiet)`")
    a = node.value.args
    _expect(a[1], "label", f"{src_name}: second argument of return_handler")
    _expect(a[3], "return_message", f"{src_name}: fourth argument of return_handler")
    _expect(a[4], "quiet", f"{src_name}: fifth argument of return_handler")
    return a[0]


def site_of(v):
    t = _u(v)
    if t == "True":
        return "RTrue"
    if t == "False":
        return "RFalse"
    if t == "allclose":
        return "RAllclose"
    if t == "len(ret_msg_str) == 0":
        return "RNoErrors"
    _fail(v, "verdict expression at a return site outside the translated fragment")


PROTECTED = {"allclose", "isclose", "n_isclose", "xptd", "cptd", "expected", "computed", "atol", "rtol", "equal_nan", "equal_phase",
             "return_message", "quiet", "return_handler", "passnone", "errors", "forgive", "label"}


def _bound_names(t):
    """names (re)bound or updated in place by an assignment target: x, x[i], x.a -> x; tuples elementwise"""
    if isinstance(t, ast.Name):
        return [t.id]
    if isinstance(t, (ast.Tuple, ast.List)):
        return [m for e in t.elts for m in _bound_names(e)]
    if isinstance(t, ast.Starred):
        return _bound_names(t.value)
    if isinstance(t, (ast.Subscript, ast.Attribute)):
        return _bound_names(t.value)
    return ["?"]


def message_only(stmts, what):
    """statements that only build the message: no return/raise, no (re)binding of a verdict-relevant name, no in-place
    update of the compared arrays"""
    for st in stmts:
        for n in ast.walk(st):
            if isinstance(n, (ast.Return, ast.Raise, ast.Global, ast.Nonlocal, ast.Delete, ast.Yield, ast.Break, ast.Continue)):
                _fail(n, f"{what}: control flow inside the message-building block")
            tg = []
            if isinstance(n, ast.Assign):
                tg = n.targets
            elif isinstance(n, (ast.AugAssign, ast.AnnAssign)):
                tg = [n.target]
            elif isinstance(n, ast.NamedExpr):
                tg = [n.target]
            elif isinstance(n, (ast.For, ast.comprehension)):
                tg = [n.target]
            elif isinstance(n, ast.With):
                tg = [i.optional_vars for i in n.items if i.optional_vars is not None]
            for t in tg:
                for m in _bound_names(t):
                    if m in PROTECTED:
                        _fail(n, f"{what}: the message-building block assigns `{m}`")
            if isinstance(n, ast.Call):
                # in-place numpy updates of the compared arrays
                f = _u(n.func)
                if any(isinstance(k, ast.keyword) and k.arg in ("out", "where") for k in n.keywords):
                    _fail(n, f"{what}: out=/where= in the message-building block")
                if f in ("np.nan_to_num",) and n.args and _u(n.args[0]) in PROTECTED:
                    _fail(n, f"{what}: in-place update of a compared array")
                if isinstance(n.func, ast.Attribute) and _u(n.func.value) in PROTECTED and n.func.attr in (
                        "sort", "fill", "resize", "itemset", "put", "setfield", "append", "remove", "clear", "pop", "update", "extend"):
                    _fail(n, f"{what}: in-place update of `{_u(n.func.value)}`")


# ------------------------------------------------------------------------------------------------------
# compare_values

def isclose_call(node, first, what):
    """np.isclose(<first>, xptd, rtol=rtol, atol=atol, equal_nan=equal_nan) -> (operand order, keyword map)"""
    if not (isinstance(node, ast.Call) and _u(node.func) == "np.isclose" and len(node.args) == 2):
        _fail(node, f"{what}: expected a call np.isclose(a, b, rtol=, atol=, equal_nan=)")
    roles = {first: "c", "xptd": "e"}
    ops = []
    for a in node.args:
        t = _u(a)
        if t not in roles:
            _fail(a, f"{what}: unexpected operand of np.isclose")
        ops.append(roles[t])
    if sorted(ops) != ["c", "e"]:
        _fail(node, f"{what}: np.isclose must get computed and expected")
    kws = {}
    for k in node.keywords:
        if k.arg not in ("rtol", "atol", "equal_nan") or not isinstance(k.value, ast.Name) or k.value.id not in ("rtol", "atol", "equal_nan"):
            _fail(node, f"{what}: unexpected keyword of np.isclose")
        kws[k.arg] = k.value.id
    if sorted(kws) != ["atol", "equal_nan", "rtol"]:
        _fail(node, f"{what}: np.isclose must get rtol, atol and equal_nan by keyword")
    return ops, kws


def tr_compare_values(fn, out):
    d = check_sig(fn, ["expected", "computed", "label"],
                  ["atol", "rtol", "equal_nan", "equal_phase", "passnone", "quiet", "return_message", "return_handler"])
    atol = const(d["atol"], (float, int), "default of atol")
    rtol = const(d["rtol"], (float, int), "default of rtol")
    flags = {k: const(d[k], (bool,), f"default of {k}") for k in ("equal_nan", "equal_phase", "passnone", "quiet", "return_message")}
    for k in ("label", "return_handler"):
        _expect(d[k], "None", f"default of {k}")
    out["values_defaults"] = (atol, rtol, flags)

    b = _body(fn)
    i = 0
    _expect(b[i], "label = label or sys._getframe().f_back.f_code.co_name", "compare_values"); i += 1
    if not (isinstance(b[i], ast.Assign) and _u(b[i].targets[0]) == "pass_message"):
        _fail(b[i], "compare_values: expected the pass_message assignment")
    i += 1
    _expect(b[i], "if return_handler is None:\n    return_handler = _handle_return", "compare_values"); i += 1
    sites = []
    # passnone
    st = b[i]; i += 1
    if not (isinstance(st, ast.If) and _u(st.test) == "passnone" and not st.orelse and len(st.body) == 1
            and isinstance(st.body[0], ast.If) and _u(st.body[0].test) == "expected is None and computed is None"
            and not st.body[0].orelse and len(st.body[0].body) == 1):
        _fail(st, "compare_values: the passnone block changed")
    sites.append(site_of(handler_call(st.body[0].body[0], "compare_values")))
    # dtype choice and casts inside one try
    _expect(b[i], "dtype = float", "compare_values"); i += 1
    st = b[i]; i += 1
    if not (isinstance(st, ast.Try) and len(st.body) == 2 and len(st.handlers) == 1 and not st.orelse and not st.finalbody
            and st.handlers[0].type is not None and _u(st.handlers[0].type) == "Exception" and len(st.handlers[0].body) == 1):
        _fail(st, "compare_values: the cast block changed")
    _expect(st.body[0], "if np.iscomplexobj(expected) or np.iscomplexobj(computed):\n    dtype = complex", "compare_values")
    _expect(st.body[1], "xptd, cptd = (np.array(expected, dtype=dtype), np.array(computed, dtype=dtype))", "compare_values")
    sites.append(site_of(handler_call(st.handlers[0].body[0], "compare_values")))
    # shape
    st = b[i]; i += 1
    if not (isinstance(st, ast.If) and _u(st.test) == "xptd.shape != cptd.shape" and not st.orelse and len(st.body) == 1):
        _fail(st, "compare_values: the shape test changed")
    sites.append(site_of(handler_call(st.body[0], "compare_values")))
    # message digits (raises for an unusable atol: modelled by atol_exc) -- position matters: after the shape test
    _expect(b[i], "digits1 = abs(int(np.log10(atol))) + 2", "compare_values"); i += 1
    while not (isinstance(b[i], ast.Assign) and _u(b[i].targets[0]) == "isclose"):
        message_only([b[i]], "compare_values")
        i += 1
    ops1, kws1 = isclose_call(b[i].value, "cptd", "compare_values"); i += 1
    _expect(b[i], "allclose = bool(np.all(isclose))", "compare_values"); i += 1
    st = b[i]; i += 1
    if not (isinstance(st, ast.If) and not st.orelse and len(st.body) == 2):
        _fail(st, "compare_values: the phase retry changed")
    _expect(st.test, "not allclose and equal_phase and hasattr(cptd, '__neg__')", "compare_values: retry condition")
    if not (isinstance(st.body[0], ast.Assign) and _u(st.body[0].targets[0]) == "n_isclose"):
        _fail(st.body[0], "compare_values: the phase retry changed")
    ops2, kws2 = isclose_call(st.body[0].value, "-cptd", "compare_values (retry)")
    _expect(st.body[1], "allclose = bool(np.all(n_isclose))", "compare_values")
    # message
    st = b[i]; i += 1
    if not (isinstance(st, ast.If) and _u(st.test) == "allclose"):
        _fail(st, "compare_values: expected the message block")
    message_only(st.body + st.orelse, "compare_values")
    if i != len(b) - 1:
        _fail(b[i], "compare_values: unexpected statement before the final return")
    sites.append(site_of(handler_call(b[i], "compare_values")))
    out["values_returns"] = sites
    out["isclose"] = (ops1, kws1, ops2, kws2)


# ------------------------------------------------------------------------------------------------------
# compare

def tr_compare(fn, out):
    d = check_sig(fn, ["expected", "computed", "label"], ["equal_phase", "quiet", "return_message", "return_handler"])
    flags = {k: const(d[k], (bool,), f"default of {k}") for k in ("equal_phase", "quiet", "return_message")}
    for k in ("label", "return_handler"):
        _expect(d[k], "None", f"default of {k}")
    out["compare_defaults"] = flags
    b = _body(fn)
    i = 0
    _expect(b[i], "label = label or sys._getframe().f_back.f_code.co_name", "compare"); i += 1
    if not (isinstance(b[i], ast.Assign) and _u(b[i].targets[0]) == "pass_message"):
        _fail(b[i], "compare: expected the pass_message assignment")
    i += 1
    _expect(b[i], "if return_handler is None:\n    return_handler = _handle_return", "compare"); i += 1
    sites = []
    st = b[i]; i += 1
    if not (isinstance(st, ast.Try) and len(st.body) == 1 and len(st.handlers) == 1 and not st.orelse and not st.finalbody
            and st.handlers[0].type is not None and _u(st.handlers[0].type) == "Exception" and len(st.handlers[0].body) == 1):
        _fail(st, "compare: the cast block changed")
    _expect(st.body[0], "xptd, cptd = (np.array(expected), np.array(computed))", "compare")
    sites.append(site_of(handler_call(st.handlers[0].body[0], "compare")))
    st = b[i]; i += 1
    if not (isinstance(st, ast.If) and _u(st.test) == "xptd.shape != cptd.shape" and not st.orelse and len(st.body) == 1):
        _fail(st, "compare: the shape test changed")
    sites.append(site_of(handler_call(st.body[0], "compare")))
    _expect(b[i], "isclose = np.asarray(xptd == cptd)", "compare"); i += 1
    _expect(b[i], "allclose = bool(isclose.all())", "compare"); i += 1
    _expect(b[i], "if not allclose and equal_phase:\n    try:\n        n_isclose = np.asarray(xptd == -cptd)\n    except TypeError:\n        pass\n"
                  "    else:\n        allclose = bool(n_isclose.all())", "compare: phase retry"); i += 1
    st = b[i]; i += 1
    if not (isinstance(st, ast.If) and _u(st.test) == "allclose"):
        _fail(st, "compare: expected the message block")
    message_only(st.body + st.orelse, "compare")
    if i != len(b) - 1:
        _fail(b[i], "compare: unexpected statement before the final return")
    sites.append(site_of(handler_call(b[i], "compare")))
    out["compare_returns"] = sites


# ------------------------------------------------------------------------------------------------------
# _compare_recursive

CLS = {"str": "CStr", "int": "CInt", "bool": "CBool", "complex": "CComplex", "np.bool_": "CNpBool", "list": "CList", "tuple": "CTuple",
       "dict": "CDict", "float": "CFloat", "np.number": "CNpNumber", "np.ndarray": "CNdarray", "type(None)": "CNoneType",
       "BaseModel": "CBaseModel"}


def _classes():
    import numpy as np
    try:
        from pydantic.v1 import BaseModel
    except ImportError:
        from pydantic import BaseModel
    return {"CStr": str, "CInt": int, "CBool": bool, "CComplex": complex, "CNpBool": np.bool_, "CList": list, "CTuple": tuple,
            "CDict": dict, "CFloat": float, "CNpNumber": np.number, "CNdarray": np.ndarray, "CNoneType": type(None),
            "CBaseModel": BaseModel}


def _concrete():
    import numpy as np
    return {"PyNone": type(None), "PyBool": bool, "NpBool": np.bool_, "PyInt": int, "NpInt": np.int64, "PyFloat": float,
            "NpFloat": np.float64, "PyComplex": complex, "NpComplex": np.complex128, "PyStr": str, "NpStr": np.str_,
            "PyList": list, "PyTuple": tuple, "PyDict": dict, "PyNdarray": np.ndarray, "PySet": set}


def _dtypes():
    import numpy as np
    return {"DBool": np.dtype(np.bool_), "DInt": np.dtype(np.int64), "DFloat": np.dtype(np.float64), "DCplx": np.dtype(np.complex128),
            "DStr": np.dtype("<U3"), "DObj": np.dtype(object)}


def isinstance_classes(test):
    """isinstance(expected, X) -> [class constructor names]"""
    if not (isinstance(test, ast.Call) and _u(test.func) == "isinstance" and len(test.args) == 2 and not test.keywords
            and _u(test.args[0]) == "expected"):
        _fail(test, "_compare_recursive: branch test is not isinstance(expected, ...)")
    x = test.args[1]
    elts = x.elts if isinstance(x, ast.Tuple) else [x]
    out = []
    for e in elts:
        t = _u(e)
        if t not in CLS:
            _fail(e, "_compare_recursive: class outside the translated fragment")
        out.append(CLS[t])
    return out


def _wild(stmts):
    """unparse with the message of every errors.append((name, MSG)) replaced by a placeholder"""
    class W(ast.NodeTransformer):
        def visit_Call(self, n):
            self.generic_visit(n)
            if (_u(n.func) == "errors.append" and len(n.args) == 1 and isinstance(n.args[0], ast.Tuple) and len(n.args[0].elts) == 2
                    and _u(n.args[0].elts[0]) == "name"):
                n.args[0].elts[1] = ast.Name(id="MSG", ctx=ast.Load())
            return n
    import copy
    return "\n".join(_u(W().visit(copy.deepcopy(s))) for s in stmts)


REC_CALL = "_compare_recursive({a}, {b}, _prefix={p}, atol=atol, rtol=rtol, equal_phase=equal_phase)"
BODY_EXACT = "if expected != computed:\n    errors.append((name, MSG))"
BODY_SEQ = ("try:\n    if len(expected) != len(computed):\n        errors.append((name, MSG))\n    else:\n"
            "        for i, item1, item2 in zip(range(len(expected)), expected, computed):\n"
            "            errors.extend(" + REC_CALL.format(a="item1", b="item2", p="prefix + str(i)") + ")\n"
            "except TypeError:\n    errors.append((name, MSG))")
BODY_DICT = ("expected_extra = computed.keys() - expected.keys()\ncomputed_extra = expected.keys() - computed.keys()\n"
             "if len(expected_extra):\n    errors.append((name, MSG))\nif len(computed_extra):\n    errors.append((name, MSG))\n"
             "for k in expected.keys() & computed.keys():\n    name = prefix + str(k)\n"
             "    errors.extend(" + REC_CALL.format(a="expected[k]", b="computed[k]", p="name") + ")")
CV_CALL = "compare_values(expected, computed, atol=atol, rtol=rtol, equal_phase=equal_phase, return_message=True, quiet=True)"
C_CALL = "compare(expected, computed, equal_phase=equal_phase, return_message=True, quiet=True)"
BODY_VALUES = "passfail, msg = " + CV_CALL + "\nif not passfail:\n    errors.append((name, MSG))"
BODY_ARRAY = ("if np.issubdtype(expected.dtype, np.floating):\n    passfail, msg = " + CV_CALL + "\nelse:\n    passfail, msg = " + C_CALL
              + "\nif not passfail:\n    errors.append((name, MSG))")
BODY_NONE = "if expected is not computed:\n    errors.append((name, MSG))"
BODY_ELSE = "errors.append((name, MSG))"
BODIES = {BODY_EXACT: "AExact", BODY_SEQ: "ASeq", BODY_DICT: "ADict", BODY_VALUES: "AValues", BODY_ARRAY: "AArray", BODY_NONE: "ANone"}


def tr_rec_inner(fn, out):
    pos, kw = signature(fn)
    if [n for n, _ in pos] != ["expected", "computed", "atol", "rtol", "_prefix", "equal_phase"] or kw:
        _fail(fn.args, "_compare_recursive: parameters changed")
    dd = dict(pos)
    _expect(dd["_prefix"], "False", "default of _prefix")
    _expect(dd["equal_phase"], "False", "default of equal_phase (_compare_recursive)")
    b = _body(fn)
    _expect(b[0], "errors = []", "_compare_recursive")
    _expect(b[1], "name = _prefix or 'root'", "_compare_recursive")
    if not (isinstance(b[2], ast.Assign) and _u(b[2].targets[0]) == "prefix"):
        _fail(b[2], "_compare_recursive: expected the prefix assignment")
    se = StrExpr({"name": "name", "str(i)": "key", "str(k)": "key"})
    kp, prefix_term = se.tr(b[2].value)
    if kp != "str":
        _fail(b[2], "_compare_recursive: prefix is not a string expression")
    # child names: prefix + str(i) in the list loop, prefix + str(k) in the dict loop (checked textually in the bodies)
    se2 = StrExpr({"prefix": prefix_term, "str(i)": "key", "str(k)": "key"})
    out["child"] = se2.tr(ast.parse("prefix + str(i)", mode="eval").body)[1]
    _expect(b[3], "if isinstance(expected, BaseModel):\n    expected = expected.dict()", "_compare_recursive")
    _expect(b[4], "if isinstance(computed, BaseModel):\n    computed = computed.dict()", "_compare_recursive")
    if len(b) != 7:
        _fail(b[5], "_compare_recursive: unexpected statements")
    _expect(b[6], "return errors", "_compare_recursive")
    node = b[5]
    ladder = []
    while True:
        if not isinstance(node, ast.If):
            _fail(node, "_compare_recursive: expected an if/elif chain")
        classes = isinstance_classes(node.test)
        w = _wild(node.body)
        if w not in BODIES:
            _fail(node.body[0], "_compare_recursive: branch body outside the translated fragment (after message wildcarding:\n" + w + "\n)")
        ladder.append((classes, BODIES[w]))
        if len(node.orelse) == 1 and isinstance(node.orelse[0], ast.If):
            node = node.orelse[0]
            continue
        if _wild(node.orelse) != BODY_ELSE:
            _fail(node.orelse[0] if node.orelse else node, "_compare_recursive: the final else must only record an error")
        break
    out["ladder"] = ladder
    # subclass facts from the running interpreter
    cls, conc = _classes(), _concrete()
    out["isinst"] = [(t, c) for t, tc in conc.items() for c, cc in cls.items() if issubclass(tc, cc)]
    import numpy as np
    out["floating"] = [(k, bool(np.issubdtype(dt, np.floating))) for k, dt in _dtypes().items()]


# ------------------------------------------------------------------------------------------------------
# compare_recursive

def removal_loop(st, var, entries, guard, what):
    """for nomatch in sorted(errors): for <var> in <entries> or []: if MATCH: [if GUARD:] <list>.append(nomatch); errors.remove(nomatch); break
    -> the MATCH node"""
    if not (isinstance(st, ast.For) and _u(st.target) == "nomatch" and _u(st.iter) == "sorted(errors)" and not st.orelse
            and len(st.body) == 1):
        _fail(st, f"{what}: removal loop changed")
    inner = st.body[0]
    if not (isinstance(inner, ast.For) and _u(inner.target) == var and _u(inner.iter) == f"{entries} or []" and not inner.orelse
            and len(inner.body) == 1 and isinstance(inner.body[0], ast.If) and not inner.body[0].orelse):
        _fail(inner, f"{what}: removal loop changed")
    cond = inner.body[0]
    body = cond.body
    if guard is not None:
        if not (len(body) == 1 and isinstance(body[0], ast.If) and not body[0].orelse and _u(body[0].test) == guard):
            _fail(cond, f"{what}: expected the guard `{guard}`")
        body = body[0].body
    if not (len(body) == 3 and isinstance(body[0], ast.Expr) and _u(body[0].value).endswith(".append(nomatch)")
            and _u(body[1]) == "errors.remove(nomatch)" and isinstance(body[2], ast.Break)):
        _fail(cond, f"{what}: expected append / errors.remove(nomatch) / break")
    return cond.test


def normalise_entries(st, var, what):
    """<var> = [(x if x.startswith("root.") else "root." + x) for x in <var>] -> (elt node, loop variable)"""
    if not (isinstance(st, ast.Assign) and _u(st.targets[0]) == var and isinstance(st.value, ast.ListComp)
            and len(st.value.generators) == 1 and not st.value.generators[0].ifs and _u(st.value.generators[0].iter) == var
            and isinstance(st.value.generators[0].target, ast.Name)):
        _fail(st, f"{what}: entry normalisation changed")
    return st.value.elt, st.value.generators[0].target.id


def tr_rec(fn, out):
    d = check_sig(fn, ["expected", "computed", "label"],
                  ["atol", "rtol", "forgive", "equal_phase", "quiet", "return_message", "return_handler"])
    atol = const(d["atol"], (float, int), "default of atol")
    rtol = const(d["rtol"], (float, int), "default of rtol")
    flags = {k: const(d[k], (bool,), f"default of {k}") for k in ("equal_phase", "quiet", "return_message")}
    for k in ("label", "forgive", "return_handler"):
        _expect(d[k], "None", f"default of {k}")
    out["rec_defaults"] = (atol, rtol, flags)
    b = _body(fn)
    i = 0
    _expect(b[i], "label = label or sys._getframe().f_back.f_code.co_name", "compare_recursive"); i += 1
    st = b[i]; i += 1
    if not (isinstance(st, ast.If) and not st.orelse and len(st.body) == 1 and isinstance(st.body[0], ast.Raise)
            and _u(st.body[0].exc.func) == "ValueError" and isinstance(st.test, ast.Compare) and len(st.test.ops) == 1
            and _u(st.test.left) == "atol"):
        _fail(st, "compare_recursive: the atol refusal changed")
    bound = const(st.test.comparators[0], (int, float), "atol bound")
    op = st.test.ops[0]
    if isinstance(op, ast.GtE):
        out["refuse"] = f"PrimFloat.leb {cfloat(bound)} a"
    elif isinstance(op, ast.Gt):
        out["refuse"] = f"PrimFloat.ltb {cfloat(bound)} a"
    else:
        _fail(st.test, "compare_recursive: comparison outside the translated fragment")
    _expect(b[i], "if return_handler is None:\n    return_handler = _handle_return", "compare_recursive"); i += 1
    _expect(b[i], "errors = _compare_recursive(expected, computed, atol=atol, rtol=rtol)", "compare_recursive"); i += 1
    # phase block
    st = b[i]; i += 1
    if not (isinstance(st, ast.If) and _u(st.test) == "errors and equal_phase" and not st.orelse and len(st.body) == 5):
        _fail(st, "compare_recursive: the equal_phase block changed")
    _expect(st.body[0], "n_errors = _compare_recursive(expected, computed, atol=atol, rtol=rtol, equal_phase=True)", "compare_recursive")
    _expect(st.body[1], "n_errors = dict(n_errors)", "compare_recursive")
    sel = st.body[2]
    if not (isinstance(sel, ast.If) and _u(sel.test) == "equal_phase is False" and _u(sel.body[0]) == "equal_phase = []" and len(sel.body) == 1
            and len(sel.orelse) == 1 and isinstance(sel.orelse[0], ast.If) and _u(sel.orelse[0].test) == "equal_phase is True"
            and len(sel.orelse[0].body) == 1 and _u(sel.orelse[0].body[0]) == "equal_phase = list(dict(errors).keys())"
            and len(sel.orelse[0].orelse) == 1):
        _fail(sel, "compare_recursive: the equal_phase selection changed")
    elt, var = normalise_entries(sel.orelse[0].orelse[0], "equal_phase", "compare_recursive")
    out["rootify_ep"] = _str_term(StrExpr({var: "s"}), elt)
    _expect(st.body[3], "phased = []", "compare_recursive")
    m = removal_loop(st.body[4], "ep", "equal_phase", "nomatch[0] not in n_errors", "compare_recursive (equal_phase)")
    out["matches_ep"] = _bool_term(StrExpr({"nomatch[0]": "name", "ep": "fg"}), m)
    # forgive block
    st = b[i]; i += 1
    if not (isinstance(st, ast.If) and _u(st.test) == "forgive is None" and len(st.body) == 1 and _u(st.body[0]) == "forgive = []"
            and len(st.orelse) == 1):
        _fail(st, "compare_recursive: the forgive normalisation changed")
    elt, var = normalise_entries(st.orelse[0], "forgive", "compare_recursive")
    out["rootify_fg"] = _str_term(StrExpr({var: "s"}), elt)
    _expect(b[i], "forgiven = []", "compare_recursive"); i += 1
    m = removal_loop(b[i], "fg", "forgive", None, "compare_recursive (forgive)"); i += 1
    out["matches_fg"] = _bool_term(StrExpr({"nomatch[0]": "name", "fg": "fg"}), m)
    # message: two lines per remaining error, the second never empty
    _expect(b[i], "message = []", "compare_recursive"); i += 1
    _expect(b[i], "for e in sorted(errors):\n    message.append(e[0])\n    message.append('    ' + e[1])", "compare_recursive"); i += 1
    _expect(b[i], "ret_msg_str = '\\n'.join(message)", "compare_recursive"); i += 1
    if i != len(b) - 1:
        _fail(b[i], "compare_recursive: unexpected statement before the final return")
    out["rec_returns"] = [site_of(handler_call(b[i], "compare_recursive"))]


def _str_term(se, node):
    k, t = se.tr(node)
    if k != "str":
        _fail(node, "expected a string expression")
    return t


def _bool_term(se, node):
    k, t = se.tr(node)
    if k != "bool":
        _fail(node, "expected a boolean expression")
    return t


# ------------------------------------------------------------------------------------------------------
# compare_molrecs, _handle_return, ProtoModel.compare

def tr_molrecs(fn, out):
    d = check_sig(fn, ["expected", "computed", "label"],
                  ["atol", "rtol", "forgive", "verbose", "relative_geoms", "return_message", "return_handler"])
    atol = const(d["atol"], (float, int), "default of atol")
    rtol = const(d["rtol"], (float, int), "default of rtol")
    verbose = const(d["verbose"], (int,), "default of verbose")
    geoms = const(d["relative_geoms"], (str,), "default of relative_geoms")
    rm = const(d["return_message"], (bool,), "default of return_message")
    for k in ("label", "forgive", "return_handler"):
        _expect(d[k], "None", f"default of {k}")
    out["mol_defaults"] = (atol, rtol, verbose, geoms, rm)
    b = _body(fn)
    _expect(b[0], "xptd = copy.deepcopy(expected)", "compare_molrecs")
    _expect(b[1], "cptd = copy.deepcopy(computed)", "compare_molrecs")
    mfn = b[2]
    if not (isinstance(mfn, ast.FunctionDef) and mfn.name == "massage_dicts" and [a.arg for a in mfn.args.args] == ["dicary"]):
        _fail(mfn, "compare_molrecs: expected the local function massage_dicts(dicary)")
    expected_blocks = {
        "fragment_files": "dicary['fragment_files'] = [str(f) for f in dicary['fragment_files']]",
        "fragment_separators": "dicary['fragment_separators'] = [s if s is None else int(s) for s in dicary['fragment_separators']]",
        "provenance": "dicary['provenance'].pop('version')",
        "connectivity": "conn = [(min(at1, at2), max(at1, at2), bo) for at1, at2, bo in dicary['connectivity']]\n"
                        "conn.sort(key=lambda tup: tup[0])\ndicary['connectivity'] = conn",
    }
    keys = []
    mb = _body(mfn)
    for st in mb[:-1]:
        if not (isinstance(st, ast.If) and not st.orelse and isinstance(st.test, ast.Compare) and len(st.test.ops) == 1
                and isinstance(st.test.ops[0], ast.In) and isinstance(st.test.left, ast.Constant) and _u(st.test.comparators[0]) == "dicary"):
            _fail(st, "massage_dicts: expected `if \"key\" in dicary:` blocks")
        k = st.test.left.value
        if k not in expected_blocks or "\n".join(_u(x) for x in st.body) != expected_blocks[k]:
            _fail(st, "massage_dicts: normalisation outside the translated fragment")
        keys.append(k)
    _expect(mb[-1], "return dicary", "massage_dicts")
    out["massage_keys"] = keys
    _expect(b[3], "xptd = massage_dicts(xptd)", "compare_molrecs")
    _expect(b[4], "cptd = massage_dicts(cptd)", "compare_molrecs")
    st = b[5]
    if not (isinstance(st, ast.If) and _u(st.test) == "relative_geoms == 'exact'" and len(st.body) == 1 and isinstance(st.body[0], ast.Pass)):
        _fail(st, "compare_molrecs: the relative_geoms == 'exact' branch must do nothing")
    if len(b) != 7:
        _fail(b[6], "compare_molrecs: unexpected statements")
    ret = b[6]
    if not (isinstance(ret, ast.Return) and isinstance(ret.value, ast.Call) and _u(ret.value.func) == "compare_recursive"
            and [_u(a) for a in ret.value.args] == ["xptd", "cptd"]):
        _fail(ret, "compare_molrecs: expected `return compare_recursive(xptd, cptd, ...)`")
    fw = {k.arg: _u(k.value) for k in ret.value.keywords}
    want = {"atol": "atol", "rtol": "rtol", "label": "label", "forgive": "forgive", "quiet": "verbose == 0",
            "return_message": "return_message", "return_handler": "return_handler"}
    if fw != want:
        _fail(ret, f"compare_molrecs: forwarded keywords changed (expected {want})")
    out["mol_forward"] = sorted(k for k in fw if k in ("atol", "rtol", "forgive", "equal_phase"))


def tr_handle_return(fn, out):
    pos, kw = signature(fn)
    if [n for n, _ in pos] != ["passfail", "label", "message", "return_message", "quiet"] or kw:
        _fail(fn.args, "_handle_return: parameters changed")
    _expect(dict(pos)["quiet"], "False", "default of quiet (_handle_return)")
    b = _body(fn)
    if len(b) != 2:
        _fail(fn, "_handle_return: body changed")
    st = b[0]
    if not (isinstance(st, ast.If) and _u(st.test) == "not quiet" and not st.orelse):
        _fail(st, "_handle_return: expected the logging block")
    for n in ast.walk(st):
        if isinstance(n, (ast.Return, ast.Raise, ast.Assign, ast.AugAssign, ast.NamedExpr)):
            _fail(n, "_handle_return: the logging block must only log")
        if isinstance(n, ast.Call) and not _u(n.func).startswith("logging."):
            _fail(n, "_handle_return: the logging block must only log")
    _expect(b[1], "if return_message:\n    return (passfail, message)\nelse:\n    return passfail", "_handle_return")


def tr_protomodel(tree, out):
    for n in tree.body:
        if isinstance(n, ast.ClassDef) and n.name == "ProtoModel":
            for m in n.body:
                if isinstance(m, ast.FunctionDef) and m.name == "compare":
                    if [a.arg for a in m.args.args] != ["self", "other"] or m.args.kwarg is None or m.args.kwarg.arg != "kwargs" \
                            or m.args.vararg or m.args.kwonlyargs or m.args.defaults:
                        _fail(m.args, "ProtoModel.compare: parameters changed", BASEMODELS)
                    b = _body(m)
                    if len(b) != 2:
                        _fail(m, "ProtoModel.compare: body changed", BASEMODELS)
                    if _u(b[0]) != "from ..testing import compare_recursive":
                        _fail(b[0], "ProtoModel.compare: expected the import of compare_recursive", BASEMODELS)
                    if _u(b[1]) != "return compare_recursive(self, other, **kwargs)":
                        _fail(b[1], "ProtoModel.compare: expected the forwarding call", BASEMODELS)
                    out["protomodel"] = True
                    return
    raise TranslateError(f"{BASEMODELS}: ProtoModel.compare not found")


# ------------------------------------------------------------------------------------------------------
# ProtoModel.dict / serialize / json and the Config defaults (the shared class-level exclude set)

SHARED_ATTR = "self.__config__.serialize_default_excludes"
MUTATORS = {"add", "update", "discard", "remove", "clear", "pop", "intersection_update", "difference_update",
            "symmetric_difference_update", "append", "extend", "insert", "__ior__", "__iand__", "__isub__", "__ixor__", "setattr"}


def _set_expr(node):
    """an expression over sets built WITHOUT modifying any operand -> Gallina (list string)"""
    if isinstance(node, ast.BinOp) and isinstance(node.op, ast.BitOr):
        return f"(sunion {_set_expr(node.left)} {_set_expr(node.right)})"
    if isinstance(node, ast.BoolOp) and isinstance(node.op, ast.Or) and len(node.values) == 2 and _u(node.values[1]) == "set()":
        if _u(node.values[0]) != "kwargs.get('exclude', None)":
            _fail(node, "ProtoModel.dict: expected kwargs.get('exclude', None) or set()", BASEMODELS)
        return "(or_empty (kw_exclude kw))"
    if _u(node) == SHARED_ATTR:
        return "shared"
    _fail(node, "ProtoModel.dict: set expression outside the translated fragment", BASEMODELS)


def _method(cls, name):
    found = [m for m in cls.body if isinstance(m, ast.FunctionDef) and m.name == name]
    if len(found) != 1:
        raise TranslateError(f"{BASEMODELS}: expected exactly one ProtoModel.{name}")
    return found[0]


def tr_model_dict(tree, out):
    cls = [n for n in tree.body if isinstance(n, ast.ClassDef) and n.name == "ProtoModel"]
    if len(cls) != 1:
        raise TranslateError(f"{BASEMODELS}: class ProtoModel not found")
    cls = cls[0]
    # Config: the defaults every subclass inherits
    cfg = [n for n in cls.body if isinstance(n, ast.ClassDef) and n.name == "Config"]
    if len(cfg) != 1:
        raise TranslateError(f"{BASEMODELS}: ProtoModel.Config not found")
    vals = {}
    for st in cfg[0].body:
        if isinstance(st, ast.AnnAssign) and isinstance(st.target, ast.Name) and st.value is not None:
            vals[st.target.id] = st.value
        elif isinstance(st, ast.Assign) and len(st.targets) == 1 and isinstance(st.targets[0], ast.Name):
            vals[st.targets[0].id] = st.value
        elif not (isinstance(st, ast.Expr) and isinstance(st.value, ast.Constant)):
            _fail(st, "ProtoModel.Config: unexpected statement", BASEMODELS)
    for k in ("serialize_default_excludes", "serialize_skip_defaults", "force_skip_defaults"):
        if k not in vals:
            raise TranslateError(f"{BASEMODELS}: ProtoModel.Config.{k} not found")
    if _u(vals["serialize_default_excludes"]) != "set()":
        _fail(vals["serialize_default_excludes"], "Config.serialize_default_excludes: expected the empty set", BASEMODELS)
    out["config0"] = (const(vals["serialize_skip_defaults"], (bool,), "Config.serialize_skip_defaults"),
                      const(vals["force_skip_defaults"], (bool,), "Config.force_skip_defaults"))
    # nothing in the module may write the shared configuration (reads only inside ProtoModel.dict, translated below)
    for n in ast.walk(tree):
        if isinstance(n, (ast.Attribute, ast.Name)) and isinstance(getattr(n, "ctx", None), (ast.Store, ast.Del)):
            nm = n.attr if isinstance(n, ast.Attribute) else n.id
            if nm in ("serialize_default_excludes", "serialize_skip_defaults", "force_skip_defaults", "__config__") and not (
                    isinstance(n, ast.Name) and any(n is st.target or n in getattr(st, "targets", []) for st in cfg[0].body)):
                _fail(n, "the shared model configuration is written", BASEMODELS)
    # dict(self, **kwargs)
    m = _method(cls, "dict")
    if [a.arg for a in m.args.args] != ["self"] or m.args.kwarg is None or m.args.kwarg.arg != "kwargs" or m.args.vararg \
            or m.args.kwonlyargs or m.args.defaults:
        _fail(m.args, "ProtoModel.dict: parameters changed", BASEMODELS)
    b = _body(m)
    if len(b) != 6:
        _fail(m, "ProtoModel.dict: body changed (expected 6 statements)", BASEMODELS)
    _expect(b[0], "encoding = kwargs.pop('encoding', None)", "ProtoModel.dict", BASEMODELS)
    st = b[1]
    if not (isinstance(st, ast.Assign) and len(st.targets) == 1 and _u(st.targets[0]) == "kwargs['exclude']"):
        _fail(st, "ProtoModel.dict: expected the assignment to kwargs['exclude']", BASEMODELS)
    out["dict_exclude"] = _set_expr(st.value)
    _expect(b[2], "kwargs.setdefault('exclude_unset', self.__config__.serialize_skip_defaults)", "ProtoModel.dict", BASEMODELS)
    _expect(b[3], "if self.__config__.force_skip_defaults:\n    kwargs['exclude_unset'] = True", "ProtoModel.dict", BASEMODELS)
    out["dict_exclude_unset"] = ("if force_skip fl then true else match kw_exclude_unset kw with Some b => b | None => skip_defaults fl end")
    _expect(b[4], "data = super().dict(**kwargs)", "ProtoModel.dict", BASEMODELS)
    st = b[5]
    if not (isinstance(st, ast.If) and _u(st.test) == "encoding is None" and _u(st.body[0]) == "return data" and len(st.body) == 1):
        _fail(st, "ProtoModel.dict: expected `if encoding is None: return data`", BASEMODELS)
    # no statement of the method modifies an object in place (a set built by `|` is new; `|=`, .update(), .add() are not)
    for n in ast.walk(m):
        if isinstance(n, (ast.AugAssign, ast.NamedExpr, ast.Delete, ast.Global, ast.Nonlocal)):
            _fail(n, "ProtoModel.dict: in-place statement", BASEMODELS)
        if isinstance(n, ast.Call) and isinstance(n.func, ast.Attribute) and n.func.attr in MUTATORS | {"setdefault"} \
                and _u(n.func.value) != "kwargs":
            _fail(n, "ProtoModel.dict: a method that modifies its object is called on something other than kwargs", BASEMODELS)
    if sum(1 for n in ast.walk(m) if isinstance(n, ast.Attribute) and n.attr == "serialize_default_excludes") != 1:
        _fail(m, "ProtoModel.dict: the shared exclude set is used outside the translated expression", BASEMODELS)
    out["dict_shared_after"] = "shared"
    # serialize(self, encoding, *, include, exclude, exclude_unset, exclude_defaults, exclude_none)
    m = _method(cls, "serialize")
    names = ["include", "exclude", "exclude_unset", "exclude_defaults", "exclude_none"]
    if [a.arg for a in m.args.args] != ["self", "encoding"] or [a.arg for a in m.args.kwonlyargs] != names or m.args.kwarg or m.args.vararg \
            or any(_u(d) != "None" for d in m.args.kw_defaults):
        _fail(m.args, "ProtoModel.serialize: parameters changed", BASEMODELS)
    b = _body(m)
    if len(b) != len(names) + 3:
        _fail(m, "ProtoModel.serialize: body changed", BASEMODELS)
    _expect(b[0], "kwargs = {}", "ProtoModel.serialize", BASEMODELS)
    for st, nm in zip(b[1:1 + len(names)], names):
        _expect(st, f"if {nm}:\n    kwargs['{nm}'] = {nm}", "ProtoModel.serialize", BASEMODELS)
    _expect(b[-2], "data = self.dict(**kwargs)", "ProtoModel.serialize", BASEMODELS)
    _expect(b[-1], "return serialize(data, encoding=encoding)", "ProtoModel.serialize", BASEMODELS)
    out["serialize_forwards"] = names
    m = _method(cls, "json")
    b = _body(m)
    if len(b) != 1 or _u(b[0]) != "return self.serialize('json', **kwargs)":
        _fail(m, "ProtoModel.json: expected the forwarding call", BASEMODELS)


def render_dict(x):
    L = []
    w = L.append
    w("(* ProtoModel.dict: what is handed to pydantic, and the class-level exclude set shared by all models afterwards *)")
    w(f"Definition gen_dict_exclude (shared : list string) (kw : dictkw) : list string := {x['dict_exclude']}.")
    w(f"Definition gen_dict_exclude_unset (fl : clsflags) (kw : dictkw) : bool :=\n  {x['dict_exclude_unset']}.")
    w(f"Definition gen_dict_shared_after (shared : list string) (kw : dictkw) : list string := {x['dict_shared_after']}.")
    w("Definition gen_shared0 : list string := [].")
    skip, force = x["config0"]
    w(f"Definition gen_protoflags0 : clsflags := {{| skip_defaults := {cbool(skip)}; force_skip := {cbool(force)} |}}.")
    w("(* ProtoModel.serialize: `if <option>: kwargs[<option>] = <option>` for these options, then self.dict(kwargs...) *)")
    w("Definition gen_serialize_forwards : list string := [" + "; ".join(coqrun.cstr(k) for k in x["serialize_forwards"]) + "].")
    w("Definition gen_serialize_kw (exclude : option (list string)) (exclude_unset : option bool) : dictkw :=\n"
      "  {| kw_exclude := if truthy_set exclude then exclude else None;\n"
      "     kw_exclude_unset := if truthy_bool exclude_unset then exclude_unset else None |}.")
    w("")
    return "\n".join(L)


# ------------------------------------------------------------------------------------------------------

def extract(repo):
    tree = _parse(repo, SRC)
    out = {}
    tr_handle_return(_fn(tree, "_handle_return"), out)
    tr_compare_values(_fn(tree, "compare_values"), out)
    tr_compare(_fn(tree, "compare"), out)
    tr_rec_inner(_fn(tree, "_compare_recursive"), out)
    tr_rec(_fn(tree, "compare_recursive"), out)
    tr_molrecs(_fn(tree, "compare_molrecs"), out)
    bm = _parse(repo, BASEMODELS)
    tr_protomodel(bm, out)
    tr_model_dict(bm, out)
    # the shared exclude set is named nowhere else in the package (a subclass Config overriding it, or code updating it)
    pkg = os.path.join(repo, "qcelemental")
    for root, _, files in os.walk(pkg):
        for f in files:
            path = os.path.join(root, f)
            if f.endswith(".py") and os.path.relpath(path, repo) != BASEMODELS and os.sep + "tests" + os.sep not in path:
                try:
                    with open(path) as fh:
                        if "serialize_default_excludes" in fh.read():
                            raise TranslateError(f"{os.path.relpath(path, repo)}: names serialize_default_excludes (outside the translated fragment)")
                except OSError as e:
                    raise TranslateError(f"cannot read {path}: {e}")
    # the public names must be these functions (qcelemental.compare_values etc.)
    init = _parse(repo, os.path.join("qcelemental", "__init__.py"))
    found = False
    for n in init.body:
        if isinstance(n, ast.ImportFrom) and n.module == "testing" and n.level == 1:
            names = {a.name for a in n.names if a.asname in (None, a.name)}
            if {"compare", "compare_recursive", "compare_values"} <= names:
                found = True
    if not found:
        raise TranslateError("qcelemental/__init__.py: compare, compare_recursive, compare_values are not re-exported from .testing")
    return out


def render(x):
    L = []
    w = L.append
    w("(* GENERATED by harness/translate/cmpglue.py from qcelemental/testing.py and models/basemodels.py -- do not edit *)")
    w("From Coq Require Import PrimFloat ZArith List Bool String.")
    w("Require Import QV.Common.Corr QV.Model.Compare QV.Model.ModelDict.")
    w("Import ListNotations.")
    w("Local Open Scope string_scope.")
    w("")
    atol, rtol, fl = x["values_defaults"]
    w("(* keyword defaults *)")
    w(f"Definition gen_values_defaults : cvopts :=\n  {{| atol := {cfloat(atol)}; rtol := {cfloat(rtol)}; equal_nan := {cbool(fl['equal_nan'])}; "
      f"cv_phase := {cbool(fl['equal_phase'])}; passnone := {cbool(fl['passnone'])} |}}.")
    w(f"Definition gen_values_ropts : ropts := {{| quiet := {cbool(fl['quiet'])}; return_message := {cbool(fl['return_message'])} |}}.")
    cf = x["compare_defaults"]
    w(f"Definition gen_compare_phase : bool := {cbool(cf['equal_phase'])}.")
    w(f"Definition gen_compare_ropts : ropts := {{| quiet := {cbool(cf['quiet'])}; return_message := {cbool(cf['return_message'])} |}}.")
    atol, rtol, fl = x["rec_defaults"]
    w(f"Definition gen_rec_defaults : cropts :=\n  {{| r_atol := {cfloat(atol)}; r_rtol := {cfloat(rtol)}; forgive := []; "
      f"r_phase := EpBool {cbool(fl['equal_phase'])} |}}.")
    w(f"Definition gen_rec_ropts : ropts := {{| quiet := {cbool(fl['quiet'])}; return_message := {cbool(fl['return_message'])} |}}.")
    atol, rtol, verbose, geoms, rm = x["mol_defaults"]
    w(f"Definition gen_mol_defaults : cropts :=\n  {{| r_atol := {cfloat(atol)}; r_rtol := {cfloat(rtol)}; forgive := []; r_phase := EpBool false |}}.")
    w(f"Definition gen_mol_verbose : Z := {int(verbose)}%Z.")
    w(f"Definition gen_mol_return_message : bool := {cbool(rm)}.")
    w(f"Definition gen_mol_relative_geoms : string := {coqrun.cstr(geoms)}.")
    w("")
    w("(* the isinstance ladder of _compare_recursive, in the code's order *)")
    w("Definition gen_ladder : list (list pycls * action) :=\n  [" + ";\n   ".join(
        "([" + "; ".join(cl) + "], " + act + ")" for cl, act in x["ladder"]) + "].")
    w("(* issubclass(type of the node, class) in the running Python / numpy *)")
    w("Definition gen_isinst (t : pyty) (c : pycls) : bool :=\n  match t, c with\n" + "\n".join(
        f"  | {t}, {c} => true" for t, c in x["isinst"]) + "\n  | _, _ => false\n  end.")
    w("Definition gen_dispatch (t : pyty) : action := dispatch gen_isinst gen_ladder t.")
    w("(* np.issubdtype(dtype, np.floating) *)")
    w("Definition gen_floating (dt : dtype) : bool :=\n  match dt with\n" + "\n".join(
        f"  | {k} => {cbool(v)}" for k, v in x["floating"]) + "\n  end.")
    w("(* compare_values(expected, computed, atol=atol, rtol=rtol, equal_phase=equal_phase, return_message=True, quiet=True):")
    w("   the other keywords take compare_values' defaults *)")
    w("Definition gen_leaf_cvopts (o : lopts) (ph : bool) : cvopts :=\n  {| atol := l_atol o; rtol := l_rtol o; "
      "equal_nan := equal_nan gen_values_defaults; cv_phase := ph; passnone := passnone gen_values_defaults |}.")
    w("")
    ops1, kws1, ops2, kws2 = x["isclose"]

    def close(name, fn, ops, kws, neg):
        arg = {"c": f"({neg} c)" if neg else "c", "e": "e"}
        a, b = arg[ops[0]], arg[ops[1]]
        return (f"Definition {name} (o : cvopts) := fun c e => {fn} ({kws['atol']} o) ({kws['rtol']} o) ({kws['equal_nan']} o) {a} {b}.")
    w("(* np.isclose(x, y, rtol=, atol=, equal_nan=): operand order and keywords of the first try and of the phase retry *)")
    w(close("gen_close_f", "isclose_f", ops1, kws1, None))
    w(close("gen_retry_f", "isclose_f", ops2, kws2, "PrimFloat.opp"))
    w(close("gen_close_c", "isclose_c", ops1, kws1, None))
    w(close("gen_retry_c", "isclose_c", ops2, kws2, "neg_c"))
    w("")
    w("(* node names, entry normalisation, match test, refusal *)")
    w(f"Definition gen_child (name key : string) : string := {x['child']}.")
    w(f"Definition gen_rootify_fg (s : string) : string := {x['rootify_fg']}.")
    w(f"Definition gen_rootify_ep (s : string) : string := {x['rootify_ep']}.")
    w(f"Definition gen_matches_fg (fg name : string) : bool := {x['matches_fg']}.")
    w(f"Definition gen_matches_ep (fg name : string) : bool := {x['matches_ep']}.")
    w(f"Definition gen_refuse_atol (a : float) : bool := {x['refuse']}.")
    w("")
    w("(* verdict expression at every `return return_handler(v, label, msg, return_message, quiet)` site, in order *)")
    w("Definition gen_values_returns : list retsite := [" + "; ".join(x["values_returns"]) + "].")
    w("Definition gen_compare_returns : list retsite := [" + "; ".join(x["compare_returns"]) + "].")
    w("Definition gen_rec_returns : list retsite := [" + "; ".join(x["rec_returns"]) + "].")
    w("")
    w("(* compare_molrecs: keys normalised by massage_dicts (in order), keywords forwarded to compare_recursive *)")
    w("Definition gen_massage_keys : list string := [" + "; ".join(coqrun.cstr(k) for k in x["massage_keys"]) + "].")
    w("Definition gen_mol_forward : list string := [" + "; ".join(coqrun.cstr(k) for k in x["mol_forward"]) + "].")
    w("Definition gen_mol_quiet (verbose : Z) : bool := Z.eqb verbose 0.")
    w("")
    w(render_dict(x))
    return "\n".join(L)


def generate(repo):
    x = extract(repo)
    text = render(x)
    coqrun.write_if_changed(os.path.join(coqrun.COQ, "Gen", "CompareGlue.v"), text)
    return x
