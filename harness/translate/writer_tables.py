"""C08/C07 — fail-closed translator: qcelemental/molparse/to_string.py -> coq/Gen/WriterTables.v.

Extracted from the source text (Python `ast`; any unexpected shape raises TranslateError):
  * `default_units`
  * the unit-factor branch (stored unit x requested unit x input_units_to_au) as the Gallina function
    `gen_factor`
  * per dtype branch: atom_format / ghost_format (and whether the caller's argument is honoured), `umap`
    and how it is consulted, the `_atoms_formatter` call (separator 2, xyze), the lower-casing of atom
    lines, and the `data.keywords` dictionary (literal entries + the conditional additions).
The value of `constants.bohr2angstroms` is read from the imported package (exact binary64).
"""
import ast
import math
import os

from .. import coqrun
from ..coqrun import cstr, cbool


def _err(msg):
    from ..core import TranslateError
    raise TranslateError("to_string.py: " + msg)


def cb64(x):
    x = float(x)
    if not math.isfinite(x):
        raise ValueError("non-finite float has no b64 literal")
    neg = math.copysign(1.0, x) < 0
    n, d = abs(x).as_integer_ratio()
    e = -(d.bit_length() - 1)
    return f"(B64 {'true' if neg else 'false'} ({n})%Z ({e})%Z)"


def _dump(node):
    return ast.dump(node, annotate_fields=False)


def _expr(src):
    return _dump(ast.parse(src, mode="eval").body)


def _stmt(src):
    return _dump(ast.parse(src).body[0])


UNITS_LOWER = _expr("units.lower()")
E_MOLUNITS = _expr('molrec["units"]')
E_UNITS_CAP = _expr("units.capitalize()")
E_IUTAU_IN = _expr('"input_units_to_au" in molrec')
E_IUTAU = _expr('molrec["input_units_to_au"]')
E_B2A = _expr("constants.bohr2angstroms")
E_CONV = _expr('constants.conversion_factor(molrec["units"], units)')

KEXPRS = {
    _expr('int(molrec["molecular_charge"])'): "KCharge",
    _expr('molrec["molecular_multiplicity"]'): "KMult",
    _expr('molrec["molecular_multiplicity"] - 1'): "KMultM1",
    _expr("umap.get(units.lower())"): "KUnitsGet",
    _expr("umap[units.lower()]"): "KUnitsIdx",
    _expr('molrec["fix_com"]'): "KFixCom",
    _expr('molrec["fix_orientation"] or molrec["fix_com"]'): "KFixOrientOrCom",
    _expr('"\\n".join(atoms)'): "KCoords",
}
KCONDS = {
    _expr('molrec["molecular_multiplicity"] != 1'): "CMultNe1",
    _expr('"fix_symmetry" in molrec.keys() and molrec["fix_symmetry"] == "c1"'): "CFixSymC1",
}


def _const_str(node, what):
    if isinstance(node, ast.Constant) and isinstance(node.value, str):
        return node.value
    if isinstance(node, ast.JoinedStr) and all(isinstance(v, ast.Constant) for v in node.values):
        return "".join(v.value for v in node.values)
    _err(f"{what}: expected a string constant, got {_dump(node)[:120]}")


def _factor_test(node):
    """a and b, each `molrec["units"] == "X"` or `units.capitalize() == "Y"`."""
    if isinstance(node, ast.BoolOp) and isinstance(node.op, ast.And):
        return "(" + " && ".join(_factor_test(v) for v in node.values) + ")"
    if isinstance(node, ast.Compare) and len(node.ops) == 1 and isinstance(node.ops[0], ast.Eq):
        lhs, rhs = _dump(node.left), node.comparators[0]
        s = _const_str(rhs, "unit-factor test")
        if lhs == E_MOLUNITS:
            return f"(s_eqb stored {cstr(s)})"
        if lhs == E_UNITS_CAP:
            return f"(s_eqb (s_capitalize units) {cstr(s)})"
    if _dump(node) == E_IUTAU_IN:
        return "(match iutau with Some _ => true | None => false end)"
    _err("unit-factor test of unexpected shape: " + _dump(node)[:200])


def _factor_value(node):
    d = _dump(node)
    if isinstance(node, ast.Constant) and isinstance(node.value, float):
        return cb64(node.value)
    if d == E_B2A:
        return "c_bohr2angstroms"
    if d == E_IUTAU:
        return "(match iutau with Some v => v | None => B64 false 0 0 end)"
    if d == E_CONV:
        return "conv"
    if isinstance(node, ast.BinOp) and isinstance(node.op, ast.Div):
        return f"(b64div {_factor_value(node.left)} {_factor_value(node.right)})"
    if isinstance(node, ast.BinOp) and isinstance(node.op, ast.Mult):
        return f"(b64mul {_factor_value(node.left)} {_factor_value(node.right)})"
    _err("unit-factor value of unexpected shape: " + d[:200])


def _factor_body(stmts):
    if len(stmts) != 1:
        _err("unit-factor branch body is not a single statement")
    st = stmts[0]
    if isinstance(st, ast.Assign) and len(st.targets) == 1 and _dump(st.targets[0]) == _dump(ast.Name("factor", ast.Store())):
        return _factor_value(st.value)
    if isinstance(st, ast.If):
        return _factor_if(st)
    _err("unit-factor branch statement of unexpected shape: " + _dump(st)[:200])


def _factor_if(node):
    if not node.orelse:
        _err("unit-factor if without else")
    return f"(if {_factor_test(node.test)} then {_factor_body(node.body)}\n   else {_factor_body(node.orelse)})"


def _dtype_names(test):
    """`dtype in ["a", "b"]` or `dtype == "a"`."""
    if isinstance(test, ast.Compare) and len(test.ops) == 1 and isinstance(test.left, ast.Name) and test.left.id == "dtype":
        c = test.comparators[0]
        if isinstance(test.ops[0], ast.Eq):
            return [_const_str(c, "dtype test")]
        if isinstance(test.ops[0], ast.In) and isinstance(c, ast.List):
            return [_const_str(e, "dtype test") for e in c.elts]
    _err("dtype dispatch test of unexpected shape: " + _dump(test)[:200])


def _format_assign(value, argname):
    """-> (default string, mode)"""
    if isinstance(value, (ast.Constant, ast.JoinedStr)):
        return _const_str(value, argname), "FFixed"
    if isinstance(value, ast.IfExp):
        want = _expr(f"X if {argname} is None else {argname}")
        got = _dump(ast.IfExp(value.test, ast.Name("X", ast.Load()), value.orelse))
        if got == want:
            return _const_str(value.body, argname), "FIfNone"
    if isinstance(value, ast.BoolOp) and isinstance(value.op, ast.Or) and len(value.values) == 2 \
            and _dump(value.values[0]) == _dump(ast.Name(argname, ast.Load())):
        return _const_str(value.values[1], argname), "FOr"
    _err(f"{argname} assignment of unexpected shape: " + _dump(value)[:200])


class _Parents(ast.NodeVisitor):
    def __init__(self):
        self.parent = {}

    def generic_visit(self, node):
        for ch in ast.iter_child_nodes(node):
            self.parent[ch] = node
        super().generic_visit(node)


def _kexpr(node):
    d = _dump(node)
    if d in KEXPRS:
        return KEXPRS[d]
    if isinstance(node, ast.Constant) and isinstance(node.value, bool):
        return f"(KConstB {cbool(node.value)})"
    if isinstance(node, ast.Constant) and isinstance(node.value, str):
        return f"(KConstS {cstr(node.value)})"
    _err("keyword value of unexpected shape: " + d[:200])


def _touches_keywords(node):
    return any(isinstance(n, ast.Attribute) and n.attr == "keywords" for n in ast.walk(node))


def _branch(names, body, default_units):
    ent = {"afmt": ("", "FAbsent"), "gfmt": ("", "FAbsent"), "umap": [], "umode": "UNoMap", "formatter": False,
           "xyze": False, "lower": False, "kw": []}
    mod = ast.Module(body=body, type_ignores=[])
    par = _Parents()
    par.visit(mod)
    modes = set()
    nform = 0
    for node in ast.walk(mod):
        if isinstance(node, ast.Assign) and len(node.targets) == 1 and isinstance(node.targets[0], ast.Name):
            tgt = node.targets[0].id
            if tgt == "atom_format":
                if ent["afmt"][1] != "FAbsent":
                    _err(f"{names}: atom_format assigned twice")
                ent["afmt"] = _format_assign(node.value, "atom_format")
            elif tgt == "ghost_format":
                if ent["gfmt"][1] != "FAbsent":
                    _err(f"{names}: ghost_format assigned twice")
                ent["gfmt"] = _format_assign(node.value, "ghost_format")
            elif tgt == "umap":
                if ent["umap"] or not isinstance(node.value, ast.Dict):
                    _err(f"{names}: umap of unexpected shape")
                ent["umap"] = [(_const_str(k, "umap key"), _const_str(v, "umap value"))
                               for k, v in zip(node.value.keys, node.value.values)]
                if not ent["umap"]:
                    _err(f"{names}: empty umap")
            elif tgt == "atoms":
                d = _dump(node)
                if d == _stmt("atoms = [at.lower() for at in atoms]"):
                    ent["lower"] = True
                elif isinstance(node.value, ast.Call) and isinstance(node.value.func, ast.Name) and node.value.func.id == "_atoms_formatter":
                    call = node.value
                    want = [_dump(ast.Name(n, ast.Load())) for n in ("molrec", "geom", "atom_format", "ghost_format", "width", "prec")]
                    got = [_dump(a) for a in call.args]
                    if got[:6] != want or len(call.args) != 7 or not (isinstance(call.args[6], ast.Constant) and call.args[6].value == 2):
                        _err(f"{names}: _atoms_formatter call of unexpected shape")
                    for kw in call.keywords:
                        if kw.arg == "xyze" and isinstance(kw.value, ast.Constant) and isinstance(kw.value.value, bool):
                            ent["xyze"] = kw.value.value
                        else:
                            _err(f"{names}: _atoms_formatter keyword of unexpected shape")
                    nform += 1
                else:
                    _err(f"{names}: assignment to atoms of unexpected shape")
        if isinstance(node, ast.Name) and node.id == "umap" and isinstance(node.ctx, ast.Load):
            p = par.parent.get(node)
            if isinstance(p, ast.Subscript) and _dump(p.slice) == UNITS_LOWER:
                modes.add("UIndex")
            elif isinstance(p, ast.Attribute) and p.attr == "get" and isinstance(par.parent.get(p), ast.Call):
                args = [_dump(a) for a in par.parent[p].args]
                if args == [UNITS_LOWER]:
                    modes.add("UGetNone")
                elif args == [UNITS_LOWER, UNITS_LOWER]:
                    modes.add("UGetSelf")
                else:
                    _err(f"{names}: umap.get with unexpected arguments")
            else:
                _err(f"{names}: umap used in an unexpected way")
        if isinstance(node, ast.Call) and isinstance(node.func, ast.Name) and node.func.id == "_atoms_formatter":
            if not isinstance(par.parent.get(node), ast.Assign):
                _err(f"{names}: _atoms_formatter result not assigned to atoms")
    if len(modes) > 1:
        _err(f"{names}: unit label looked up in more than one way: {sorted(modes)}")
    if bool(modes) != bool(ent["umap"]):
        _err(f"{names}: umap defined but never consulted (or the reverse)")
    if modes:
        ent["umode"] = modes.pop()
    if nform > 1:
        _err(f"{names}: more than one _atoms_formatter call")
    ent["formatter"] = nform == 1
    if ent["formatter"] and (ent["afmt"][1] == "FAbsent" or ent["gfmt"][1] == "FAbsent"):
        _err(f"{names}: formatter called without atom_format/ghost_format being set")
    # keywords: top-level statements of the branch only
    kw_set = False
    for st in body:
        if not _touches_keywords(st):
            continue
        if isinstance(st, ast.Assign) and _dump(st.targets[0]) == _dump(ast.parse("data.keywords = 0").body[0].targets[0]):
            if not isinstance(st.value, ast.Dict):
                _err(f"{names}: data.keywords is not a dict literal")
            if kw_set:
                _err(f"{names}: data.keywords assigned twice")
            kw_set = True
            for k, v in zip(st.value.keys, st.value.values):
                ent["kw"].append(("CAlways", _const_str(k, "keyword name"), _kexpr(v)))
        elif isinstance(st, ast.If) and not st.orelse and _dump(st.test) in KCONDS:
            cond = KCONDS[_dump(st.test)]
            for sub in st.body:
                ok = (isinstance(sub, ast.Assign) and len(sub.targets) == 1 and isinstance(sub.targets[0], ast.Subscript)
                      and _dump(sub.targets[0].value) == _expr("data.keywords"))
                if not ok:
                    _err(f"{names}: conditional keyword statement of unexpected shape")
                ent["kw"].append((cond, _const_str(sub.targets[0].slice, "keyword name"), _kexpr(sub.value)))
        else:
            _err(f"{names}: statement touching data.keywords of unexpected shape: {_dump(st)[:160]}")
    keys = [k for _, k, _ in ent["kw"]]
    if len(set(keys)) != len(keys):
        _err(f"{names}: keyword assigned twice")
    out = []
    for n in names:
        if n not in default_units:
            _err(f"dtype {n} has a branch but no default unit")
        e = dict(ent)
        e["dtype"] = n
        e["default_units"] = default_units[n]
        out.append(e)
    return out


def extract(repo):
    path = os.path.join(repo, "qcelemental", "molparse", "to_string.py")
    with open(path) as fh:
        tree = ast.parse(fh.read())
    fn = [n for n in tree.body if isinstance(n, ast.FunctionDef) and n.name == "to_string"]
    if len(fn) != 1:
        _err("function to_string not found")
    fn = fn[0]
    argnames = [a.arg for a in fn.args.args + fn.args.kwonlyargs]
    if argnames != ["molrec", "dtype", "units", "atom_format", "ghost_format", "width", "prec", "return_data"]:
        _err(f"signature changed: {argnames}")
    defaults = [_dump(d) for d in fn.args.kw_defaults]
    if defaults != [_expr("None"), _expr("None"), _expr("17"), _expr("12"), _expr("False")]:
        _err("keyword defaults changed")
    body = fn.body
    default_units = None
    factor = None
    entries = []
    seen = {"lower": False, "units_none": False, "geom": False}
    for i, st in enumerate(body):
        if _dump(st) == _stmt("dtype = dtype.lower()"):
            seen["lower"] = True
        if isinstance(st, ast.Assign) and isinstance(st.targets[0], ast.Name) and st.targets[0].id == "default_units":
            if not isinstance(st.value, ast.Dict):
                _err("default_units is not a dict literal")
            default_units = {_const_str(k, "default_units key"): _const_str(v, "default_units value")
                             for k, v in zip(st.value.keys, st.value.values)}
        if isinstance(st, ast.If) and _dump(st) == _stmt("if units is None:\n    units = default_units[dtype]"):
            seen["units_none"] = True
        if isinstance(st, ast.If) and E_MOLUNITS in _dump(st.test) and factor is None:
            factor = _factor_if(st)
            nxt = body[i + 1] if i + 1 < len(body) else None
            if nxt is None or _dump(nxt) != _stmt('geom = np.asarray(molrec["geom"]).reshape((-1, 3)) * factor'):
                _err("the statement after the unit-factor branch is not `geom = ... * factor`")
            seen["geom"] = True
        if isinstance(st, ast.If) and isinstance(st.test, ast.Compare) and isinstance(st.test.left, ast.Name) \
                and st.test.left.id == "dtype" and not isinstance(st.test.ops[0], ast.NotIn):
            node = st
            while True:
                entries.extend(_branch(_dtype_names(node.test), node.body, default_units or {}))
                if len(node.orelse) == 1 and isinstance(node.orelse[0], ast.If):
                    node = node.orelse[0]
                else:
                    if not (len(node.orelse) == 1 and isinstance(node.orelse[0], ast.Raise)):
                        _err("dtype dispatch does not end in `raise KeyError`")
                    break
    if default_units is None or factor is None or not all(seen.values()):
        _err(f"expected statements missing: default_units={default_units is not None} factor={factor is not None} {seen}")
    names = [e["dtype"] for e in entries]
    if sorted(names) != sorted(default_units) or len(set(names)) != len(names):
        _err(f"dtype branches {sorted(names)} do not match default_units {sorted(default_units)}")
    # _atoms_formatter itself is modelled by hand; pin its signature
    af = [n for n in tree.body if isinstance(n, ast.FunctionDef) and n.name == "_atoms_formatter"]
    if len(af) != 1 or [a.arg for a in af[0].args.args] != ["molrec", "geom", "atom_format", "ghost_format", "width", "prec", "sp", "xyze"]:
        _err("_atoms_formatter signature changed")
    return {"default_units": default_units, "factor": factor, "entries": entries}


def render(info, b2a):
    def pair(kv):
        return f"({cstr(kv[0])}, {cstr(kv[1])})"

    def kw(t):
        return f"({t[0]}, {cstr(t[1])}, {t[2]})"

    ents = []
    for e in info["entries"]:
        ents.append(
            "  {| wt_dtype := %s; wt_default_units := %s;\n     wt_afmt := %s; wt_afmode := %s; wt_gfmt := %s; wt_gfmode := %s;\n"
            "     wt_umap := [%s]; wt_umode := %s; wt_formatter := %s; wt_xyze := %s; wt_lower := %s;\n     wt_kw := [%s] |}" % (
                cstr(e["dtype"]), cstr(e["default_units"]), cstr(e["afmt"][0]), e["afmt"][1], cstr(e["gfmt"][0]), e["gfmt"][1],
                "; ".join(pair(p) for p in e["umap"]), e["umode"], cbool(e["formatter"]), cbool(e["xyze"]), cbool(e["lower"]),
                "; ".join(kw(t) for t in e["kw"])))
    return (
        "(** GENERATED by harness/translate/writer_tables.py from qcelemental/molparse/to_string.py — do not edit. *)\n"
        "From Coq Require Import ZArith List String Ascii Bool.\n"
        "Require Import QV.Common.WText QV.Common.WBin64 QV.Model.WriterTypes.\n"
        "Import ListNotations.\nOpen Scope bool_scope.\n\n"
        f"(** qcelemental.constants.bohr2angstroms = {b2a!r} (exact binary64) *)\n"
        f"Definition c_bohr2angstroms : b64 := {cb64(b2a)}.\n\n"
        "(** the unit-factor branch: [stored] = molrec[\"units\"], [units] = requested unit, [iutau] = molrec.get(\"input_units_to_au\"),\n"
        "    [conv] = constants.conversion_factor(molrec[\"units\"], units) (external; evaluated by the harness) *)\n"
        "Definition gen_factor (stored units : string) (iutau : option b64) (conv : b64) : b64 :=\n  "
        + info["factor"] + ".\n\n"
        "Definition wt_table : list wt_entry :=\n[\n" + ";\n".join(ents) + "\n].\n")


def generate(repo):
    info = extract(repo)
    import importlib
    qcel = importlib.import_module("qcelemental")
    if not os.path.realpath(qcel.__file__).startswith(os.path.realpath(repo) + os.sep):
        _err(f"qcelemental imported from {qcel.__file__}, not from {repo}")
    b2a = float(qcel.constants.bohr2angstroms)
    coqrun.write_if_changed(os.path.join(coqrun.COQ, "Gen", "WriterTables.v"), render(info, b2a))
    info["b2a"] = b2a
    return info
