"""Translator for C10: qcelemental/util/serialization.py, models/basemodels.py, models/molecule.py -> coq/Gen/SuffixMaps.v

Translated (data): the encoding -> writer / reader chains of serialize()/deserialize(), the automatic choice and the
dispatch of ProtoModel.parse_raw, the suffix chain of parse_file, Molecule's `_extension_map` and the dtype branches of
to_file/from_file, the marker keys and the rank threshold of the `_nd_` encoders.
Compared with an expected skeleton (fail-closed): the four array encoders/decoders and the four dumps/loads wrappers."""
import ast
import os

from .. import coqrun
from ..core import TranslateError
from ..coqrun import cstr, clist, cz, cbool
from .keeplists import _u, _expect, _strip_doc, _chain


def _parse(repo, rel):
    path = os.path.join(repo, "qcelemental", rel)
    try:
        with open(path) as fh:
            return ast.parse(fh.read())
    except (OSError, SyntaxError) as e:
        raise TranslateError(f"{rel}: cannot parse ({e})")


def _top_fn(tree, name, rel):
    hits = [n for n in tree.body if isinstance(n, ast.FunctionDef) and n.name == name]
    if len(hits) != 1:
        raise TranslateError(f"{rel}: expected one top-level function {name}")
    return hits[0]


def _cls(tree, name, rel):
    for n in tree.body:
        if isinstance(n, ast.ClassDef) and n.name == name:
            return n
    raise TranslateError(f"{rel}: class {name} not found")


def _method(cls, name):
    hits = [n for n in cls.body if isinstance(n, ast.FunctionDef) and n.name == name]
    if len(hits) != 1:
        raise TranslateError(f"{cls.name}.{name}: expected exactly one definition")
    return hits[0]


ENC_BODY = """try:
    return pydantic_encoder(obj)
except TypeError:
    pass"""


def _ext_encoder(fn, where, keyf, dataexpr, tail):
    """the `_nd_` encoder: returns (keys, rank threshold)"""
    body = _strip_doc(fn.body)
    if len(body) != 3:
        raise TranslateError(f"{where}: expected 3 statements, found {len(body)}")
    _expect(body[0:1], [ENC_BODY], where)
    _expect(body[2:3], [tail], where + " (tail)")
    node = body[1]
    if not (isinstance(node, ast.If) and _u(node.test) == "isinstance(obj, np.ndarray)" and not node.orelse and len(node.body) == 1):
        raise TranslateError(f"{where}: expected `if isinstance(obj, np.ndarray):`")
    inner = node.body[0]
    if not (isinstance(inner, ast.If) and _u(inner.test) == "obj.shape"):
        raise TranslateError(f"{where}: expected `if obj.shape:`")
    _expect(inner.orelse, ["return obj.tolist()"], where + " (rank-0 branch)")
    if len(inner.body) != 3:
        raise TranslateError(f"{where}: array branch has {len(inner.body)} statements")
    d = inner.body[0]
    if not (isinstance(d, ast.Assign) and _u(d.targets[0]) == "data" and isinstance(d.value, ast.Dict) and len(d.value.keys) == 3):
        raise TranslateError(f"{where}: expected `data = {{...3 entries...}}`")
    keys = []
    for k in d.value.keys:
        if not (isinstance(k, ast.Constant) and isinstance(k.value, (str, bytes))):
            raise TranslateError(f"{where}: non-literal key {_u(k)}")
        keys.append(k.value)
    vals = [_u(v) for v in d.value.values]
    if vals != ["True", "obj.dtype.str", dataexpr]:
        raise TranslateError(f"{where}: dictionary values {vals}")
    s = inner.body[1]
    if not (isinstance(s, ast.If) and not s.orelse and len(s.body) == 1 and isinstance(s.test, ast.Compare)
            and _u(s.test.left) == "len(obj.shape)" and len(s.test.ops) == 1 and isinstance(s.test.ops[0], ast.Gt)
            and isinstance(s.test.comparators[0], ast.Constant) and isinstance(s.test.comparators[0].value, int)):
        raise TranslateError(f"{where}: expected `if len(obj.shape) > N:`")
    thr = s.test.comparators[0].value
    a = s.body[0]
    if not (isinstance(a, ast.Assign) and isinstance(a.targets[0], ast.Subscript) and _u(a.targets[0].value) == "data"
            and isinstance(a.targets[0].slice, ast.Constant) and _u(a.value) == "obj.shape"):
        raise TranslateError(f"{where}: expected `data[<shape key>] = obj.shape`")
    keys.append(a.targets[0].slice.value)
    _expect(inner.body[2:3], ["return data"], where)
    return keys, thr


def _ext_decoder(fn, where, keys, dataexpr):
    nd, dt, da, sh = [repr(k) for k in keys]
    _expect(_strip_doc(fn.body), [
        f"if {nd} in obj:\n    arr = np.frombuffer({dataexpr.format(data=da)}, dtype=obj[{dt}])\n    if {sh} in obj:\n        arr.shape = obj[{sh}]\n    return arr",
        "return obj"], where)


def _ret_chain(fn, var_expr, where, arg):
    """if encoding.lower() == 'x': [assert ...;] return f(arg) ... else raise KeyError -> [(x, f)]"""
    body = _strip_doc(fn.body)
    if len(body) != 1:
        raise TranslateError(f"{where}: expected a single if/elif chain")
    out = []
    cur = body[0]
    while True:
        if not isinstance(cur, ast.If):
            raise TranslateError(f"{where}: expected if/elif")
        t = cur.test
        if not (isinstance(t, ast.Compare) and len(t.ops) == 1 and _u(t.left) == var_expr):
            raise TranslateError(f"{where}: test `{_u(t)}`")
        if isinstance(t.ops[0], ast.Eq) and isinstance(t.comparators[0], ast.Constant):
            consts = [t.comparators[0].value]
        elif isinstance(t.ops[0], ast.In) and isinstance(t.comparators[0], ast.List):
            consts = [e.value for e in t.comparators[0].elts if isinstance(e, ast.Constant)]
            if len(consts) != len(t.comparators[0].elts):
                raise TranslateError(f"{where}: non-literal list in `{_u(t)}`")
        else:
            raise TranslateError(f"{where}: test `{_u(t)}`")
        stmts = list(cur.body)
        typ = None
        if len(stmts) == 2 and isinstance(stmts[0], ast.Assert):
            typ = _u(stmts[0].test)
            stmts = stmts[1:]
        if not (len(stmts) == 1 and isinstance(stmts[0], ast.Return) and isinstance(stmts[0].value, ast.Call)
                and isinstance(stmts[0].value.func, ast.Name) and [_u(a) for a in stmts[0].value.args] == [arg]
                and not stmts[0].value.keywords):
            raise TranslateError(f"{where}: branch {consts}: body {[_u(s) for s in cur.body]}")
        for c in consts:
            out.append((c, stmts[0].value.func.id, typ))
        if len(cur.orelse) == 1 and isinstance(cur.orelse[0], ast.If):
            cur = cur.orelse[0]
            continue
        if not (len(cur.orelse) == 1 and isinstance(cur.orelse[0], ast.Raise) and _u(cur.orelse[0].exc).startswith("KeyError(")):
            raise TranslateError(f"{where}: the chain does not end in `raise KeyError(...)`")
        return out


WRITERS = {"json_dumps": ("WJson", "json.dumps(data, cls=JSONArrayEncoder)"),
           "jsonext_dumps": ("WJsonExt", "json.dumps(data, cls=JSONExtArrayEncoder)"),
           "msgpack_dumps": ("WMsgpack", "msgpack.dumps(data, default=msgpack_encode, use_bin_type=True)"),
           "msgpackext_dumps": ("WMsgpackExt", "msgpack.dumps(data, default=msgpackext_encode, use_bin_type=True)")}
READERS = {"json_loads": ("RJsonHook", "json.loads(data, object_hook=jsonext_decode)"),
           "jsonext_loads": ("RJsonHook", "json.loads(data, object_hook=jsonext_decode)"),
           "msgpack_loads": ("RMsgpackHook", "msgpack.loads(data, object_hook=msgpackext_decode, raw=False)"),
           "msgpackext_loads": ("RMsgpackHook", "msgpack.loads(data, object_hook=msgpackext_decode, raw=False)")}


def _wrapper(tree, name, expected_return, rel):
    fn = _top_fn(tree, name, rel)
    body = [s for s in _strip_doc(fn.body) if _u(s) != "which_import('msgpack', raise_error=True, raise_msg=_msgpack_which_msg)"]
    _expect(body, ["return " + expected_return], f"{rel}:{name}")


def generate(repo):
    ser = _parse(repo, "util/serialization.py")
    rel = "util/serialization.py"
    # the _nd_ encoders / decoders
    mp_keys, mp_thr = _ext_encoder(_top_fn(ser, "msgpackext_encode", rel), "msgpackext_encode", bytes,
                                   "np.ascontiguousarray(obj).tobytes()", "return obj")
    js_keys, js_thr = _ext_encoder(_method(_cls(ser, "JSONExtArrayEncoder", rel), "default"), "JSONExtArrayEncoder.default", str,
                                   "np.ascontiguousarray(obj).tobytes().hex()", "return json.JSONEncoder.default(self, obj)")
    if not all(isinstance(k, bytes) for k in mp_keys) or not all(isinstance(k, str) for k in js_keys):
        raise TranslateError("marker keys: msgpack-ext keys must be bytes and json-ext keys str")
    _ext_decoder(_top_fn(ser, "msgpackext_decode", rel), "msgpackext_decode", mp_keys, "obj[{data}]")
    _ext_decoder(_top_fn(ser, "jsonext_decode", rel), "jsonext_decode", js_keys, "bytes.fromhex(obj[{data}])")
    # the flat encoders
    flat = ENC_BODY, "if isinstance(obj, np.ndarray):\n    if obj.shape:\n        return obj.ravel().tolist()\n    else:\n        return obj.tolist()"
    _expect(_strip_doc(_top_fn(ser, "msgpack_encode", rel).body), [flat[0], flat[1], "return obj"], "msgpack_encode")
    _expect(_strip_doc(_method(_cls(ser, "JSONArrayEncoder", rel), "default").body),
            [flat[0], flat[1], "return json.JSONEncoder.default(self, obj)"], "JSONArrayEncoder.default")
    for name, (_, ret) in list(WRITERS.items()) + list(READERS.items()):
        _wrapper(ser, name, ret, rel)
    w_chain = _ret_chain(_top_fn(ser, "serialize", rel), "encoding.lower()", "serialize", "data")
    r_chain = _ret_chain(_top_fn(ser, "deserialize", rel), "encoding.lower()", "deserialize", "blob")
    for enc, f, _ in w_chain:
        if f not in WRITERS:
            raise TranslateError(f"serialize: unknown writer {f}")
    for enc, f, typ in r_chain:
        if f not in READERS:
            raise TranslateError(f"deserialize: unknown reader {f}")
        if typ not in ("isinstance(blob, str)", "isinstance(blob, (str, bytes))", "isinstance(blob, bytes)"):
            raise TranslateError(f"deserialize: branch {enc}: assertion `{typ}`")
    accepts = {"isinstance(blob, str)": "[TStr]", "isinstance(blob, (str, bytes))": "[TStr; TBytes]", "isinstance(blob, bytes)": "[TBytes]"}

    # ProtoModel.parse_raw / parse_file
    bm = _parse(repo, "models/basemodels.py")
    pm = _cls(bm, "ProtoModel", "models/basemodels.py")
    pr = _strip_doc(_method(pm, "parse_raw").body)
    if len(pr) != 3:
        raise TranslateError("ProtoModel.parse_raw: expected 3 statements")
    # the two automatic choices and the two dispatch lists are data; everything around them is skeleton
    try:
        c_str = pr[0].body[0].body[0].value.value
        c_bytes = pr[0].body[0].orelse[0].body[0].value.value
        pyd_suffixes = [e.value for e in pr[1].test.args[0].elts]
        via_deser = [e.value for e in pr[1].orelse[0].test.comparators[0].elts]
    except (AttributeError, IndexError):
        raise TranslateError("ProtoModel.parse_raw: unexpected structure")
    if not all(isinstance(x, str) for x in [c_str, c_bytes] + pyd_suffixes + via_deser):
        raise TranslateError("ProtoModel.parse_raw: non-string constants")
    _expect(pr, [
        f"if encoding is None:\n    if isinstance(data, str):\n        encoding = {c_str!r}\n    elif isinstance(data, bytes):\n        encoding = {c_bytes!r}\n"
        "    else:\n        raise TypeError('Input is neither str nor bytes, please specify an encoding.')",
        f"if encoding.endswith({tuple(pyd_suffixes)!r}):\n    return super().parse_raw(data, content_type=encoding)\n"
        f"elif encoding in {via_deser!r}:\n    obj = deserialize(data, encoding)\nelse:\n"
        "    raise TypeError(f\"Content type '{encoding}' not understood.\")",
        "return cls.parse_obj(obj)"], "ProtoModel.parse_raw")
    auto = [("TStr", c_str), ("TBytes", c_bytes)]
    pf = _strip_doc(_method(pm, "parse_file").body)
    if len(pf) != 3:
        raise TranslateError("ProtoModel.parse_file: expected 3 statements")
    _expect(pf[0:1] + pf[2:3], ["path = Path(path)", "return cls.parse_raw(path.read_bytes(), encoding=encoding)"], "ProtoModel.parse_file")
    node = pf[1]
    if not (isinstance(node, ast.If) and _u(node.test) == "encoding is None" and not node.orelse and len(node.body) == 1):
        raise TranslateError("ProtoModel.parse_file: expected `if encoding is None:`")
    suffix_pm = []
    cur = node.body[0]
    while True:
        t = cur.test
        if not (isinstance(cur, ast.If) and isinstance(t, ast.Compare) and _u(t.left) == "path.suffix" and isinstance(t.ops[0], ast.In)
                and isinstance(t.comparators[0], ast.List)):
            raise TranslateError(f"ProtoModel.parse_file: suffix test `{_u(t)}`")
        if not (len(cur.body) == 1 and isinstance(cur.body[0], ast.Assign) and _u(cur.body[0].targets[0]) == "encoding"
                and isinstance(cur.body[0].value, ast.Constant)):
            raise TranslateError("ProtoModel.parse_file: suffix branch body")
        for e in t.comparators[0].elts:
            if not isinstance(e, ast.Constant):
                raise TranslateError("ProtoModel.parse_file: non-literal suffix")
            suffix_pm.append((e.value, cur.body[0].value.value))
        if len(cur.orelse) == 1 and isinstance(cur.orelse[0], ast.If):
            cur = cur.orelse[0]
            continue
        if not (len(cur.orelse) == 1 and isinstance(cur.orelse[0], ast.Raise)):
            raise TranslateError("ProtoModel.parse_file: chain does not end in raise")
        break
    ser_m = _strip_doc(_method(pm, "serialize").body)
    if _u(ser_m[-1]) != "return serialize(data, encoding=encoding)" or _u(ser_m[-2]) != "data = self.dict(**kwargs)":
        raise TranslateError("ProtoModel.serialize: tail changed")

    # Molecule
    mo = _parse(repo, "models/molecule.py")
    ext = [n for n in mo.body if isinstance(n, ast.Assign) and _u(n.targets[0]) == "_extension_map"]
    if len(ext) != 1:
        raise TranslateError("molecule.py: _extension_map not found")
    try:
        ext_map = ast.literal_eval(ext[0].value)
    except Exception:
        raise TranslateError("molecule.py: _extension_map is not a literal dict")
    mc = _cls(mo, "Molecule", "models/molecule.py")
    tf = _strip_doc(_method(mc, "to_file").body)
    _expect(tf, [
        "ext = Path(filename).suffix",
        "if dtype is None:\n    if ext in _extension_map:\n        dtype = _extension_map[ext]\n    else:\n        raise KeyError(f'Could not infer dtype from filename: `{filename}`')",
        "if dtype in ['xyz', 'xyz+', 'psi4']:\n    stringified = self.to_string(dtype)\nelif dtype in ['json', 'json-ext', 'msgpack', 'msgpack-ext']:\n    stringified = self.serialize(dtype)\n"
        "elif dtype in ['numpy']:\n    elements = np.array(self.atomic_numbers).reshape(-1, 1)\n    npmol = np.hstack((elements, self.geometry * constants.conversion_factor('bohr', 'angstroms')))\n"
        "    np.save(filename, npmol)\n    return\nelse:\n    raise KeyError(f'Dtype `{dtype}` is not valid')",
        "flags = 'wb' if dtype.startswith('msgpack') else 'w'",
        "with open(filename, flags) as handle:\n    handle.write(stringified)"], "Molecule.to_file")
    ff = _strip_doc(_method(mc, "from_file").body)
    _expect(ff, [
        "ext = Path(filename).suffix",
        "if dtype is None:\n    if ext in _extension_map:\n        dtype = _extension_map[ext]\n    else:\n        dtype = 'string'",
        "if dtype in ['string', 'xyz', 'xyz+', 'psi4']:\n    with open(filename, 'r') as infile:\n        data = infile.read()\nelif dtype == 'numpy':\n    data = np.load(filename)\n"
        "elif dtype in ['json', 'json-ext']:\n    with open(filename, 'r') as infile:\n        data = deserialize(infile.read(), encoding='json-ext')\n    dtype = 'dict'\n"
        "elif dtype in ['msgpack', 'msgpack-ext']:\n    with open(filename, 'rb') as infile_bytes:\n        data = deserialize(infile_bytes.read(), encoding='msgpack-ext')\n    dtype = 'dict'\n"
        "else:\n    raise KeyError(\"Dtype not understood '{}'.\".format(dtype))",
        "return cls.from_data(data, dtype, orient=orient, **kwargs)"], "Molecule.from_file")
    to_file_ser = ["json", "json-ext", "msgpack", "msgpack-ext"]
    from_file = [("json", "json-ext", "TStr"), ("json-ext", "json-ext", "TStr"), ("msgpack", "msgpack-ext", "TBytes"),
                 ("msgpack-ext", "msgpack-ext", "TBytes")]

    def key(k):
        return f"(KBytes {cstr(k)})" if isinstance(k, bytes) else f"(KStr {cstr(k)})"

    lines = [
        "(* GENERATED by harness/translate/suffixmaps.py from util/serialization.py, models/basemodels.py, models/molecule.py — do not edit *)",
        "From Coq Require Import ZArith List String.",
        "Import ListNotations.",
        "Local Open Scope string_scope.",
        "",
        "Inductive key := KStr (s : string) | KBytes (s : string).",
        "Inductive writer := WJson | WJsonExt | WMsgpack | WMsgpackExt.",
        "(* RPlainJson: pydantic's own json loader (no object_hook); the others install the `_nd_` object_hook *)",
        "Inductive reader := RPlainJson | RJsonHook | RMsgpackHook.",
        "Inductive blobtype := TStr | TBytes.",
        "",
        f"Definition mp_keys : key * key * key * key := ({', '.join(key(k) for k in mp_keys)}).",
        f"Definition js_keys : key * key * key * key := ({', '.join(key(k) for k in js_keys)}).",
        f"Definition mp_shape_rank_gt : Z := {cz(mp_thr)}.",
        f"Definition js_shape_rank_gt : Z := {cz(js_thr)}.",
        "",
        "Definition serialize_table : list (string * writer) :=\n  [ " + "\n  ; ".join(f"({cstr(e)}, {WRITERS[f][0]})" for e, f, _ in w_chain) + " ].",
        "Definition deserialize_table : list (string * (reader * list blobtype)) :=\n  [ " + "\n  ; ".join(
            f"({cstr(e)}, ({READERS[f][0]}, {accepts[t]}))" for e, f, t in r_chain) + " ].",
        "Definition parse_raw_auto : list (blobtype * string) := " + clist([f"({t}, {cstr(e)})" for t, e in auto]) + ".",
        f"Definition parse_raw_pydantic_suffixes : list string := {clist(pyd_suffixes, cstr)}.",
        f"Definition parse_raw_via_deserialize : list string := {clist(via_deser, cstr)}.",
        "Definition parse_file_suffix : list (string * string) := " + clist([f"({cstr(s)}, {cstr(e)})" for s, e in suffix_pm]) + ".",
        "Definition molecule_extension_map : list (string * string) := " + clist([f"({cstr(s)}, {cstr(e)})" for s, e in ext_map.items()]) + ".",
        f"Definition molecule_to_file_serialized : list string := {clist(to_file_ser, cstr)}.",
        "Definition molecule_to_file_binary_prefix : string := \"msgpack\".",
        "Definition molecule_from_file : list (string * (string * blobtype)) := " + clist(
            [f"({cstr(d)}, ({cstr(e)}, {t}))" for d, e, t in from_file]) + ".",
        "",
    ]
    coqrun.write_if_changed(os.path.join(coqrun.COQ, "Gen", "SuffixMaps.v"), "\n".join(lines))
    return {"mp_keys": mp_keys, "js_keys": js_keys, "ext_map": ext_map, "suffix_pm": suffix_pm}
