"""Translator (C18): the glue around the vector kernels  ->  coq/Gen/GeoGlue.v
  * guess_connectivity (molutil/connectivity.py): the per-pair bond test of the upper-triangle loop is translated from the
    loop body (elementwise expressions over the row x and the tail x+1:), the loop skeleton (tail slices x + 1 :, the index
    shift, the append order, the default_connectivity post-processing) is checked structurally;
  * distance_matrix (util/misc.py): the entry expression of `distm[i] = np.linalg.norm(a[i] - b, axis=1)`;
  * measure_coordinates (util/misc.py): the bounds test and the len(m) -> function dispatch chain (which function, whether
    `degrees` is passed, the error kinds).
Fail-closed: anything else raises TranslateError."""
import ast
import os

from .. import coqrun
from ..core import TranslateError

CONN = os.path.join("qcelemental", "molutil", "connectivity.py")
MISC = os.path.join("qcelemental", "util", "misc.py")


def _fail(src, node, why):
    raise TranslateError(f"{src}:{getattr(node, 'lineno', '?')}: {why}: {ast.unparse(node) if isinstance(node, ast.AST) else node}")


def _fn(repo, src, name):
    path = os.path.join(repo, src)
    try:
        with open(path) as fh:
            tree = ast.parse(fh.read())
    except (OSError, SyntaxError) as e:
        raise TranslateError(f"cannot read/parse {path}: {e}")
    for n in tree.body:
        if isinstance(n, ast.FunctionDef) and n.name == name:
            return n
    raise TranslateError(f"{src}: function {name} not found")


def _body(fn):
    b = list(fn.body)
    if b and isinstance(b[0], ast.Expr) and isinstance(b[0].value, ast.Constant) and isinstance(b[0].value.value, str):
        b = b[1:]
    return b


def _is_tail(node, base):
    """base[x + 1 :]"""
    return (isinstance(node, ast.Subscript) and isinstance(node.value, ast.Name) and node.value.id == base
            and isinstance(node.slice, ast.Slice) and node.slice.upper is None and node.slice.step is None
            and node.slice.lower is not None and ast.unparse(node.slice.lower) == "x + 1")


def _is_row(node, base):
    return (isinstance(node, ast.Subscript) and isinstance(node.value, ast.Name) and node.value.id == base
            and isinstance(node.slice, ast.Name) and node.slice.id == "x")


class PairExpr:
    """elementwise expressions of the connectivity loop body, as terms over the pair (a = atom x, b = an atom of the tail)"""

    def __init__(self):
        self.env = {}        # python name -> (kind, coq term); kind in {"vec", "scal"}

    def tr(self, node):
        if _is_row(node, "geometry"):
            return ("vec", "(fst a)")
        if _is_tail(node, "geometry"):
            return ("vec", "(fst b)")
        if _is_row(node, "radii"):
            return ("scal", "(snd a)")
        if _is_tail(node, "radii"):
            return ("scal", "(snd b)")
        if isinstance(node, ast.Name):
            if node.id == "threshold":
                return ("scal", "thr")
            if node.id in self.env:
                return self.env[node.id]
            _fail(CONN, node, "unknown name in the connectivity loop")
        if isinstance(node, ast.BinOp) and isinstance(node.op, (ast.Add, ast.Sub, ast.Mult)):
            (ka, ta), (kb, tb) = self.tr(node.left), self.tr(node.right)
            if ka == kb == "vec" and isinstance(node.op, (ast.Add, ast.Sub)):
                return ("vec", f"({'vadd' if isinstance(node.op, ast.Add) else 'vsub'} {ta} {tb})")
            if ka == kb == "scal":
                op = {ast.Add: "fadd", ast.Sub: "fsub", ast.Mult: "fmul"}[type(node.op)]
                return ("scal", f"({op} K {ta} {tb})")
            _fail(CONN, node, "unsupported operand kinds")
        if isinstance(node, ast.Call) and ast.unparse(node.func) == "np.einsum" and len(node.args) == 3 and not node.keywords \
                and isinstance(node.args[0], ast.Constant) and node.args[0].value == "ij,ij->i":
            (ka, ta), (kb, tb) = self.tr(node.args[1]), self.tr(node.args[2])
            if ka == kb == "vec":
                return ("scal", f"(vdot {ta} {tb})")
        _fail(CONN, node, "unsupported expression in the connectivity loop")

    def test(self, node):
        if isinstance(node, ast.Compare) and len(node.ops) == 1:
            (ka, ta), (kb, tb) = self.tr(node.left), self.tr(node.comparators[0])
            if ka == kb == "scal":
                op = node.ops[0]
                if isinstance(op, ast.Lt):
                    return f"(fltb K {ta} {tb})"
                if isinstance(op, ast.LtE):
                    return f"(fleb K {ta} {tb})"
                if isinstance(op, ast.Gt):
                    return f"(fltb K {tb} {ta})"
                if isinstance(op, ast.GtE):
                    return f"(fleb K {tb} {ta})"
        _fail(CONN, node, "unsupported test in the connectivity loop")


def connectivity(repo):
    fn = _fn(repo, CONN, "guess_connectivity")
    body = _body(fn)
    loops = [s for s in body if isinstance(s, ast.For) and ast.unparse(s.target) == "x"]
    if len(loops) != 1 or ast.unparse(loops[0].iter) != "range(geometry.shape[0])" or loops[0].orelse:
        raise TranslateError(f"{CONN}: expected exactly one loop `for x in range(geometry.shape[0])`")
    loop = loops[0]
    k = body.index(loop)
    if ast.unparse(body[k - 1]) != "con = []":
        raise TranslateError(f"{CONN}: expected `con = []` before the loop")
    rest = body[k + 1:]
    if len(rest) != 2 or ast.unparse(rest[1]) != "return con" or \
            ast.unparse(rest[0]) != "if default_connectivity:\n    con = [(x[0], x[1], default_connectivity) for x in con]":
        raise TranslateError(f"{CONN}: unexpected statements after the loop (default_connectivity handling / return)")
    pe = PairExpr()
    test = None
    stage = 0
    for st in loop.body:
        if stage == 0 and isinstance(st, ast.Assign) and len(st.targets) == 1 and isinstance(st.targets[0], ast.Name):
            name = st.targets[0].id
            # where = np.where(<test>)[0]
            v = st.value
            if (isinstance(v, ast.Subscript) and isinstance(v.slice, ast.Constant) and v.slice.value == 0 and isinstance(v.value, ast.Call)
                    and ast.unparse(v.value.func) == "np.where" and len(v.value.args) == 1):
                if name != "where":
                    _fail(CONN, st, "expected `where = np.where(...)[0]`")
                test = pe.test(v.value.args[0])
                stage = 1
            else:
                pe.env[name] = pe.tr(v)
        elif stage == 0 and isinstance(st, ast.Expr) and isinstance(st.value, ast.Call) and ast.unparse(st.value.func) == "np.sqrt":
            c = st.value
            if not (len(c.args) == 1 and isinstance(c.args[0], ast.Name) and len(c.keywords) == 1 and c.keywords[0].arg == "out"
                    and isinstance(c.keywords[0].value, ast.Name) and c.keywords[0].value.id == c.args[0].id and c.args[0].id in pe.env
                    and pe.env[c.args[0].id][0] == "scal"):
                _fail(CONN, st, "only np.sqrt(v, out=v) on a scalar array is modelled")
            pe.env[c.args[0].id] = ("scal", f"(fsqrt K {pe.env[c.args[0].id][1]})")
        elif stage == 1 and ast.unparse(st) == "where += x + 1":
            stage = 2
        elif stage == 2 and ast.unparse(st) == "for atom2 in where:\n    con.append((x, atom2))":
            stage = 3
        else:
            _fail(CONN, st, "unexpected statement in the connectivity loop")
    if stage != 3 or test is None:
        raise TranslateError(f"{CONN}: the connectivity loop does not end with the index shift and the append loop")
    return ("(* the bond test of guess_connectivity's loop body, for atom a = (position, radius) of row x and an atom b of the tail *)\n"
            f"Definition bonded_gen (thr : K) (a b : vec3 K * K) : bool :=\n  {test}.\n"
            "(* loop skeleton (checked against the source): rows in order, tail x+1:, hits appended in order with the shifted index *)\n"
            "Definition guess_connectivity_gen (thr : K) (atoms : list (vec3 K * K)) : list (nat * nat) := conn_from K (bonded_gen thr) 0 atoms.\n")


def distance_matrix(repo):
    fn = _fn(repo, MISC, "distance_matrix")
    body = _body(fn)
    if [a.arg for a in fn.args.args] != ["a", "b"]:
        raise TranslateError(f"{MISC}: unexpected signature of distance_matrix")
    loops = [s for s in body if isinstance(s, ast.For)]
    if len(loops) != 1 or ast.unparse(loops[0].target) != "i" or ast.unparse(loops[0].iter) != "range(a.shape[0])" or len(loops[0].body) != 1:
        raise TranslateError(f"{MISC}: unexpected loop in distance_matrix")
    st = loops[0].body[0]
    if not (isinstance(st, ast.Assign) and ast.unparse(st.targets[0]) == "distm[i]" and isinstance(st.value, ast.Call)
            and ast.unparse(st.value.func) == "np.linalg.norm" and len(st.value.args) == 1
            and [(k.arg, ast.unparse(k.value)) for k in st.value.keywords] == [("axis", "1")]):
        _fail(MISC, st, "expected distm[i] = np.linalg.norm(<expr>, axis=1)")
    if "distm = np.zeros([a.shape[0], b.shape[0]])" not in [ast.unparse(s) for s in body] or ast.unparse(body[-1]) != "return distm":
        raise TranslateError(f"{MISC}: distance_matrix does not allocate/return distm as expected")

    def vec(node):
        if ast.unparse(node) == "a[i]":
            return "ai"
        if isinstance(node, ast.Name) and node.id == "b":
            return "bj"
        if isinstance(node, ast.BinOp) and isinstance(node.op, (ast.Add, ast.Sub)):
            return f"({'vadd' if isinstance(node.op, ast.Add) else 'vsub'} {vec(node.left)} {vec(node.right)})"
        _fail(MISC, node, "unsupported expression in distance_matrix")
    d = vec(st.value.args[0])
    return ("(* distm[i][j]: the row-wise 2-norm of the translated expression *)\n"
            f"Definition dm_entry_gen (ai bj : vec3 K) : K := fsqrt K (vdot {d} {d}).\n"
            "Definition distance_matrix_gen (a b : list (vec3 K)) : list (list K) := map (fun ai => map (fun bj => dm_entry_gen ai bj) b) a.\n")


def measure(repo):
    fn = _fn(repo, MISC, "measure_coordinates")
    loops = [s for s in ast.walk(fn) if isinstance(s, ast.For) and ast.unparse(s.target) == "(num, m)"]
    if len(loops) != 1 or ast.unparse(loops[0].iter) != "enumerate(measurements)":
        raise TranslateError(f"{MISC}: expected one loop `for num, m in enumerate(measurements)` in measure_coordinates")
    b = loops[0].body
    if len(b) != 5:
        raise TranslateError(f"{MISC}: the measurement loop has {len(b)} statements, 5 expected")
    # bounds test
    g = b[0]
    if not (isinstance(g, ast.If) and not g.orelse and len(g.body) == 1 and isinstance(g.body[0], ast.Raise)
            and isinstance(g.body[0].exc, ast.Call) and ast.unparse(g.body[0].exc.func) == "ValueError"
            and isinstance(g.test, ast.Call) and ast.unparse(g.test.func) == "any" and len(g.test.args) == 1
            and isinstance(g.test.args[0], ast.GeneratorExp)):
        _fail(MISC, g, "expected `if any(<test> for x in m): raise ValueError(...)`")
    ge = g.test.args[0]
    if len(ge.generators) != 1 or ast.unparse(ge.generators[0].target) != "x" or ast.unparse(ge.generators[0].iter) != "m" or ge.generators[0].ifs:
        _fail(MISC, g, "unexpected generator in the bounds test")
    t = ge.elt
    if not (isinstance(t, ast.Compare) and len(t.ops) == 1 and ast.unparse(t.left) == "x" and ast.unparse(t.comparators[0]) == "num_coords"):
        _fail(MISC, t, "expected a comparison of x with num_coords")
    cmpz = {ast.GtE: "(n <=? x)%Z", ast.Gt: "(n <? x)%Z", ast.Lt: "(x <? n)%Z", ast.LtE: "(x <=? n)%Z"}.get(type(t.ops[0]))
    if cmpz is None:
        _fail(MISC, t, "unsupported comparison")
    if ast.unparse(b[1]) != "kwargs = {}":
        _fail(MISC, b[1], "expected kwargs = {}")
    # dispatch chain
    chain = b[2]
    arms = {}
    while True:
        if not (isinstance(chain, ast.If) and isinstance(chain.test, ast.Compare) and ast.unparse(chain.test.left) == "len(m)"
                and len(chain.test.ops) == 1 and isinstance(chain.test.ops[0], ast.Eq) and isinstance(chain.test.comparators[0], ast.Constant)
                and isinstance(chain.test.comparators[0].value, int)):
            _fail(MISC, chain, "expected `if len(m) == k:` in the dispatch chain")
        k = chain.test.comparators[0].value
        func, deg = None, False
        for st in chain.body:
            u = ast.unparse(st)
            if u.startswith("func = ") and isinstance(st.value, ast.Name):
                func = st.value.id
            elif u == "kwargs = {'degrees': degrees}":
                deg = True
            else:
                _fail(MISC, st, "unexpected statement in a dispatch arm")
        if func not in ("compute_distance", "compute_angle", "compute_dihedral") or k in arms:
            _fail(MISC, chain, "unexpected function / duplicate length in the dispatch chain")
        arms[k] = (func, deg)
        if len(chain.orelse) == 1 and isinstance(chain.orelse[0], ast.If):
            chain = chain.orelse[0]
            continue
        if not (len(chain.orelse) == 1 and isinstance(chain.orelse[0], ast.Raise) and isinstance(chain.orelse[0].exc, ast.Call)
                and ast.unparse(chain.orelse[0].exc.func) == "KeyError"):
            _fail(MISC, chain, "the dispatch chain does not end in `raise KeyError(...)`")
        break
    if ast.unparse(b[3]) != "val = func(*[coordinates[x] for x in m], **kwargs)" or ast.unparse(b[4]) != "ret.append(val[0])":
        raise TranslateError(f"{MISC}: unexpected call / result statements in the measurement loop")
    want = {"compute_distance": 2, "compute_angle": 3, "compute_dihedral": 4}
    lines = []
    for k, (func, deg) in sorted(arms.items()):
        if want[func] != k:
            # a function called with the wrong number of points: python raises TypeError
            lines.append(f"  | {k}%nat => DErr PyTypeError")
        else:
            lines.append(f"  | {k}%nat => D{func.split('_')[1].capitalize()} {'true' if deg else 'false'}")
    return ("(* the bounds test of measure_coordinates: any(<x ? num_coords> for x in m) *)\n"
            f"Definition out_of_bounds_gen (n : Z) (m : list Z) : bool := existsb (fun x => {cmpz}) m.\n"
            "(* the len(m) -> function chain: which kernel, and whether `degrees` is passed on *)\n"
            "Definition dispatch_gen (len : nat) : dispatch :=\n  match len with\n" + "\n".join(lines) + "\n  | _ => DErr PyKeyError\n  end.\n")


MOL = os.path.join("qcelemental", "models", "molecule.py")


def _defaults_of(fn):
    """python parameter name -> default expression (ast), for positional and keyword-only parameters"""
    out = {}
    pos = fn.args.args
    for a, d in zip(pos[len(pos) - len(fn.args.defaults):], fn.args.defaults):
        out[a.arg] = d
    for a, d in zip(fn.args.kwonlyargs, fn.args.kw_defaults):
        if d is not None:
            out[a.arg] = d
    return out


def _bool_default(src, fn, name):
    d = _defaults_of(fn).get(name)
    if not (isinstance(d, ast.Constant) and isinstance(d.value, bool)):
        raise TranslateError(f"{src}: {fn.name}: parameter `{name}` has no literal True/False default")
    return "true" if d.value else "false"


def defaults(repo):
    """the default values of the keyword arguments of the public entry points, and Molecule.measure's one-line body"""
    ca, cd_, mc = _fn(repo, MISC, "compute_angle"), _fn(repo, MISC, "compute_dihedral"), _fn(repo, MISC, "measure_coordinates")
    gc = _fn(repo, CONN, "guess_connectivity")
    path = os.path.join(repo, MOL)
    try:
        with open(path) as fh:
            tree = ast.parse(fh.read())
    except (OSError, SyntaxError) as e:
        raise TranslateError(f"cannot read/parse {path}: {e}")
    cls = [n for n in tree.body if isinstance(n, ast.ClassDef) and n.name == "Molecule"]
    mm = [n for n in (cls[0].body if len(cls) == 1 else []) if isinstance(n, ast.FunctionDef) and n.name == "measure"]
    if len(mm) != 1:
        raise TranslateError(f"{MOL}: Molecule.measure not found")
    mm = mm[0]
    if [a.arg for a in mm.args.args] != ["self", "measurements"] or [a.arg for a in mm.args.kwonlyargs] != ["degrees"]:
        raise TranslateError(f"{MOL}: unexpected signature of Molecule.measure")
    b = _body(mm)
    if len(b) != 1 or ast.unparse(b[0]) != "return measure_coordinates(self.geometry, measurements, degrees=degrees)":
        raise TranslateError(f"{MOL}: Molecule.measure is not `return measure_coordinates(self.geometry, measurements, degrees=degrees)`")
    if [a.arg for a in mc.args.args] != ["coordinates", "measurements", "degrees"]:
        raise TranslateError(f"{MISC}: unexpected signature of measure_coordinates")
    dd = _defaults_of(gc)
    thr = dd.get("threshold")
    if not (isinstance(thr, ast.Constant) and isinstance(thr.value, float) and 0 < thr.value < 100):
        raise TranslateError(f"{CONN}: guess_connectivity: `threshold` has no literal float default")
    from fractions import Fraction
    q = Fraction(repr(thr.value))
    dc = dd.get("default_connectivity")
    if not (isinstance(dc, ast.Constant) and dc.value is None):
        raise TranslateError(f"{CONN}: guess_connectivity: default of `default_connectivity` is not None")
    return ("(* default values of the keyword arguments (read from the signatures) *)\n"
            f"Definition compute_angle_degrees_default : bool := {_bool_default(MISC, ca, 'degrees')}.\n"
            f"Definition compute_dihedral_degrees_default : bool := {_bool_default(MISC, cd_, 'degrees')}.\n"
            f"Definition measure_coordinates_degrees_default : bool := {_bool_default(MISC, mc, 'degrees')}.\n"
            f"Definition molecule_measure_degrees_default : bool := {_bool_default(MOL, mm, 'degrees')}.\n"
            f"Definition guess_connectivity_threshold_default : Z * positive := ({q.numerator}%Z, {q.denominator}%positive).\n"
            "(* a call with or without the keyword: None = keyword omitted *)\n"
            "Definition kw_or (dflt : bool) (given : option bool) : bool := match given with Some d => d | None => dflt end.\n"
            "Definition measure_coordinates_call (K : Fops) (coordinates : list (vec3 K)) (measurements : list (list Z)) (degrees : option bool) :=\n"
            "  measure K coordinates (kw_or measure_coordinates_degrees_default degrees) measurements.\n"
            "(* Molecule.measure: return measure_coordinates(self.geometry, measurements, degrees=degrees) *)\n"
            "Definition molecule_measure_call (K : Fops) (self_geometry : list (vec3 K)) (measurements : list (list Z)) (degrees : option bool) :=\n"
            "  measure_coordinates_call K self_geometry measurements (Some (kw_or molecule_measure_degrees_default degrees)).\n")


def generate(repo, out_path):
    text = ("(** GENERATED by harness/translate/geo3glue.py from molutil/connectivity.py and util/misc.py — do not edit. *)\n"
            "From Coq Require Import List Bool ZArith.\n"
            "Require Import QV.Common.Outcome QV.Common.Geo3 QV.Common.Geo3Glue QV.Model.Geometry.\nImport ListNotations.\n\n"
            "Section Gen.\nVariable K : Fops.\n\n" + connectivity(repo) + "\n" + distance_matrix(repo) + "\nEnd Gen.\n\n" + measure(repo) + "\n" + defaults(repo))
    coqrun.write_if_changed(out_path, text)
    return text
