"""Translator (C18): the glue around the vector kernels  ->  coq/Gen/GeoGlue.v
  * guess_connectivity (molutil/connectivity.py): the per-pair bond test of the upper-triangle loop is translated from the
    loop body (elementwise expressions over the row x and the tail x+1:), the loop skeleton (tail slices x + 1 :, the index
    shift, the append order, the default_connectivity post-processing) is checked structurally;
  * distance_matrix (util/misc.py): the entry expression of `distm[i] = np.linalg.norm(a[i] - b, axis=1)`;
  * measure_coordinates (util/misc.py): the bounds test and the len(m) -> function dispatch chain (which function, whether
    `degrees` is passed, the error kinds).
Fail-closed: anything else raises TranslateError."""
import ast
import os

from .. import coqrun
from ..core import TranslateError

CONN = os.path.join("qcelemental", "molutil", "connectivity.py")
MISC = os.path.join("qcelemental", "util", "misc.py")


def _fail(src, node, why):
    raise TranslateError(f"{src}:{getattr(node, 'lineno', '?')}: {why}: {ast.unparse(node) if isinstance(node, ast.AST) else node}")


def _fn(repo, src, name):
    path = os.path.join(repo, src)
    try:
        with open(path) as fh:
            tree = ast.parse(fh.read())
    except (OSError, SyntaxError) as e:
        raise TranslateError(f"cannot read/parse {path}: {e}")
    for n in tree.body:
        if isinstance(n, ast.FunctionDef) and n.name == name:
            return n
    raise TranslateError(f"{src}: function {name} not found")


def _body(fn):
    b = list(fn.body)
    if b and isinstance(b[0], ast.Expr) and isinstance(b[0].value, ast.Constant) and isinstance(b[0].value.value, str):
        b = b[1:]
    return b


def _is_tail(node, base):
    """base[x + 1 :]"""
    return (isinstance(node, ast.Subscript) and isinstance(node.value, ast.Name) and node.value.id == base
            and isinstance(node.slice, ast.Slice) and node.slice.upper is None and node.slice.step is None
            and node.slice.lower is not None and ast.unparse(node.slice.lower) == "x + 1")


def _is_row(node, base):
    return (isinstance(node, ast.Subscript) and isinstance(node.value, ast.Name) and node.value.id == base
            and isinstance(node.slice, ast.Name) and node.slice.id == "x")


class PairExpr:
    """elementwise expressions of the connectivity loop body, as terms over the pair (a = atom x, b = an atom of the tail)"""

    def __init__(self):
        self.env = {}        # python name -> (kind, coq term); kind in {"vec", "scal"}

    def tr(self, node):
        if _is_row(node, "geometry"):
            return ("vec", "(fst a)")
        if _is_tail(node, "geometry"):
            return ("vec", "(fst b)")
        if _is_row(node, "radii"):
            return ("scal", "(snd a)")
        if _is_tail(node, "radii"):
            return ("scal", "(snd b)")
        if isinstance(node, ast.Name):
            if node.id == "threshold":
                return ("scal", "thr")
            if node.id in self.env:
                return self.env[node.id]
            _fail(CONN, node, "unknown name in the connectivity loop")
        if isinstance(node, ast.BinOp) and isinstance(node.op, (ast.Add, ast.Sub, ast.Mult)):
            (ka, ta), (kb, tb) = self.tr(node.left), self.tr(node.right)
            if ka == kb == "vec" and isinstance(node.op, (ast.Add, ast.Sub)):
                return ("vec", f"({'vadd' if isinstance(node.op, ast.Add) else 'vsub'} {ta} {tb})")
            if ka == kb == "scal":
                op = {ast.Add: "fadd", ast.Sub: "fsub", ast.Mult: "fmul"}[type(node.op)]
                return ("scal", f"({op} K {ta} {tb})")
            _fail(CONN, node, "unsupported operand kinds")
        if isinstance(node, ast.Call) and ast.unparse(node.func) == "np.einsum" and len(node.args) == 3 and not node.keywords \
                and isinstance(node.args[0], ast.Constant) and node.args[0].value == "ij,ij->i":
            (ka, ta), (kb, tb) = self.tr(node.args[1]), self.tr(node.args[2])
            if ka == kb == "vec":
                return ("scal", f"(vdot {ta} {tb})")
        _fail(CONN, node, "unsupported expression in the connectivity loop")

    def test(self, node):
        if isinstance(node, ast.Compare) and len(node.ops) == 1:
            (ka, ta), (kb, tb) = self.tr(node.left), self.tr(node.comparators[0])
            if ka == kb == "scal":
                op = node.ops[0]
                if isinstance(op, ast.Lt):
                    return f"(fltb K {ta} {tb})"
                if isinstance(op, ast.LtE):
                    return f"(fleb K {ta} {tb})"
                if isinstance(op, ast.Gt):
                    return f"(fltb K {tb} {ta})"
                if isinstance(op, ast.GtE):
                    return f"(fleb K {tb} {ta})"
        _fail(CONN, node, "unsupported test in the connectivity loop")


def connectivity(repo):
    fn = _fn(repo, CONN, "guess_connectivity")
    body = _body(fn)
    loops = [s for s in body if isinstance(s, ast.For) and ast.unparse(s.target) == "x"]
    if len(loops) != 1 or ast.unparse(loops[0].iter) != "range(geometry.shape[0])" or loops[0].orelse:
        raise TranslateError(f"{CONN}: expected exactly one loop `for x in range(geometry.shape[0])`")
    loop = loops[0]
    k = body.index(loop)
    if ast.unparse(body[k - 1]) != "con = []":
        raise TranslateError(f"{CONN}: expected `con = []` before the loop")
    # how the geometry and the radii are read, pinned statement by statement (the model takes positions and radii as data)
    pre = [ast.unparse(st) for st in body[:k - 1]]
    want_pre = ["geometry = np.asarray(geometry, dtype=float).reshape(-1, 3)", "radii = []",
                "for s in symbols:\n    try:\n        radii.append(covalentradii.get(s, missing=1.8))\n    except NotAnElementError:\n        radii.append(1.8)",
                "radii = np.array(radii)"]
    if pre != want_pre:
        diff = [a for a, w in zip(pre + [""] * 5, want_pre + [""] * 5) if a != w][:1]
        raise TranslateError(f"{CONN}: guess_connectivity: the statements before the loop are not the expected ones (geometry as (n,3) floats; "
                             f"radii from covalentradii.get(s, missing=1.8), 1.8 for non-elements): {diff}")
    rest = body[k + 1:]
    if len(rest) != 2 or ast.unparse(rest[1]) != "return con" or \
            ast.unparse(rest[0]) != "if default_connectivity:\n    con = [(x[0], x[1], default_connectivity) for x in con]":
        raise TranslateError(f"{CONN}: unexpected statements after the loop (default_connectivity handling / return)")
    pe = PairExpr()
    test = None
    stage = 0
    for st in loop.body:
        if stage == 0 and isinstance(st, ast.Assign) and len(st.targets) == 1 and isinstance(st.targets[0], ast.Name):
            name = st.targets[0].id
            # where = np.where(<test>)[0]
            v = st.value
            if (isinstance(v, ast.Subscript) and isinstance(v.slice, ast.Constant) and v.slice.value == 0 and isinstance(v.value, ast.Call)
                    and ast.unparse(v.value.func) == "np.where" and len(v.value.args) == 1):
                if name != "where":
                    _fail(CONN, st, "expected `where = np.where(...)[0]`")
                test = pe.test(v.value.args[0])
                stage = 1
            else:
                pe.env[name] = pe.tr(v)
        elif stage == 0 and isinstance(st, ast.Expr) and isinstance(st.value, ast.Call) and ast.unparse(st.value.func) == "np.sqrt":
            c = st.value
            if not (len(c.args) == 1 and isinstance(c.args[0], ast.Name) and len(c.keywords) == 1 and c.keywords[0].arg == "out"
                    and isinstance(c.keywords[0].value, ast.Name) and c.keywords[0].value.id == c.args[0].id and c.args[0].id in pe.env
                    and pe.env[c.args[0].id][0] == "scal"):
                _fail(CONN, st, "only np.sqrt(v, out=v) on a scalar array is modelled")
            pe.env[c.args[0].id] = ("scal", f"(fsqrt K {pe.env[c.args[0].id][1]})")
        elif stage == 1 and ast.unparse(st) == "where += x + 1":
            stage = 2
        elif stage == 2 and ast.unparse(st) == "for atom2 in where:\n    con.append((x, atom2))":
            stage = 3
        else:
            _fail(CONN, st, "unexpected statement in the connectivity loop")
    if stage != 3 or test is None:
        raise TranslateError(f"{CONN}: the connectivity loop does not end with the index shift and the append loop")
    return ("(* the bond test of guess_connectivity's loop body, for atom a = (position, radius) of row x and an atom b of the tail *)\n"
            f"Definition bonded_gen (thr : K) (a b : vec3 K * K) : bool :=\n  {test}.\n"
            "(* loop skeleton (checked against the source): rows in order, tail x+1:, hits appended in order with the shifted index *)\n"
            "Definition guess_connectivity_gen (thr : K) (atoms : list (vec3 K * K)) : list (nat * nat) := conn_from K (bonded_gen thr) 0 atoms.\n")


def distance_matrix(repo):
    fn = _fn(repo, MISC, "distance_matrix")
    body = _body(fn)
    if [a.arg for a in fn.args.args] != ["a", "b"]:
        raise TranslateError(f"{MISC}: unexpected signature of distance_matrix")
    loops = [s for s in body if isinstance(s, ast.For)]
    if len(loops) != 1 or ast.unparse(loops[0].target) != "i" or ast.unparse(loops[0].iter) != "range(a.shape[0])" or len(loops[0].body) != 1:
        raise TranslateError(f"{MISC}: unexpected loop in distance_matrix")
    st = loops[0].body[0]
    if not (isinstance(st, ast.Assign) and ast.unparse(st.targets[0]) == "distm[i]" and isinstance(st.value, ast.Call)
            and ast.unparse(st.value.func) == "np.linalg.norm" and len(st.value.args) == 1
            and [(k.arg, ast.unparse(k.value)) for k in st.value.keywords] == [("axis", "1")]):
        _fail(MISC, st, "expected distm[i] = np.linalg.norm(<expr>, axis=1)")
    if "distm = np.zeros([a.shape[0], b.shape[0]])" not in [ast.unparse(s) for s in body] or ast.unparse(body[-1]) != "return distm":
        raise TranslateError(f"{MISC}: distance_matrix does not allocate/return distm as expected")
    if [ast.unparse(st) for st in body if st is not loops[0]] != ["assert a.shape[1] == b.shape[1], 'Inner dimensions do not match'",
                                                                 "distm = np.zeros([a.shape[0], b.shape[0]])", "return distm"] or body.index(loops[0]) != 2:
        raise TranslateError(f"{MISC}: distance_matrix: statements other than the shape assertion, the allocation, the row loop and the return")

    def vec(node):
        if ast.unparse(node) == "a[i]":
            return "ai"
        if isinstance(node, ast.Name) and node.id == "b":
            return "bj"
        if isinstance(node, ast.BinOp) and isinstance(node.op, (ast.Add, ast.Sub)):
            return f"({'vadd' if isinstance(node.op, ast.Add) else 'vsub'} {vec(node.left)} {vec(node.right)})"
        _fail(MISC, node, "unsupported expression in distance_matrix")
    d = vec(st.value.args[0])
    return ("(* distm[i][j]: the row-wise 2-norm of the translated expression *)\n"
            f"Definition dm_entry_gen (ai bj : vec3 K) : K := fsqrt K (vdot {d} {d}).\n"
            "Definition distance_matrix_gen (a b : list (vec3 K)) : list (list K) := map (fun ai => map (fun bj => dm_entry_gen ai bj) b) a.\n")


def measure(repo):
    fn = _fn(repo, MISC, "measure_coordinates")
    loops = [s for s in ast.walk(fn) if isinstance(s, ast.For) and ast.unparse(s.target) == "(num, m)"]
    if len(loops) != 1 or ast.unparse(loops[0].iter) != "enumerate(measurements)":
        raise TranslateError(f"{MISC}: expected one loop `for num, m in enumerate(measurements)` in measure_coordinates")
    # the skeleton around the loop (how the coordinates are read, single/many wrapping), pinned statement by statement
    skel = [ast.unparse(st) for st in _body(fn) if st is not loops[0]]
    want_skel = ["coordinates = np.atleast_2d(coordinates)", "num_coords = coordinates.shape[0]", "single = False",
                 "if isinstance(measurements[0], int):\n    measurements = [measurements]\n    single = True", "ret = []",
                 "if single:\n    return ret[0]\nelse:\n    return ret"]
    if skel != want_skel or loops[0] not in _body(fn) or _body(fn).index(loops[0]) != 5:
        diff = [a for a, w in zip(skel + [""] * 6, want_skel + [""] * 6) if a != w][:1]
        raise TranslateError(f"{MISC}: measure_coordinates: the statements around the measurement loop are not the expected skeleton "
                             f"(coordinates = np.atleast_2d(coordinates); num_coords; single/many wrapping; return): {diff}")
    b = loops[0].body
    if len(b) != 5:
        raise TranslateError(f"{MISC}: the measurement loop has {len(b)} statements, 5 expected")
    # bounds test
    g = b[0]
    if not (isinstance(g, ast.If) and not g.orelse and len(g.body) == 1 and isinstance(g.body[0], ast.Raise)
            and isinstance(g.body[0].exc, ast.Call) and ast.unparse(g.body[0].exc.func) == "ValueError"
            and isinstance(g.test, ast.Call) and ast.unparse(g.test.func) == "any" and len(g.test.args) == 1
            and isinstance(g.test.args[0], ast.GeneratorExp)):
        _fail(MISC, g, "expected `if any(<test> for x in m): raise ValueError(...)`")
    ge = g.test.args[0]
    if len(ge.generators) != 1 or ast.unparse(ge.generators[0].target) != "x" or ast.unparse(ge.generators[0].iter) != "m" or ge.generators[0].ifs:
        _fail(MISC, g, "unexpected generator in the bounds test")
    t = ge.elt
    if not (isinstance(t, ast.Compare) and len(t.ops) == 1 and ast.unparse(t.left) == "x" and ast.unparse(t.comparators[0]) == "num_coords"):
        _fail(MISC, t, "expected a comparison of x with num_coords")
    cmpz = {ast.GtE: "(n <=? x)%Z", ast.Gt: "(n <? x)%Z", ast.Lt: "(x <? n)%Z", ast.LtE: "(x <=? n)%Z"}.get(type(t.ops[0]))
    if cmpz is None:
        _fail(MISC, t, "unsupported comparison")
    if ast.unparse(b[1]) != "kwargs = {}":
        _fail(MISC, b[1], "expected kwargs = {}")
    # dispatch chain
    chain = b[2]
    arms = {}
    while True:
        if not (isinstance(chain, ast.If) and isinstance(chain.test, ast.Compare) and ast.unparse(chain.test.left) == "len(m)"
                and len(chain.test.ops) == 1 and isinstance(chain.test.ops[0], ast.Eq) and isinstance(chain.test.comparators[0], ast.Constant)
                and isinstance(chain.test.comparators[0].value, int)):
            _fail(MISC, chain, "expected `if len(m) == k:` in the dispatch chain")
        k = chain.test.comparators[0].value
        func, deg = None, False
        for st in chain.body:
            u = ast.unparse(st)
            if u.startswith("func = ") and isinstance(st.value, ast.Name):
                func = st.value.id
            elif u == "kwargs = {'degrees': degrees}":
                deg = True
            else:
                _fail(MISC, st, "unexpected statement in a dispatch arm")
        if func not in ("compute_distance", "compute_angle", "compute_dihedral") or k in arms:
            _fail(MISC, chain, "unexpected function / duplicate length in the dispatch chain")
        arms[k] = (func, deg)
        if len(chain.orelse) == 1 and isinstance(chain.orelse[0], ast.If):
            chain = chain.orelse[0]
            continue
        if not (len(chain.orelse) == 1 and isinstance(chain.orelse[0], ast.Raise) and isinstance(chain.orelse[0].exc, ast.Call)
                and ast.unparse(chain.orelse[0].exc.func) == "KeyError"):
            _fail(MISC, chain, "the dispatch chain does not end in `raise KeyError(...)`")
        break
    if ast.unparse(b[3]) != "val = func(*[coordinates[x] for x in m], **kwargs)" or ast.unparse(b[4]) != "ret.append(val[0])":
        raise TranslateError(f"{MISC}: unexpected call / result statements in the measurement loop")
    want = {"compute_distance": 2, "compute_angle": 3, "compute_dihedral": 4}
    lines = []
    for k, (func, deg) in sorted(arms.items()):
        if want[func] != k:
            # a function called with the wrong number of points: python raises TypeError
            lines.append(f"  | {k}%nat => DErr PyTypeError")
        else:
            lines.append(f"  | {k}%nat => D{func.split('_')[1].capitalize()} {'true' if deg else 'false'}")
    return ("(* the bounds test of measure_coordinates: any(<x ? num_coords> for x in m) *)\n"
            f"Definition out_of_bounds_gen (n : Z) (m : list Z) : bool := existsb (fun x => {cmpz}) m.\n"
            "(* the len(m) -> function chain: which kernel, and whether `degrees` is passed on *)\n"
            "Definition dispatch_gen (len : nat) : dispatch :=\n  match len with\n" + "\n".join(lines) + "\n  | _ => DErr PyKeyError\n  end.\n")


MOL = os.path.join("qcelemental", "models", "molecule.py")


def _defaults_of(fn):
    """python parameter name -> default expression (ast), for positional and keyword-only parameters"""
    out = {}
    pos = fn.args.args
    for a, d in zip(pos[len(pos) - len(fn.args.defaults):], fn.args.defaults):
        out[a.arg] = d
    for a, d in zip(fn.args.kwonlyargs, fn.args.kw_defaults):
        if d is not None:
            out[a.arg] = d
    return out


def _bool_default(src, fn, name):
    d = _defaults_of(fn).get(name)
    if not (isinstance(d, ast.Constant) and isinstance(d.value, bool)):
        raise TranslateError(f"{src}: {fn.name}: parameter `{name}` has no literal True/False default")
    return "true" if d.value else "false"


def defaults(repo):
    """the default values of the keyword arguments of the public entry points, and Molecule.measure's one-line body"""
    ca, cd_, mc = _fn(repo, MISC, "compute_angle"), _fn(repo, MISC, "compute_dihedral"), _fn(repo, MISC, "measure_coordinates")
    gc = _fn(repo, CONN, "guess_connectivity")
    path = os.path.join(repo, MOL)
    try:
        with open(path) as fh:
            tree = ast.parse(fh.read())
    except (OSError, SyntaxError) as e:
        raise TranslateError(f"cannot read/parse {path}: {e}")
    cls = [n for n in tree.body if isinstance(n, ast.ClassDef) and n.name == "Molecule"]
    mm = [n for n in (cls[0].body if len(cls) == 1 else []) if isinstance(n, ast.FunctionDef) and n.name == "measure"]
    if len(mm) != 1:
        raise TranslateError(f"{MOL}: Molecule.measure not found")
    mm = mm[0]
    if [a.arg for a in mm.args.args] != ["self", "measurements"] or [a.arg for a in mm.args.kwonlyargs] != ["degrees"]:
        raise TranslateError(f"{MOL}: unexpected signature of Molecule.measure")
    b = _body(mm)
    if len(b) != 1 or ast.unparse(b[0]) != "return measure_coordinates(self.geometry, measurements, degrees=degrees)":
        raise TranslateError(f"{MOL}: Molecule.measure is not `return measure_coordinates(self.geometry, measurements, degrees=degrees)`")
    if [a.arg for a in mc.args.args] != ["coordinates", "measurements", "degrees"]:
        raise TranslateError(f"{MISC}: unexpected signature of measure_coordinates")
    dd = _defaults_of(gc)
    thr = dd.get("threshold")
    if not (isinstance(thr, ast.Constant) and isinstance(thr.value, float) and 0 < thr.value < 100):
        raise TranslateError(f"{CONN}: guess_connectivity: `threshold` has no literal float default")
    from fractions import Fraction
    q = Fraction(repr(thr.value))
    dc = dd.get("default_connectivity")
    if not (isinstance(dc, ast.Constant) and dc.value is None):
        raise TranslateError(f"{CONN}: guess_connectivity: default of `default_connectivity` is not None")
    return ("(* default values of the keyword arguments (read from the signatures) *)\n"
            f"Definition compute_angle_degrees_default : bool := {_bool_default(MISC, ca, 'degrees')}.\n"
            f"Definition compute_dihedral_degrees_default : bool := {_bool_default(MISC, cd_, 'degrees')}.\n"
            f"Definition measure_coordinates_degrees_default : bool := {_bool_default(MISC, mc, 'degrees')}.\n"
            f"Definition molecule_measure_degrees_default : bool := {_bool_default(MOL, mm, 'degrees')}.\n"
            f"Definition guess_connectivity_threshold_default : Z * positive := ({q.numerator}%Z, {q.denominator}%positive).\n"
            "(* a call with or without the keyword: None = keyword omitted *)\n"
            "Definition kw_or (dflt : bool) (given : option bool) : bool := match given with Some d => d | None => dflt end.\n"
            "Definition measure_coordinates_call (K : Fops) (coordinates : list (vec3 K)) (measurements : list (list Z)) (degrees : option bool) :=\n"
            "  measure K coordinates (kw_or measure_coordinates_degrees_default degrees) measurements.\n"
            "(* Molecule.measure: return measure_coordinates(self.geometry, measurements, degrees=degrees) *)\n"
            "Definition molecule_measure_call (K : Fops) (self_geometry : list (vec3 K)) (measurements : list (list Z)) (degrees : option bool) :=\n"
            "  measure_coordinates_call K self_geometry measurements (Some (kw_or molecule_measure_degrees_default degrees)).\n")


def wrappers(repo):
    """the single/many wrapping of measure_coordinates (which element of `measurements` is probed, which element of `ret` a single
    measurement returns) and the default_connectivity post-processing of guess_connectivity (which components of a bond are kept),
    translated from the statements around the loops (measure() / connectivity() have pinned the rest of them)"""
    fn = _fn(repo, MISC, "measure_coordinates")
    b = _body(fn)
    probe = [st for st in b if isinstance(st, ast.If) and isinstance(st.test, ast.Call) and ast.unparse(st.test.func) == "isinstance"]
    if len(probe) != 1:
        raise TranslateError(f"{MISC}: measure_coordinates: expected one `if isinstance(measurements[k], int):`")
    t = probe[0].test
    if not (len(t.args) == 2 and isinstance(t.args[0], ast.Subscript) and ast.unparse(t.args[0].value) == "measurements"
            and isinstance(t.args[0].slice, ast.Constant) and isinstance(t.args[0].slice.value, int) and t.args[0].slice.value >= 0
            and ast.unparse(t.args[1]) == "int" and not probe[0].orelse
            and [ast.unparse(x) for x in probe[0].body] == ["measurements = [measurements]", "single = True"]):
        _fail(MISC, probe[0], "unexpected single-measurement probe")
    kprobe = t.args[0].slice.value
    last = b[-1]
    if not (isinstance(last, ast.If) and ast.unparse(last.test) == "single" and len(last.body) == 1 and len(last.orelse) == 1
            and isinstance(last.body[0], ast.Return) and isinstance(last.body[0].value, ast.Subscript)
            and ast.unparse(last.body[0].value.value) == "ret" and isinstance(last.body[0].value.slice, ast.Constant)
            and isinstance(last.body[0].value.slice.value, int) and last.body[0].value.slice.value >= 0
            and ast.unparse(last.orelse[0]) == "return ret"):
        _fail(MISC, last, "expected `if single: return ret[k] else: return ret`")
    kret = last.body[0].value.slice.value
    gc = _fn(repo, CONN, "guess_connectivity")
    post = [st for st in _body(gc) if isinstance(st, ast.If) and ast.unparse(st.test) == "default_connectivity"]
    if len(post) != 1 or post[0].orelse or len(post[0].body) != 1:
        raise TranslateError(f"{CONN}: expected one `if default_connectivity:` statement")
    a = post[0].body[0]
    if not (isinstance(a, ast.Assign) and ast.unparse(a.targets[0]) == "con" and isinstance(a.value, ast.ListComp)
            and len(a.value.generators) == 1 and ast.unparse(a.value.generators[0].target) == "x" and ast.unparse(a.value.generators[0].iter) == "con"
            and not a.value.generators[0].ifs and isinstance(a.value.elt, ast.Tuple) and len(a.value.elt.elts) == 3):
        _fail(CONN, a, "expected con = [(x[i], x[j], default_connectivity) for x in con]")
    e0, e1, e2 = a.value.elt.elts
    sel = {"x[0]": "fst x", "x[1]": "snd x"}
    if ast.unparse(e0) not in sel or ast.unparse(e1) not in sel or ast.unparse(e2) != "default_connectivity":
        _fail(CONN, a, "unexpected components in the default_connectivity comprehension")
    return ("(* measure_coordinates: `if isinstance(measurements[%d], int): measurements = [measurements]; single = True` before the loop,\n"
            "   `if single: return ret[%d] else: return ret` after it; [run] is the loop over a list of measurements *)\n"
            "Definition measure_wrap_gen {V : Type} (run : list (list Z) -> outcome (list V)) (ms : measurements) : outcome (mresult V) :=\n"
            "  match ms with\n"
            "  | MOne m => match nth_error m %d with None => Err PyIndexError | Some _ =>\n"
            "      obind (run [m]) (fun ret => match nth_error ret %d with Some v => Ok (ROne v) | None => Err PyIndexError end) end\n"
            "  | MMany l => match nth_error l %d with None => Err PyIndexError | Some _ => obind (run l) (fun ret => Ok (RMany ret)) end\n"
            "  end.\n"
            "Definition measure_coordinates_entry_gen (K : Fops) (coordinates : list (vec3 K)) (ms : measurements) (degrees : option bool) :=\n"
            "  measure_wrap_gen (fun l => measure_coordinates_call K coordinates l degrees) ms.\n"
            "(* guess_connectivity: `if default_connectivity: con = [(%s, %s, default_connectivity) for x in con]` ([truthy] = Python truth of the value) *)\n"
            "Definition attach_default_gen {B : Type} (truthy : B -> bool) (dc : option B) (con : list (nat * nat)) : list (nat * nat * option B) :=\n"
            "  match dc with\n"
            "  | Some v => if truthy v then map (fun x => (%s, %s, Some v)) con else map (fun x => (fst x, snd x, None)) con\n"
            "  | None => map (fun x => (fst x, snd x, None)) con\n"
            "  end.\n") % (kprobe, kret, kprobe, kret, kprobe, ast.unparse(e0), ast.unparse(e1), sel[ast.unparse(e0)], sel[ast.unparse(e1)])


def generate(repo, out_path):
    text = ("(** GENERATED by harness/translate/geo3glue.py from molutil/connectivity.py and util/misc.py — do not edit. *)\n"
            "From Coq Require Import List Bool ZArith.\n"
            "Require Import QV.Common.Outcome QV.Common.Geo3 QV.Common.Geo3Glue QV.Model.Geometry.\nImport ListNotations.\n\n"
            "Section Gen.\nVariable K : Fops.\n\n" + connectivity(repo) + "\n" + distance_matrix(repo) + "\nEnd Gen.\n\n" + measure(repo) + "\n" + defaults(repo) + "\n" + wrappers(repo))
    coqrun.write_if_changed(out_path, text)
    return text
