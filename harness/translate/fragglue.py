"""Translator (C15): qcelemental/models/molecule.py + molutil/molecular_formula.py  ->  coq/Gen/FragGlue.v

The argument glue of the public entry points named in C15's `observe_at`, fail-closed (any AST shape not listed here
raises TranslateError):
  * Molecule.get_fragment(self, real, ghost=None, orient=False, group_fragments=True): the parameter list and the three
    defaults; the normalisation prelude `int -> [int]`, `ghost None -> []`; the overlap test raising TypeError; the
    constants appended for ghost fragments (`fragment_charges.append(0)`, `fragment_multiplicities.append(1)`) and the
    real flags (`real_atoms.append(True / False)`, `real_atoms.append(ifr in real)`); the totals of the grouped path
    (`sum(fragment_charges)`, `sum(x - 1 for x in fragment_multiplicities) + 1`, assigned before the ghost loop or after it —
    ghost fragments contribute 0 either way); `Molecule(orient=orient, **constructor_dict)`,
  * Molecule.nelectrons / nuclear_repulsion_energy(self, ifr=None) and their `ifr is None` / `ifr is not None` tests,
  * Molecule.get_molecular_formula(self, order="alphabetical", chgmult=False) calling
    molecular_formula_from_symbols(symbols=self.symbols, order=order),
  * molutil.molecular_formula_from_symbols(symbols, order="alphabetical"): `supported_orders`, `order.lower()`;
    order_molecular_formula(formula, order="alphabetical").
"""
import ast
import os

from .. import coqrun
from ..core import TranslateError


def _fn_args(fn, where):
    a = fn.args
    if a.vararg or a.kwarg or a.kwonlyargs or a.posonlyargs:
        raise TranslateError(f"{where}: unexpected parameter kinds")
    names = [x.arg for x in a.args]
    defaults = [None] * (len(names) - len(a.defaults)) + list(a.defaults)
    out = []
    for n, d in zip(names, defaults):
        if d is None:
            out.append((n, "required"))
        elif isinstance(d, ast.Constant) and (d.value is None or isinstance(d.value, (bool, str))):
            out.append((n, d.value))
        else:
            raise TranslateError(f"{where}: default of `{n}` is not a None / bool / string literal")
    return out


def _body_nodoc(fn):
    body = list(fn.body)
    if body and isinstance(body[0], ast.Expr) and isinstance(body[0].value, ast.Constant) and isinstance(body[0].value.value, str):
        body = body[1:]
    return body


PRELUDE = ("if isinstance(real, int):\n    real = [real]",
           "if isinstance(ghost, int):\n    ghost = [ghost]\nelif ghost is None:\n    ghost = []")
OVERLAP_TEST = "len(set(real) & set(ghost))"
TOTAL_C = "constructor_dict['molecular_charge'] = sum(fragment_charges)"
TOTAL_M = "constructor_dict['molecular_multiplicity'] = sum((x - 1 for x in fragment_multiplicities)) + 1"
CTOR_CALL = "return Molecule(orient=orient, **constructor_dict)"


def _appends(fn, listname):
    out = []
    for n in ast.walk(fn):
        if (isinstance(n, ast.Call) and isinstance(n.func, ast.Attribute) and n.func.attr == "append"
                and isinstance(n.func.value, ast.Name) and n.func.value.id == listname and len(n.args) == 1):
            out.append(n.args[0])
    return out


def parse(repo):
    info = {}
    with open(os.path.join(repo, "qcelemental", "models", "molecule.py")) as fh:
        tree = ast.parse(fh.read())
    cls = [n for n in tree.body if isinstance(n, ast.ClassDef) and n.name == "Molecule"]
    if len(cls) != 1:
        raise TranslateError("molecule.py: class Molecule not found")
    meth = {}
    for m in cls[0].body:
        if isinstance(m, ast.FunctionDef) and m.name in ("get_fragment", "nelectrons", "nuclear_repulsion_energy", "get_molecular_formula"):
            if m.name in meth:
                raise TranslateError(f"Molecule.{m.name} defined twice")
            if m.decorator_list:
                raise TranslateError(f"Molecule.{m.name}: unexpected decorator")
            meth[m.name] = m
    for k in ("get_fragment", "nelectrons", "nuclear_repulsion_energy", "get_molecular_formula"):
        if k not in meth:
            raise TranslateError(f"Molecule.{k} not found")

    # ---- get_fragment
    gf = meth["get_fragment"]
    args = _fn_args(gf, "Molecule.get_fragment")
    if [a for a, _ in args] != ["self", "real", "ghost", "orient", "group_fragments"]:
        raise TranslateError("Molecule.get_fragment: parameter list differs: " + repr(args))
    d = dict(args)
    if d["real"] != "required" or d["ghost"] is not None or not isinstance(d["orient"], bool) or not isinstance(d["group_fragments"], bool):
        raise TranslateError("Molecule.get_fragment: defaults differ from (required, None, <bool>, <bool>): " + repr(args))
    info["gf_default_orient"] = d["orient"]
    info["gf_default_group"] = d["group_fragments"]
    body = _body_nodoc(gf)
    if len(body) < 4 or tuple(ast.unparse(s) for s in body[:2]) != PRELUDE:
        raise TranslateError("Molecule.get_fragment: the normalisation of `real` / `ghost` differs from the modelled prelude:\n"
                             + "\n".join(ast.unparse(s) for s in body[:2]))
    ifs = [s for s in body if isinstance(s, ast.If) and ast.unparse(s.test) == OVERLAP_TEST]
    if len(ifs) != 1 or len(ifs[0].body) != 1 or not isinstance(ifs[0].body[0], ast.Raise) or ifs[0].orelse:
        raise TranslateError("Molecule.get_fragment: overlap test not found in the modelled form")
    exc = ifs[0].body[0].exc
    if not (isinstance(exc, ast.Call) and isinstance(exc.func, ast.Name) and exc.func.id == "TypeError"):
        raise TranslateError("Molecule.get_fragment: the overlap test does not raise TypeError")
    branch = [s for s in body if isinstance(s, ast.If) and ast.unparse(s.test) == "group_fragments"]
    if len(branch) != 1 or not branch[0].orelse:
        raise TranslateError("Molecule.get_fragment: `if group_fragments: ... else: ...` not found")
    grouped_src = [ast.unparse(s) for s in branch[0].body]
    if grouped_src.count(TOTAL_C) != 1 or grouped_src.count(TOTAL_M) != 1:
        raise TranslateError("Molecule.get_fragment: totals of the grouped path differ from sum / high-spin of fragment_charges / fragment_multiplicities")
    if any("molecular_charge" in ast.unparse(s) or "molecular_multiplicity" in ast.unparse(s) for s in branch[0].orelse):
        raise TranslateError("Molecule.get_fragment: the order-preserving path hands totals to the constructor")
    if ast.unparse(body[-1]) != CTOR_CALL:
        raise TranslateError("Molecule.get_fragment: last statement is not `" + CTOR_CALL + "`")
    fcs, fms, reals = set(), set(), set()
    for n in _appends(gf, "fragment_charges"):
        if isinstance(n, ast.Constant) and isinstance(n.value, int) and not isinstance(n.value, bool):
            fcs.add(n.value)
        elif ast.unparse(n) not in ("float(self.fragment_charges[frag])", "self.fragment_charges[ifr]"):
            raise TranslateError("Molecule.get_fragment: unexpected fragment charge " + ast.unparse(n))
    for n in _appends(gf, "fragment_multiplicities"):
        if isinstance(n, ast.Constant) and isinstance(n.value, int) and not isinstance(n.value, bool):
            fms.add(n.value)
        elif ast.unparse(n) not in ("self.fragment_multiplicities[frag]", "self.fragment_multiplicities[ifr]"):
            raise TranslateError("Molecule.get_fragment: unexpected fragment multiplicity " + ast.unparse(n))
    for n in _appends(gf, "real_atoms"):
        reals.add(ast.unparse(n))
    if len(fcs) != 1 or len(fms) != 1:
        raise TranslateError(f"Molecule.get_fragment: ghost fragments get charges {sorted(fcs)} / multiplicities {sorted(fms)}: expected one constant each")
    if reals != {"True", "False", "ifr in real"}:
        raise TranslateError("Molecule.get_fragment: real flags differ from True / False / `ifr in real`: " + repr(sorted(reals)))
    info["ghost_fc"] = fcs.pop()
    info["ghost_fm"] = fms.pop()

    # ---- nelectrons / nuclear_repulsion_energy
    for name, tests in (("nelectrons", {"ifr is None"}), ("nuclear_repulsion_energy", {"ifr is not None"})):
        a = _fn_args(meth[name], "Molecule." + name)
        if a != [("self", "required"), ("ifr", None)]:
            raise TranslateError(f"Molecule.{name}: parameters differ from (self, ifr=None): {a!r}")
        got = {ast.unparse(n.test) for n in ast.walk(meth[name]) if isinstance(n, ast.If)}
        if got != tests:
            raise TranslateError(f"Molecule.{name}: tests {sorted(got)} differ from {sorted(tests)}")

    # ---- get_molecular_formula
    mf = meth["get_molecular_formula"]
    a = _fn_args(mf, "Molecule.get_molecular_formula")
    if [x for x, _ in a] != ["self", "order", "chgmult"] or not isinstance(a[1][1], str) or not isinstance(a[2][1], bool) or a[1][1] == "required":
        raise TranslateError("Molecule.get_molecular_formula: parameters differ from (self, order=<str>, chgmult=<bool>): " + repr(a))
    info["formula_default_order"] = a[1][1]
    info["formula_default_chgmult"] = a[2][1]
    src = [ast.unparse(s) for s in _body_nodoc(mf)]
    if "formula = molecular_formula_from_symbols(symbols=self.symbols, order=order)" not in src:
        raise TranslateError("Molecule.get_molecular_formula: does not call molecular_formula_from_symbols(symbols=self.symbols, order=order)")
    want_tail = ["c, m = (self.molecular_charge, self.molecular_multiplicity)",
                 "if not chgmult or (c == 0.0 and m == 1):\n    return formula",
                 "if m > 1:\n    formula = f'{m}^{formula}'",
                 "if c < 0.0:\n    formula += abs(int(c)) * '-'\nelif c > 0.0:\n    formula += int(c) * '+'",
                 "return formula"]
    if src[-5:] != want_tail:
        raise TranslateError("Molecule.get_molecular_formula: charge / multiplicity decoration differs from the modelled form:\n" + "\n".join(src[-5:]))

    # ---- molutil/molecular_formula.py
    with open(os.path.join(repo, "qcelemental", "molutil", "molecular_formula.py")) as fh:
        tree2 = ast.parse(fh.read())
    fns = {n.name: n for n in tree2.body if isinstance(n, ast.FunctionDef)}
    for k in ("molecular_formula_from_symbols", "order_molecular_formula"):
        if k not in fns:
            raise TranslateError(f"molecular_formula.py: {k} not found")
    a = _fn_args(fns["molecular_formula_from_symbols"], "molecular_formula_from_symbols")
    if [x for x, _ in a] != ["symbols", "order"] or not isinstance(a[1][1], str) or a[1][1] == "required":
        raise TranslateError("molecular_formula_from_symbols: parameters differ from (symbols, order=<str>)")
    info["mffs_default_order"] = a[1][1]
    a = _fn_args(fns["order_molecular_formula"], "order_molecular_formula")
    if [x for x, _ in a] != ["formula", "order"] or not isinstance(a[1][1], str) or a[1][1] == "required":
        raise TranslateError("order_molecular_formula: parameters differ from (formula, order=<str>)")
    info["omf_default_order"] = a[1][1]
    body = _body_nodoc(fns["molecular_formula_from_symbols"])
    so = [s for s in body if isinstance(s, ast.Assign) and ast.unparse(s.targets[0]) == "supported_orders"]
    if len(so) != 1 or not isinstance(so[0].value, ast.List) or not all(isinstance(e, ast.Constant) and isinstance(e.value, str) for e in so[0].value.elts):
        raise TranslateError("molecular_formula_from_symbols: `supported_orders = [<strings>]` not found")
    info["supported_orders"] = [e.value for e in so[0].value.elts]
    src = [ast.unparse(s) for s in body]
    if "order = order.lower()" not in src or src.index("order = order.lower()") > [i for i, s in enumerate(src) if s.startswith("if order not in supported_orders")][0]:
        raise TranslateError("molecular_formula_from_symbols: `order = order.lower()` before the membership test not found")
    for v in info["supported_orders"] + [info["formula_default_order"], info["mffs_default_order"], info["omf_default_order"]]:
        if not all(32 <= ord(ch) < 127 and ch != '"' for ch in v):
            raise TranslateError("order name outside printable ASCII: " + repr(v))
    return info


def generate(repo):
    info = parse(repo)
    b = lambda x: "true" if x else "false"     # noqa: E731
    s = lambda x: '"' + x + '"%string'          # noqa: E731
    lines = [
        "(** GENERATED by harness/translate/fragglue.py from qcelemental/models/molecule.py and molutil/molecular_formula.py. *)",
        "From Coq Require Import ZArith List String.",
        "Import ListNotations.",
        "Open Scope Z_scope.",
        "(* Molecule.get_fragment(self, real, ghost=None, orient=..., group_fragments=...) *)",
        f"Definition gf_default_orient : bool := {b(info['gf_default_orient'])}.",
        f"Definition gf_default_group : bool := {b(info['gf_default_group'])}.",
        "(* what get_fragment appends for a ghost fragment *)",
        f"Definition ghost_fc : Z := {info['ghost_fc']}.",
        f"Definition ghost_fm : Z := {info['ghost_fm']}.",
        "(* Molecule.get_molecular_formula(self, order=..., chgmult=...) *)",
        f"Definition formula_default_order : string := {s(info['formula_default_order'])}.",
        f"Definition formula_default_chgmult : bool := {b(info['formula_default_chgmult'])}.",
        "(* molutil.molecular_formula_from_symbols(symbols, order=...), order_molecular_formula(formula, order=...) *)",
        f"Definition mffs_default_order : string := {s(info['mffs_default_order'])}.",
        f"Definition omf_default_order : string := {s(info['omf_default_order'])}.",
        "Definition supported_orders : list string := [" + "; ".join(s(x) for x in info["supported_orders"]) + "].",
        "",
    ]
    coqrun.write_if_changed(os.path.join(coqrun.COQ, "Gen", "FragGlue.v"), "\n".join(lines))
    return info
