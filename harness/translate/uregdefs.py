"""Translator for C03: qcelemental/physical_constants/ureg.py -> coq/Gen/UregDefs.v

What is translated (fail-closed: every statement of build_units_registry must be one of the expected shapes; the
code of the relationship loop, _find_nist_unit and build_transformer must be the expected code verbatim up to
layout, because those three are transcribed by hand in coq/Model/Units.v):
  * every ureg.define(...) : names/aliases, the CODATA key whose value it is scaled by, the right-hand unit expression
  * phys_const_map (+ the CODATA2018 override) with the CODATA unit strings of the mapped constants parsed into
    unit expressions, _const_rename
  * the five pint Contexts: (source dimension, target dimension, transformer kind / right_unit / default expression)
Trusted external data recorded at translate time (pint is external code): for a fixed whitelist of plain SI /
imperial unit names, the exact rational SI factor and the dimension reported by a FRESH default pint registry
(non_int_type=Fraction), after checking that none of them depends on a name that ureg.py (re)defines; and pint's
decimal prefix table."""
import ast
import os
import re
from fractions import Fraction

from .. import coqrun
from ..core import TranslateError
from ..coqrun import cstr, clist, cz
from . import codata

DIMS = ["[length]", "[mass]", "[time]", "[current]", "[temperature]", "[substance]", "[luminosity]"]
BASE_SI = {"meter": 0, "kilogram": 1, "second": 2, "ampere": 3, "kelvin": 4, "mole": 5, "candela": 6}

# plain names the corpus may use (canonical pint names). 'gram' is pint's mass root; SI factor is relative to kg.
PLAIN_WHITELIST = [
    "meter", "angstrom", "inch", "foot", "mile", "gram", "pound", "second", "minute", "hour", "day", "coulomb", "ampere",
    "joule", "calorie", "erg", "newton", "dyne", "pascal", "bar", "standard_atmosphere", "torr", "mole", "kelvin", "degree_Rankine",
    "hertz", "volt", "tesla", "farad", "watt", "ohm", "liter", "candela",
]
# symbols / aliases of plain names used when parsing the right-hand sides in ureg.py and the CODATA unit strings
SI_PREFIX_NAMES = ["quecto", "ronto", "yocto", "zepto", "atto", "femto", "pico", "nano", "micro", "milli", "centi", "deci",
                   "deca", "hecto", "kilo", "mega", "giga", "tera", "peta", "exa", "zetta", "yotta", "ronna", "quetta"]

DIM_EXPR = {
    "[energy]": [2, 1, -2, 0, 0, 0, 0],
    "[frequency]": [0, 0, -1, 0, 0, 0, 0],
    "1 / [length]": [-1, 0, 0, 0, 0, 0, 0],
    "[mass]": [0, 1, 0, 0, 0, 0, 0],
    "[temperature]": [0, 0, 0, 0, 1, 0, 0],
    "[energy] / [substance]": [2, 1, -2, 0, 0, -1, 0],
}


def _dump(n):
    return ast.dump(n, annotate_fields=True, include_attributes=False)


def _same(node, src, what):
    exp = ast.parse(src).body[0]
    if _dump(node) != _dump(exp):
        raise TranslateError(f"ureg.py: {what} is not the expected code\n  expected: {src.strip()[:300]}\n  found: {ast.unparse(node)[:400]}")


def _strip_doc(fn):
    return [s for s in fn.body if not (isinstance(s, ast.Expr) and isinstance(s.value, ast.Constant) and isinstance(s.value.value, str))]


# ------------------------------------------------------------------------------------------------
# fresh pint: trusted data

_FRESH = {}


def fresh_pint():
    if "u" not in _FRESH:
        import pint
        _FRESH["u"] = pint.UnitRegistry(non_int_type=Fraction)
    return _FRESH["u"]


def pint_deps(u, name, seen):
    d = u._units[name]
    if d.is_base:
        return
    for k in d.reference:
        cands = u.parse_unit_name(k)
        if not cands:
            raise TranslateError(f"pint: cannot resolve {k!r} in the definition of {name!r}")
        b = u.get_name(cands[0][1])
        if b not in seen:
            seen.add(b)
            pint_deps(u, b, seen)


def plain_units(redefined):
    """name -> (Fraction SI factor, dimvec), only for whitelisted names independent of anything ureg.py defines."""
    u = fresh_pint()
    out = {}
    for n in PLAIN_WHITELIST:
        if n in redefined:
            raise TranslateError(f"ureg.py now (re)defines the plain unit {n!r}; it can no longer be taken from pint")
        if n not in u._units or u.get_name(n) != n:
            raise TranslateError(f"pint: {n!r} is not a canonical unit name in the installed pint")
        deps = set()
        pint_deps(u, n, deps)
        bad = deps & redefined
        if bad:
            raise TranslateError(f"pint: plain unit {n!r} depends on {sorted(bad)} which ureg.py redefines")
        q = u.Quantity(1, n).to_base_units()
        f = Fraction(q.magnitude)
        dim = [0] * 7
        for bu, ex in dict(q._units).items():
            if bu not in BASE_SI or Fraction(ex).denominator != 1:
                raise TranslateError(f"pint: {n!r} reduces to unexpected base unit {bu!r}^{ex}")
            dim[BASE_SI[bu]] = int(ex)
        dd = dict(u.get_dimensionality(n))
        dim2 = [0] * 7
        for k, ex in dd.items():
            if k not in DIMS:
                raise TranslateError(f"pint: {n!r} has unexpected dimension {k!r}")
            dim2[DIMS.index(k)] = int(ex)
        if dim != dim2 or f <= 0:
            raise TranslateError(f"pint: inconsistent base units/dimensionality for {n!r}")
        out[n] = (f, dim)
    return out


def pint_prefixes():
    u = fresh_pint()
    out = {}
    for p in SI_PREFIX_NAMES:
        if p not in u._prefixes:
            raise TranslateError(f"pint: prefix {p!r} missing")
        s = Fraction(u._prefixes[p].converter.scale)
        k = 0
        t = s
        while t > 1:
            t /= 10
            k += 1
        while t < 1:
            t *= 10
            k -= 1
        if t != 1:
            raise TranslateError(f"pint: prefix {p!r} is not a power of ten ({s})")
        out[p] = k
    return out


def spelling_tables(own):
    """identifier spellings -> canonical unit name, and prefix spellings -> canonical prefix name, for the model of pint's
    name resolution (Model/UnitsText.v).  Unit spellings: every name/alias ureg.py defines, plus name, symbol and aliases that the
    installed pint gives each whitelisted plain unit (ASCII spellings only). Trusted data, read from pint."""
    u = fresh_pint()
    ids = {}
    for n in PLAIN_WHITELIST:
        d = u._units[n]
        for sp in [d.name, d.defined_symbol] + list(d.aliases):
            if sp and sp.isascii() and re.fullmatch(r"[A-Za-z_][A-Za-z_0-9]*", sp):
                if sp in ids and ids[sp] != n:
                    raise TranslateError(f"pint: spelling {sp!r} names both {ids[sp]!r} and {n!r}")
                ids[sp] = n
    for sp, prim in own.items():          # ureg.py's definitions override pint's
        ids[sp] = prim
    pre = {}
    for p in SI_PREFIX_NAMES:
        d = u._prefixes[p]
        for sp in [d.name, d.defined_symbol] + list(d.aliases):
            if sp and sp.isascii() and re.fullmatch(r"[A-Za-z]+", sp):
                if sp in pre and pre[sp] != p:
                    raise TranslateError(f"pint: prefix spelling {sp!r} is ambiguous")
                pre[sp] = p
    return ids, pre


def resolve_plain_token(tok):
    """A token of a right-hand side / CODATA unit string that ureg.py does not define itself: ask pint's parser
    (trusted) for (prefix, canonical unit)."""
    u = fresh_pint()
    cands = u.parse_unit_name(tok)
    if not cands:
        raise TranslateError(f"pint cannot parse the unit token {tok!r}")
    p, b, s = cands[0]
    b = u.get_name(b)
    if p and p not in SI_PREFIX_NAMES:
        raise TranslateError(f"token {tok!r}: unexpected prefix {p!r}")
    return (p, b)


# ------------------------------------------------------------------------------------------------
# unit-expression mini grammar of the define() right-hand sides:   term (('*'|'/') term)* ; term = atom ['**' int]

_TOK = re.compile(r"\s*(\*\*|\*|/|\{\}|[0-9]+(?:\.[0-9]*)?(?:[eE][-+]?[0-9]+)?|[A-Za-z_][A-Za-z_0-9]*|-?[0-9]+)")


def tokenize(s):
    out, i = [], 0
    s = s.strip()
    while i < len(s):
        m = _TOK.match(s, i)
        if not m:
            raise TranslateError(f"cannot tokenize unit expression {s!r} at {i}")
        out.append(m.group(1))
        i = m.end()
    return out


def parse_rhs(s, resolve):
    """-> (has_placeholder, expr) ; expr is a nested tuple ('atom',p,b) | ('num',Fraction) | ('mul',a,b) | ('div',a,b) | ('pow',a,n)"""
    toks = tokenize(s)
    pos = 0
    placeholder = False

    def atom():
        nonlocal pos, placeholder
        if pos >= len(toks):
            raise TranslateError(f"unit expression {s!r} ends unexpectedly")
        t = toks[pos]
        pos += 1
        if t == "{}":
            if pos != 1:
                raise TranslateError(f"value placeholder is not the leading factor in {s!r}")
            placeholder = True
            node = ("num", Fraction(1))
        elif re.fullmatch(r"[0-9].*", t):
            node = ("num", Fraction(t))
        elif re.fullmatch(r"[A-Za-z_][A-Za-z_0-9]*", t):
            p, b = resolve(t)
            node = ("atom", p, b)
        else:
            raise TranslateError(f"unexpected token {t!r} in {s!r}")
        if pos < len(toks) and toks[pos] == "**":
            if pos + 1 >= len(toks) or not re.fullmatch(r"-?[0-9]+", toks[pos + 1]):
                raise TranslateError(f"bad exponent in {s!r}")
            node = ("pow", node, int(toks[pos + 1]))
            pos += 2
        return node

    node = atom()
    while pos < len(toks):
        op = toks[pos]
        if op not in ("*", "/"):
            raise TranslateError(f"expected * or / in {s!r}, found {op!r}")
        pos += 1
        rhs = atom()
        node = ("mul" if op == "*" else "div", node, rhs)
    return placeholder, node


def parse_codata_unit(s, resolve):
    """CODATA unit strings: blank-separated factors  sym | sym^n | sym^{n}  (implicit multiplication)."""
    node = None
    for f in s.split():
        m = re.fullmatch(r"([A-Za-z_]+)(?:\^(?:\{(-?[0-9]+)\}|(-?[0-9]+)))?", f)
        if not m:
            raise TranslateError(f"cannot parse CODATA unit factor {f!r} in {s!r}")
        p, b = resolve(m.group(1))
        a = ("atom", p, b)
        ex = m.group(2) or m.group(3)
        if ex is not None:
            a = ("pow", a, int(ex))
        node = a if node is None else ("mul", node, a)
    if node is None:
        raise TranslateError("empty CODATA unit")
    return node


def cexpr(e):
    t = e[0]
    if t == "atom":
        return f"(UAtom {cstr(e[1])} {cstr(e[2])})"
    if t == "num":
        return f"(UNum {coqrun.cq(e[1])})"
    if t == "pow":
        return f"(UPow {cexpr(e[1])} {cz(e[2])})"
    return f"({'UMul' if t == 'mul' else 'UDiv'} {cexpr(e[1])} {cexpr(e[2])})"


# ------------------------------------------------------------------------------------------------

REL_LOOP = '''
for k, v in phys_const.items():
    if not (("-" in k) and ("relationship" in k)):
        continue
    left_unit, right_unit = k.split("-")
    left_unit = _const_rename.get(left_unit, left_unit)
    _nist_units.add(left_unit)
    right_unit = right_unit.replace(" relationship", "")
    right_unit = _const_rename.get(right_unit, right_unit)
    if "inverse_meter" == left_unit:
        ratio1 = "* meter"
    else:
        ratio1 = "/ " + left_unit
    if "inverse_meter" == right_unit:
        ratio2 = "/ meter"
    else:
        ratio2 = "* " + right_unit
    definition = "{}_to_{} = {} {} {}".format(left_unit, right_unit, v["value"], ratio1, ratio2)
    ureg.define(definition)
'''
FIND_NIST = '''
def _find_nist_unit(unit):
    for value in unit.to_tuple()[1]:
        if value[1] < 1:
            continue
        if any(x in value[0] for x in _nist_units):
            return value[0]
    for value in unit.to_tuple()[1]:
        if (value[0] == "meter") and (value[1] == -1):
            return "inverse_meter"
    return None
'''
BUILD_TR = '''
def build_transformer(right_unit, default):
    def transformer(ureg, val):
        left_unit = _find_nist_unit(val)
        if left_unit is None:
            return val * ureg.parse_expression(default)
        else:
            return val * ureg.parse_expression("{}_to_{}".format(left_unit, right_unit))
    return transformer
'''
AU_LOOP = '''
for k, v in phys_const_map.items():
    ureg.define(f"{k} = {phys_const[v]['value']} * {phys_const[v]['unit']}")
'''


def _strip_docstrings(node):
    for n in ast.walk(node):
        if isinstance(n, ast.FunctionDef):
            n.body = _strip_doc(n) or [ast.Pass()]
    return node


def _const_str(n, what):
    if not (isinstance(n, ast.Constant) and isinstance(n.value, str) and n.value.isascii()):
        raise TranslateError(f"ureg.py: {what}: expected an ASCII string literal")
    return n.value


def _str_dict(n, what):
    if not isinstance(n, ast.Dict):
        raise TranslateError(f"ureg.py: {what}: expected a dict literal")
    ks = [_const_str(k, what) for k in n.keys]
    if len(set(ks)) != len(ks):
        raise TranslateError(f"ureg.py: {what}: duplicate keys")
    return list(zip(ks, [_const_str(v, what) for v in n.values]))


def read_ureg(repo):
    rel = "qcelemental/physical_constants/ureg.py"
    with open(os.path.join(repo, rel)) as fh:
        tree = ast.parse(fh.read())
    fns = [n for n in tree.body if isinstance(n, ast.FunctionDef)]
    if len(fns) != 1 or fns[0].name != "build_units_registry" or [a.arg for a in fns[0].args.args] != ["context"]:
        raise TranslateError("ureg.py: expected exactly one function build_units_registry(context)")
    body = _strip_doc(fns[0])
    out = {"defs": [], "au_map": None, "au_2018_override": [], "rename": None, "contexts": []}
    state = {"rel_loop": False, "find": False, "build": False, "au_loop": False, "enabled": False, "ret": False}
    ctx_names = {}
    define_f = _dump(ast.parse("ureg.define").body[0].value)
    i = 0
    if len(body) < 3:
        raise TranslateError("ureg.py: body too short")
    _same(body[0], "import pint", "statement 1")
    _same(body[1], "phys_const = context.raw_codata", "statement 2")
    _same(body[2], 'ureg = pint.UnitRegistry(on_redefinition="ignore")', "statement 3")
    for st in body[3:]:
        if state["ret"]:
            raise TranslateError("ureg.py: statements after return")
        # ureg.define(...)
        if isinstance(st, ast.Expr) and isinstance(st.value, ast.Call) and _dump(st.value.func) == define_f:
            if state["rel_loop"]:
                raise TranslateError("ureg.py: a define() after the relationship loop is not modelled")
            call = st.value
            if len(call.args) != 1 or call.keywords:
                raise TranslateError("ureg.py: define() with unexpected arguments")
            a = call.args[0]
            key = None
            if isinstance(a, ast.Constant) and isinstance(a.value, str):
                tmpl = a.value
            elif isinstance(a, ast.JoinedStr) and all(isinstance(v, ast.Constant) for v in a.values):
                tmpl = "".join(v.value for v in a.values)
            elif (isinstance(a, ast.Call) and isinstance(a.func, ast.Attribute) and a.func.attr == "format"
                  and isinstance(a.func.value, ast.Constant) and isinstance(a.func.value.value, str) and len(a.args) == 1 and not a.keywords):
                tmpl = a.func.value.value
                arg = a.args[0]
                try:
                    key = _const_str(arg.value.slice, "CODATA key")
                    _same(ast.Expr(arg), f'phys_const[{key!r}]["value"]', "define() value")
                except TranslateError:
                    raise
                except Exception:
                    raise TranslateError(f"ureg.py: define() value is not phys_const[<key>]['value']: {ast.unparse(arg)[:100]}")
                if tmpl.count("{}") != 1:
                    raise TranslateError(f"ureg.py: define() template {tmpl!r} must have exactly one placeholder")
            else:
                raise TranslateError(f"ureg.py: unsupported define() argument {ast.unparse(a)[:120]}")
            out["defs"].append((tmpl, key))
            continue
        if isinstance(st, ast.Assign) and len(st.targets) == 1 and isinstance(st.targets[0], ast.Name):
            nm = st.targets[0].id
            if nm == "phys_const_map":
                out["au_map"] = _str_dict(st.value, "phys_const_map")
                continue
            if nm == "_const_rename":
                out["rename"] = _str_dict(st.value, "_const_rename")
                continue
            if nm == "_nist_units":
                _same(st, "_nist_units = set()", "_nist_units")
                continue
            m = re.fullmatch(r"c[0-9]+", nm)
            if m:
                try:
                    cname = _const_str(st.value.args[0], "context name")
                    _same(st, f"{nm} = pint.Context({cname!r})", "context creation")
                except TranslateError:
                    raise
                except Exception:
                    raise TranslateError("ureg.py: unexpected context creation")
                ctx_names[nm] = cname
                continue
            raise TranslateError(f"ureg.py: unexpected assignment to {nm}")
        if isinstance(st, ast.If):
            try:
                k2, v2 = None, None
                asg = st.body[0]
                k2 = _const_str(asg.targets[0].slice, "override key")
                v2 = _const_str(asg.value, "override value")
                _same(st, f'if context.name == "CODATA2018":\n    phys_const_map[{k2!r}] = {v2!r}', "2018 override")
            except TranslateError:
                raise
            except Exception:
                raise TranslateError("ureg.py: unexpected if statement")
            if out["au_map"] is None or state["au_loop"]:
                raise TranslateError("ureg.py: 2018 override out of place")
            out["au_2018_override"].append((k2, v2))
            continue
        if isinstance(st, ast.For):
            d = _dump(st)
            if d == _dump(ast.parse(AU_LOOP).body[0]):
                if out["au_map"] is None:
                    raise TranslateError("ureg.py: au loop before phys_const_map")
                state["au_loop"] = True
                out["defs"].append(("@AU", None))
                continue
            if d == _dump(ast.parse(REL_LOOP).body[0]):
                if out["rename"] is None:
                    raise TranslateError("ureg.py: relationship loop before _const_rename")
                state["rel_loop"] = True
                continue
            raise TranslateError("ureg.py: a for loop is not one of the two expected loops (code of the relationship loop changed?)")
        if isinstance(st, ast.FunctionDef):
            st2 = _strip_docstrings(ast.parse(ast.unparse(st)).body[0])
            if st.name == "_find_nist_unit":
                _same(st2, FIND_NIST, "_find_nist_unit")
                state["find"] = True
                continue
            if st.name == "build_transformer":
                _same(st2, BUILD_TR, "build_transformer")
                state["build"] = True
                continue
            raise TranslateError(f"ureg.py: unexpected nested function {st.name}")
        if isinstance(st, ast.Expr) and isinstance(st.value, ast.Call) and isinstance(st.value.func, ast.Attribute):
            f = st.value.func
            if f.attr == "add_transformation" and isinstance(f.value, ast.Name) and f.value.id in ctx_names:
                if not (state["find"] and state["build"]) or len(st.value.args) != 3 or st.value.keywords:
                    raise TranslateError("ureg.py: add_transformation out of place")
                src = _const_str(st.value.args[0], "source dimension")
                dst = _const_str(st.value.args[1], "target dimension")
                tr = st.value.args[2]
                if src not in DIM_EXPR or dst not in DIM_EXPR:
                    raise TranslateError(f"ureg.py: unknown dimension expression {src!r} / {dst!r}")
                if isinstance(tr, ast.Call) and isinstance(tr.func, ast.Name) and tr.func.id == "build_transformer" and len(tr.args) == 2 and not tr.keywords:
                    out["contexts"].append((f.value.id, src, dst, "named", _const_str(tr.args[0], "right_unit"), _const_str(tr.args[1], "default")))
                elif _dump(tr) == _dump(ast.parse("lambda ureg, val: val * ureg.N_A").body[0].value):
                    out["contexts"].append((f.value.id, src, dst, "mulNA", "", ""))
                elif _dump(tr) == _dump(ast.parse("lambda ureg, val: val / ureg.N_A").body[0].value):
                    out["contexts"].append((f.value.id, src, dst, "divNA", "", ""))
                else:
                    raise TranslateError(f"ureg.py: unsupported transformer {ast.unparse(tr)[:100]}")
                continue
            if f.attr == "enable_contexts":
                names = [a.id if isinstance(a, ast.Name) else None for a in st.value.args]
                if None in names or st.value.keywords or _dump(f.value) != _dump(ast.parse("ureg").body[0].value):
                    raise TranslateError("ureg.py: unexpected enable_contexts call")
                used = {c[0] for c in out["contexts"]}
                if set(names) != used or set(names) != set(ctx_names):
                    raise TranslateError("ureg.py: a context is created but not enabled (or vice versa)")
                state["enabled"] = True
                continue
        if isinstance(st, ast.Return):
            _same(st, "return ureg", "return")
            state["ret"] = True
            continue
        raise TranslateError(f"ureg.py: unexpected statement {ast.unparse(st)[:120]}")
    for k in ("rel_loop", "find", "build", "au_loop", "enabled", "ret"):
        if not state[k]:
            raise TranslateError(f"ureg.py: expected part missing: {k}")
    return out


# ------------------------------------------------------------------------------------------------
# the glue around pint in context.py / datum.py (transcribed by hand in coq/Model/UnitsGlue.v): must be this code verbatim
# (docstrings and comments aside)

CONVERSION_FACTOR = '''
@lru_cache()
def conversion_factor(self, base_unit: Union[str, "_Quantity"], conv_unit: Union[str, "_Quantity"]) -> float:
    from pint import Quantity as _Quantity
    factor = 1.0
    if isinstance(base_unit, str):
        base_unit = self.ureg.parse_expression(base_unit)
    if isinstance(conv_unit, str):
        conv_unit = self.ureg.parse_expression(conv_unit)
    if isinstance(base_unit, _Quantity):
        factor *= base_unit.magnitude
        base_unit = base_unit.units
    if isinstance(conv_unit, _Quantity):
        factor /= conv_unit.magnitude
        conv_unit = conv_unit.units
    return self.ureg.convert(factor, base_unit, conv_unit)
'''
UREG_PROPERTY = '''
@property
def ureg(self) -> "UnitRegistry":
    if self._ureg is None:
        self._ureg = build_units_registry(self)
    return self._ureg
'''
QUANTITY_METHOD = '''
def Quantity(self, data: str) -> "_Quantity":
    return self.ureg.Quantity(data)
'''
TO_UNITS = '''
def to_units(self, units=None):
    from .physical_constants import constants
    to_unit = self.units if units is None else units
    factor = constants.conversion_factor(self.units, to_unit)
    if isinstance(self.data, Decimal):
        return factor * float(self.data)
    else:
        return factor * self.data
'''


def _method(cls, name, rel):
    ms = [n for n in cls.body if isinstance(n, ast.FunctionDef) and n.name == name]
    if len(ms) != 1:
        raise TranslateError(f"{rel}: expected exactly one method {name}")
    return ms[0]


def check_glue(repo):
    """Fail closed if conversion_factor / ureg / Quantity (context.py) or Datum.to_units (datum.py) is not the code that
    Model/UnitsGlue.v transcribes.  Returns the lru_cache maxsize (functools' default when lru_cache() is called bare)."""
    rel = "qcelemental/physical_constants/context.py"
    with open(os.path.join(repo, rel)) as fh:
        tree = ast.parse(fh.read())
    cls = [n for n in tree.body if isinstance(n, ast.ClassDef) and n.name == "PhysicalConstantsContext"]
    if len(cls) != 1:
        raise TranslateError(f"{rel}: class PhysicalConstantsContext not found")
    imports = [ast.unparse(n) for n in tree.body if isinstance(n, (ast.Import, ast.ImportFrom))]
    if "from functools import lru_cache" not in imports:
        raise TranslateError(f"{rel}: lru_cache is no longer functools.lru_cache")
    for name, src in (("conversion_factor", CONVERSION_FACTOR), ("ureg", UREG_PROPERTY), ("Quantity", QUANTITY_METHOD)):
        m = _strip_docstrings(ast.parse(ast.unparse(_method(cls[0], name, rel))).body[0])
        _same(m, src, f"{rel}: {name}")
    n_init = [x for x in ast.walk(_method(cls[0], "__init__", rel)) if isinstance(x, ast.Assign) and ast.unparse(x) == "self._ureg = None"]
    if len(n_init) != 1:
        raise TranslateError(f"{rel}: __init__ no longer sets self._ureg = None exactly once")
    others = [n for n in ast.walk(tree) if isinstance(n, ast.Attribute) and n.attr == "_ureg"]
    if len(others) != 4:          # __init__ (1) + the property (3)
        raise TranslateError(f"{rel}: self._ureg is used outside __init__ and the ureg property")
    rel2 = "qcelemental/datum.py"
    with open(os.path.join(repo, rel2)) as fh:
        tree2 = ast.parse(fh.read())
    dcls = [n for n in tree2.body if isinstance(n, ast.ClassDef) and n.name == "Datum"]
    if len(dcls) != 1:
        raise TranslateError(f"{rel2}: class Datum not found")
    m = _strip_docstrings(ast.parse(ast.unparse(_method(dcls[0], "to_units", rel2))).body[0])
    _same(m, TO_UNITS, f"{rel2}: Datum.to_units")
    return 128


def generate(repo):
    raw = read_ureg(repo)
    lru_maxsize = check_glue(repo)
    shipped = {y: codata.read_shipped(repo, y) for y in codata.YEARS}
    # names defined by ureg.py: primary -> aliases
    parsed = []
    own = {}          # any name/alias -> primary
    for tmpl, key in raw["defs"]:
        if tmpl == "@AU":
            for k, _v in raw["au_map"]:
                own[k] = k
            parsed.append(("@AU", None, None, None))
            continue
        parts = [p.strip() for p in tmpl.split("=")]
        if len(parts) < 2 or not all(parts) or not re.fullmatch(r"[A-Za-z_][A-Za-z_0-9]*", parts[0]):
            raise TranslateError(f"ureg.py: cannot split definition {tmpl!r}")
        name, rhs, aliases = parts[0], parts[1], parts[2:]
        for a in aliases:
            if not re.fullmatch(r"[A-Za-z_][A-Za-z_0-9]*", a):
                raise TranslateError(f"ureg.py: bad alias {a!r} in {tmpl!r}")
        own[name] = name
        for a in aliases:
            own[a] = name
        parsed.append((name, aliases, key, rhs))
    rel_units = ["hartree", "hertz", "inverse_meter", "joule", "kelvin", "kilogram", "atomic_mass_unit", "electron_volt"]

    dangling = []

    def resolve(tok):
        if tok in own:
            return ("", own[tok])
        try:
            p, b = resolve_plain_token(tok)
        except TranslateError:
            # ureg.py contains `plank_constant = planks_constant` (a name nobody defines); pint accepts such a definition
            # lazily. The model keeps the dangling reference (the unit is unusable in the model as in pint).
            dangling.append(tok)
            return ("", tok)
        if b in own:          # e.g. a prefixed form of a unit ureg.py defines
            return (p, own[b])
        return (p, b)

    defs = []
    used_plain = set()

    def note_atoms(e):
        if e[0] == "atom":
            if e[2] not in own:
                used_plain.add(e[2])
        elif e[0] in ("mul", "div"):
            note_atoms(e[1])
            note_atoms(e[2])
        elif e[0] == "pow":
            note_atoms(e[1])

    au_defs = {y: [] for y in codata.YEARS}
    for name, aliases, key, rhs in parsed:
        if name == "@AU":
            for y in codata.YEARS:
                m = dict(raw["au_map"])
                if y == 2018:
                    for k2, v2 in raw["au_2018_override"]:
                        m[k2] = v2
                rows = {r[0]: r for r in shipped[y]["rows"]}
                for k, _ in raw["au_map"]:
                    ck = m[k]
                    if ck not in rows:
                        raise TranslateError(f"ureg.py: phys_const_map[{k!r}] = {ck!r} is not a CODATA{y} key")
                    e = parse_codata_unit(rows[ck][2], resolve)
                    note_atoms(e)
                    au_defs[y].append((k, ck, e))
            defs.append(("@AU", [], None, None))
            continue
        ph, e = parse_rhs(rhs, resolve)
        if ph != (key is not None):
            raise TranslateError(f"ureg.py: placeholder/value mismatch in definition of {name}")
        note_atoms(e)
        defs.append((name, aliases, key, e))
    contexts = []
    for cid, src, dst, kind, right, default in raw["contexts"]:
        if kind == "named":
            if right not in rel_units:
                raise TranslateError(f"ureg.py: transformer target {right!r} is not a NIST relationship unit")
            own_rel = dict(own)
            _ph, de = parse_rhs(default, lambda t: ("", t) if re.fullmatch(r"[a-z_]+_to_[a-z_]+", t) else resolve(t))
            def _note_default(e):
                if e[0] == "atom":
                    if e[2] not in own and not re.fullmatch(r"[a-z_]+_to_[a-z_]+", e[2]):
                        used_plain.add(e[2])
                elif e[0] in ("mul", "div"):
                    _note_default(e[1])
                    _note_default(e[2])
                elif e[0] == "pow":
                    _note_default(e[1])
            _note_default(de)
            contexts.append((src, dst, f"(HNamed {cstr(right)} {cexpr(de)})"))
        else:
            contexts.append((src, dst, "HMulNA" if kind == "mulNA" else "HDivNA"))
    # the bridge graph must be a star around one dimension (paths of at most two hops; the model searches no deeper)
    nodes = {s for s, _, _ in contexts} | {d for _, d, _ in contexts}
    hubs = [n for n in nodes if all((n == s or n == d) for s, d, _ in contexts)]
    if len(hubs) != 1 and len(contexts) > 1:
        raise TranslateError("ureg.py: the context graph is no longer a star; the model's two-hop path search would be wrong")
    if len({(s, d) for s, d, _ in contexts}) != len(contexts):
        raise TranslateError("ureg.py: duplicate transformation between the same dimensions")
    redefined = set(own)
    need = set(PLAIN_WHITELIST)
    if len(dangling) > 1:
        raise TranslateError(f"ureg.py refers to undefined unit names {dangling}")
    for b in used_plain:
        if b in dangling:
            continue
        if b not in need:
            raise TranslateError(f"ureg.py uses the plain unit {b!r} which is not in the translator's whitelist")
    plain = plain_units(redefined)
    prefixes = pint_prefixes()

    out = ["(* GENERATED from qcelemental/physical_constants/ureg.py (+ trusted data read from the installed pint) by harness/translate/uregdefs.py — do not edit *)",
           "From Coq Require Import ZArith QArith List String.", "Require Import QV.Common.UnitsC03.", "Import ListNotations.", "Open Scope string_scope.", ""]
    out.append("(* trusted external data: exact SI factor (kg m s A K mol cd) and dimension exponents reported by the installed pint *)")
    out.append("Definition plain_units : list (string * (Q * list Z)) := [\n  " + ";\n  ".join(
        f"({cstr(n)}, ({coqrun.cq(f)}, {clist(d, cz)}))" for n, (f, d) in plain.items()) + " ].")
    out.append("(* trusted external data: pint's decimal prefixes, as powers of ten *)")
    out.append("Definition prefix_table : list (string * Z) := [ " + "; ".join(f"({cstr(p)}, {cz(k)})" for p, k in prefixes.items()) + " ].")
    out.append("(* ureg.define(...) in source order: primary name, aliases, CODATA key whose value scales it, right-hand side *)")
    rows = []
    for name, aliases, key, e in defs:
        if name == "@AU":
            continue
        rows.append(f"({cstr(name)}, {clist(aliases, cstr)}, {coqrun.copt(key, cstr)}, {cexpr(e)})")
    out.append("Definition ureg_defs : list (string * list string * option string * uexpr) := [\n  " + ";\n  ".join(rows) + " ].")
    au_pos = [i for i, d in enumerate(defs) if d[0] == "@AU"][0]
    out.append(f"Definition au_loop_position : nat := {au_pos}%nat.   (* number of define() calls before the phys_const_map loop *)")
    for y in codata.YEARS:
        out.append(f"Definition au_defs_{y} : list (string * string * uexpr) := [\n  " + ";\n  ".join(
            f"({cstr(k)}, {cstr(ck)}, {cexpr(e)})" for k, ck, e in au_defs[y]) + " ].")
    out.append("Definition const_rename : list (string * string) := " + clist(raw["rename"], lambda p: f"({cstr(p[0])}, {cstr(p[1])})") + ".")
    out.append("(* pint Contexts: source dimension, target dimension, transformer *)")
    out.append("Definition bridges : list (list Z * list Z * hop) := [\n  " + ";\n  ".join(
        f"({clist(DIM_EXPR[s], cz)}, {clist(DIM_EXPR[d], cz)}, {h})" for s, d, h in contexts) + " ].")
    out.append("(* functools.lru_cache() on conversion_factor: maxsize (context.py, checked verbatim by check_glue) *)")
    out.append(f"Definition lru_maxsize : nat := {lru_maxsize}%nat.")
    ids, pre = spelling_tables(own)
    out.append("(* spellings (names, symbols, aliases) -> canonical unit name; prefix spellings -> canonical prefix (trusted data from pint + ureg.py's own aliases) *)")
    out.append("Definition ident_table : list (string * string) := [\n  " + ";\n  ".join(f"({cstr(k)}, {cstr(v)})" for k, v in sorted(ids.items())) + " ].")
    out.append("Definition prefix_spellings : list (string * string) := [ " + "; ".join(f"({cstr(k)}, {cstr(v)})" for k, v in sorted(pre.items(), key=lambda kv: (-len(kv[0]), kv[0]))) + " ].")
    coqrun.write_if_changed(os.path.join(coqrun.COQ, "Gen", "UregDefs.v"), "\n".join(out) + "\n")
    return {"raw": raw, "defs": defs, "au_defs": au_defs, "own": own, "plain": plain, "prefixes": prefixes, "ids": ids, "prefix_spellings": pre,
            "contexts": raw["contexts"], "shipped": shipped}
