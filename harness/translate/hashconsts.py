"""Translator (C11): qcelemental/models/molecule.py + molparse/from_arrays.py  ->  coq/Gen/HashConsts.v

Extracted, fail-closed (any AST shape not listed here raises TranslateError):
  * GEOMETRY_NOISE / MASS_NOISE / CHARGE_NOISE (module-level integer constants),
  * Molecule.hash_fields (list of field names, in order),
  * Molecule.get_hash: `for field in self.hash_fields: data = getattr(self, field); <if/elif chain mapping a field
    to float_prep(data, CONST)>; concat += json.dumps(data, default=lambda x: x.ravel().tolist())`, SHA-1 of the
    utf-8 text, hexdigest,
  * float_prep: array branch = np.around + `array[np.abs(array) < THR] = 0`, scalar branch = round + `-0.0 -> 0.0`;
    THR is recognised in two spellings: `5 ** (-(around + 1))` (what the code says today: 5^-(n+1)) and
    `5 * 10 ** (-(around + 1))` (5·10^-(n+1)); it is emitted as flush_num / flush_base^(n+1),
  * Molecule.__eq__ = equality of get_hash(), Molecule.__init__ pre-rounds the geometry with float_prep,
  * from_arrays.validate_and_fill_units: bonds become (int(min), int(max), float(order)) and are sorted on the
    whole tuple (`conn.sort()`) or on the first atom only (`conn.sort(key=lambda tup: tup[0])`, the pre-95cbbdc code).
"""
import ast
import os

from .. import coqrun
from ..core import TranslateError

FIELD_CTOR = {
    "symbols": "HSymbols", "masses": "HMasses", "molecular_charge": "HCharge",
    "molecular_multiplicity": "HMult", "real": "HReal", "geometry": "HGeometry", "fragments": "HFragments",
    "fragment_charges": "HFragCharges", "fragment_multiplicities": "HFragMults", "connectivity": "HConnectivity",
}
NOISE_NAMES = ("GEOMETRY_NOISE", "MASS_NOISE", "CHARGE_NOISE")

FLOAT_PREP_TEMPLATE = """def float_prep(array, around):
    if isinstance(array, (list, np.ndarray)):
        array = np.around(array, around)
        array[np.abs(array) < THR] = 0
    elif isinstance(array, (float, int)):
        array = round(array, around)
        if array == -0.0:
            array = 0.0
    else:
        raise TypeError("Type '{}' not recognized".format(type(array).__name__))
    return array"""

EQ_TEMPLATE = """def __eq__(self, other):
    if isinstance(other, dict):
        other = Molecule(orient=False, **other)
    elif isinstance(other, Molecule):
        pass
    else:
        raise TypeError("Comparison molecule not understood of type '{}'.".format(type(other)))
    return self.get_hash() == other.get_hash()"""

INIT_REQUIRED = [
    "geometry_noise = kwargs.pop('geometry_noise', GEOMETRY_NOISE)",
    "if orient:\n    values['geometry'] = float_prep(self._orient_molecule_internal(), geometry_noise)\n"
    "elif validate or geometry_prep:\n    values['geometry'] = float_prep(values['geometry'], geometry_noise)",
]


def _strip_doc(fn):
    body = list(fn.body)
    if body and isinstance(body[0], ast.Expr) and isinstance(body[0].value, ast.Constant) and isinstance(body[0].value.value, str):
        body = body[1:]
    new = ast.FunctionDef(name=fn.name, args=fn.args, body=body, decorator_list=[], returns=None, type_comment=None)
    if hasattr(fn, "type_params"):
        new.type_params = []
    return ast.fix_missing_locations(new)


def _unparse_nodoc(fn):
    # annotations are irrelevant to behaviour
    fn = _strip_doc(fn)
    for a in fn.args.args + fn.args.kwonlyargs:
        a.annotation = None
    return ast.unparse(fn)


def _threshold(node):
    """recognise the flush threshold; returns (num, base): THR(around) = num / base^(around+1)"""
    txt = ast.unparse(node)
    if txt == "5 ** (-(around + 1))":
        return 1, 5
    if txt in ("5 * 10 ** (-(around + 1))", "5 * 10 ** (-(around + 1))", "5.0 * 10 ** (-(around + 1))"):
        return 5, 10
    raise TranslateError(f"float_prep: unrecognised zero-flush threshold `{txt}`")


def parse_molecule(repo):
    path = os.path.join(repo, "qcelemental", "models", "molecule.py")
    with open(path) as fh:
        tree = ast.parse(fh.read())
    consts = {}
    float_prep = None
    mol = None
    for n in tree.body:
        if isinstance(n, ast.Assign) and len(n.targets) == 1 and isinstance(n.targets[0], ast.Name) and n.targets[0].id in NOISE_NAMES:
            if not (isinstance(n.value, ast.Constant) and isinstance(n.value.value, int) and not isinstance(n.value.value, bool)
                    and 0 <= n.value.value <= 15):
                raise TranslateError(f"molecule.py: {n.targets[0].id} is not a small non-negative integer literal")
            if n.targets[0].id in consts:
                raise TranslateError(f"molecule.py: {n.targets[0].id} assigned twice")
            consts[n.targets[0].id] = n.value.value
        elif isinstance(n, ast.FunctionDef) and n.name == "float_prep":
            float_prep = n
        elif isinstance(n, ast.ClassDef) and n.name == "Molecule":
            mol = n
    for k in NOISE_NAMES:
        if k not in consts:
            raise TranslateError(f"molecule.py: constant {k} not found")
    if float_prep is None or mol is None:
        raise TranslateError("molecule.py: float_prep or class Molecule not found")

    # float_prep
    try:
        thr_node = float_prep.body[-2].body[1].targets[0].slice.comparators[0]
    except Exception:
        raise TranslateError("float_prep: unexpected shape (array branch)")
    num, base = _threshold(thr_node)
    float_prep.body[-2].body[1].targets[0].slice.comparators[0] = ast.Name(id="THR", ctx=ast.Load())
    got = _unparse_nodoc(float_prep)
    if got != FLOAT_PREP_TEMPLATE:
        raise TranslateError("float_prep: body differs from the modelled shape:\n" + got)

    meths = {}
    for m in mol.body:
        if isinstance(m, ast.FunctionDef) and m.name in ("hash_fields", "get_hash", "__eq__", "__init__"):
            if m.name in meths:
                raise TranslateError(f"Molecule.{m.name} defined twice")
            meths[m.name] = m
    for k in ("hash_fields", "get_hash", "__eq__", "__init__"):
        if k not in meths:
            raise TranslateError(f"Molecule.{k} not found")

    # hash_fields
    hf = _strip_doc(meths["hash_fields"])
    if not (len(hf.body) == 1 and isinstance(hf.body[0], ast.Return) and isinstance(hf.body[0].value, ast.List)
            and all(isinstance(e, ast.Constant) and isinstance(e.value, str) for e in hf.body[0].value.elts)):
        raise TranslateError("Molecule.hash_fields: expected `return [<string literals>]`")
    if [ast.unparse(d) for d in meths["hash_fields"].decorator_list] != ["property"]:
        raise TranslateError("Molecule.hash_fields: expected a plain @property")
    fields = [e.value for e in hf.body[0].value.elts]
    for f in fields:
        if f not in FIELD_CTOR:
            raise TranslateError(f"Molecule.hash_fields: field {f!r} is not modelled")
    if len(set(fields)) != len(fields):
        raise TranslateError("Molecule.hash_fields: repeated field")

    # get_hash
    gh = _strip_doc(meths["get_hash"])
    b = gh.body
    ok = (len(b) == 5 and ast.unparse(b[0]) == "m = hashlib.sha1()" and ast.unparse(b[1]) == "concat = ''"
          and isinstance(b[2], ast.For) and ast.unparse(b[2].target) == "field" and ast.unparse(b[2].iter) == "self.hash_fields"
          and not b[2].orelse
          and ast.unparse(b[3]) == "m.update(concat.encode('utf-8'))" and ast.unparse(b[4]) == "return m.hexdigest()")
    if not ok:
        raise TranslateError("Molecule.get_hash: unexpected statement sequence:\n" + ast.unparse(gh))
    loop = b[2].body
    if not (len(loop) in (2, 3) and ast.unparse(loop[0]) == "data = getattr(self, field)"
            and ast.unparse(loop[-1]) == "concat += json.dumps(data, default=lambda x: x.ravel().tolist())"):
        raise TranslateError("Molecule.get_hash: unexpected loop body:\n" + ast.unparse(b[2]))
    prep = {}
    if len(loop) == 3:
        node = loop[1]
        while True:
            if not isinstance(node, ast.If):
                raise TranslateError("Molecule.get_hash: expected an if/elif chain on `field`")
            t = node.test
            if not (isinstance(t, ast.Compare) and ast.unparse(t.left) == "field" and len(t.ops) == 1 and isinstance(t.ops[0], ast.Eq)
                    and isinstance(t.comparators[0], ast.Constant) and isinstance(t.comparators[0].value, str)):
                raise TranslateError("Molecule.get_hash: unexpected test " + ast.unparse(t))
            fname = t.comparators[0].value
            if len(node.body) != 1:
                raise TranslateError("Molecule.get_hash: unexpected branch body for " + fname)
            st = ast.unparse(node.body[0])
            cname = None
            for c in NOISE_NAMES:
                if st == f"data = float_prep(data, {c})":
                    cname = c
            if cname is None:
                raise TranslateError(f"Molecule.get_hash: branch for {fname!r} is not `data = float_prep(data, <NOISE>)`: {st}")
            if fname in prep:
                # an elif for a field already handled can never run
                pass
            else:
                prep[fname] = cname
            if not node.orelse:
                break
            if len(node.orelse) != 1:
                raise TranslateError("Molecule.get_hash: unexpected else branch")
            node = node.orelse[0]
    for f in prep:
        if f not in FIELD_CTOR:
            raise TranslateError(f"Molecule.get_hash: float_prep applied to unmodelled field {f!r}")

    # __eq__
    got = _unparse_nodoc(meths["__eq__"])
    if got != EQ_TEMPLATE:
        raise TranslateError("Molecule.__eq__: differs from `hash equality`:\n" + got)

    # __init__: geometry pre-rounding
    init_txt = [ast.unparse(s) for s in meths["__init__"].body]
    for req in INIT_REQUIRED:
        if req not in init_txt:
            raise TranslateError("Molecule.__init__: statement not found: " + req)
    return {"consts": consts, "fields": fields, "prep": prep, "flush": (num, base)}


def parse_bonds(repo):
    path = os.path.join(repo, "qcelemental", "molparse", "from_arrays.py")
    with open(path) as fh:
        tree = ast.parse(fh.read())
    fn = [n for n in tree.body if isinstance(n, ast.FunctionDef) and n.name == "validate_and_fill_units"]
    if len(fn) != 1:
        raise TranslateError("from_arrays.py: validate_and_fill_units not found")
    blocks = [n for n in ast.walk(fn[0]) if isinstance(n, ast.If) and ast.unparse(n.test) == "connectivity is not None"]
    if len(blocks) != 1:
        raise TranslateError("from_arrays.py: expected one `if connectivity is not None:` block")
    blk = blocks[0]
    if not (len(blk.body) == 2 and ast.unparse(blk.body[0]) == "conn = []" and isinstance(blk.body[1], ast.Try)):
        raise TranslateError("from_arrays.py: unexpected connectivity block")
    tr = blk.body[1].body
    if not (len(tr) == 3 and isinstance(tr[0], ast.For) and ast.unparse(tr[0].target) == "(at1, at2, bondorder)"
            and ast.unparse(tr[0].iter) == "connectivity" and ast.unparse(tr[2]) == "molinit['connectivity'] = conn"):
        raise TranslateError("from_arrays.py: unexpected connectivity loop")
    body = tr[0].body
    tests = [ast.unparse(s.test) for s in body[:-1] if isinstance(s, ast.If)]
    want = ["not float(at1).is_integer() or at1 < 0", "not float(at2).is_integer() or at2 < 0", "bondorder < 0 or bondorder > 5"]
    if tests != want or len(body) != 4:
        raise TranslateError("from_arrays.py: connectivity entry checks differ: " + repr(tests))
    if ast.unparse(body[-1]) != "conn.append((int(min(at1, at2)), int(max(at1, at2)), float(bondorder)))":
        raise TranslateError("from_arrays.py: bond canonical form differs: " + ast.unparse(body[-1]))
    srt = ast.unparse(tr[1])
    if srt == "conn.sort()":
        whole = True
    elif srt in ("conn.sort(key=lambda tup: tup[0])", "conn.sort(key=lambda x: x[0])"):
        whole = False
    else:
        raise TranslateError("from_arrays.py: unrecognised bond ordering: " + srt)
    return {"sort_whole": whole}


def generate(repo):
    info = parse_molecule(repo)
    info.update(parse_bonds(repo))
    c = info["consts"]
    lines = [
        "(** GENERATED by harness/translate/hashconsts.py from qcelemental/models/molecule.py and molparse/from_arrays.py. *)",
        "From Coq Require Import ZArith List.",
        "Require Import QV.Common.HFHash.",
        "Import ListNotations.",
        "Open Scope Z_scope.",
        f"Definition geometry_noise : Z := {c['GEOMETRY_NOISE']}.",
        f"Definition mass_noise : Z := {c['MASS_NOISE']}.",
        f"Definition charge_noise : Z := {c['CHARGE_NOISE']}.",
        "Definition hash_fields : list hfield := [" + "; ".join(FIELD_CTOR[f] for f in info["fields"]) + "].",
        "(* get_hash: which fields go through float_prep, and with which constant *)",
        "Definition noise_of (f : hfield) : option Z :=",
        "  match f with",
    ]
    cname = {"GEOMETRY_NOISE": "geometry_noise", "MASS_NOISE": "mass_noise", "CHARGE_NOISE": "charge_noise"}
    for f, k in info["prep"].items():
        lines.append(f"  | {FIELD_CTOR[f]} => Some {cname[k]}")
    if len(info["prep"]) < len(FIELD_CTOR):
        lines.append("  | _ => None")
    lines += [
        "  end.",
        "(* float_prep, array branch: entries with |x| < flush_num / flush_base^(around+1) are set to +0.0 *)",
        f"Definition flush_num : Z := {info['flush'][0]}.",
        f"Definition flush_base : Z := {info['flush'][1]}.",
        "(* from_arrays: bonds (min, max, order) sorted on the whole tuple (true) or on the first atom only (false) *)",
        f"Definition bond_sort_whole : bool := {'true' if info['sort_whole'] else 'false'}.",
        "",
    ]
    coqrun.write_if_changed(os.path.join(coqrun.COQ, "Gen", "HashConsts.v"), "\n".join(lines))
    return info
