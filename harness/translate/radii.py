"""Translator (C17): qcelemental/data/alvarez_2008_covalent_radii.py, mantina_2009_vanderwaals_radii.py and the
`aliases = [...]` literal of CovalentRadii.__init__  ->  coq/Gen/Radii.v.  Values stay decimal *strings* (read in
Gallina).  Fail-closed on any unexpected shape."""
import ast
import os

from .. import coqrun
from ..core import TranslateError
from ..coqrun import cstr, clist


def _ascii(s, what):
    if not (isinstance(s, str) and s.isascii() and all(32 <= ord(c) < 127 for c in s)):
        raise TranslateError(f"radii: {what} is not a printable ASCII string: {s!r}")
    return s


def _load_dict(repo, fn, var, rows_key, width):
    path = os.path.join(repo, "qcelemental", "data", fn)
    try:
        with open(path) as fh:
            tree = ast.parse(fh.read())
    except Exception as e:
        raise TranslateError(f"radii: cannot parse {fn}: {e}")
    assigns = [n for n in tree.body if isinstance(n, ast.Assign)]
    others = [n for n in tree.body if not isinstance(n, (ast.Assign, ast.Expr))]
    if len(assigns) != 1 or others or not isinstance(assigns[0].targets[0], ast.Name) or assigns[0].targets[0].id != var:
        raise TranslateError(f"{fn}: expected exactly one assignment `{var} = {{...}}`")
    try:
        d = ast.literal_eval(assigns[0].value)
    except Exception as e:
        raise TranslateError(f"{fn}: not a literal dict ({e})")
    if not isinstance(d, dict) or rows_key not in d or "units" not in d or "doi" not in d:
        raise TranslateError(f"{fn}: missing {rows_key}/units/doi")
    rows = d[rows_key]
    if not isinstance(rows, list) or not rows:
        raise TranslateError(f"{fn}: {rows_key} must be a non-empty list")
    out = []
    for r in rows:
        if not (isinstance(r, tuple) and len(r) == width and all(isinstance(x, str) for x in r)):
            raise TranslateError(f"{fn}: row {r!r} is not a {width}-tuple of strings")
        out.append(tuple(_ascii(x, "row field") for x in r))
    return {"units": _ascii(d["units"], "units"), "doi": _ascii(d["doi"], "doi"), "rows": out}


def _load_aliases(repo):
    """[(ident, units, source label, comment)] from `aliases = [("C", "angstrom", self.cr["C_sp3"].data, "..."), ...]`."""
    path = os.path.join(repo, "qcelemental", "covalent_radii.py")
    try:
        with open(path) as fh:
            tree = ast.parse(fh.read())
    except Exception as e:
        raise TranslateError(f"radii: cannot parse covalent_radii.py: {e}")
    cls = [n for n in tree.body if isinstance(n, ast.ClassDef) and n.name == "CovalentRadii"]
    if len(cls) != 1:
        raise TranslateError("covalent_radii.py: expected one class CovalentRadii")
    init = [n for n in cls[0].body if isinstance(n, ast.FunctionDef) and n.name == "__init__"]
    if len(init) != 1:
        raise TranslateError("covalent_radii.py: expected one __init__")
    found = [n for n in ast.walk(init[0]) if isinstance(n, ast.Assign) and len(n.targets) == 1
             and isinstance(n.targets[0], ast.Name) and n.targets[0].id == "aliases"]
    if len(found) != 1 or not isinstance(found[0].value, ast.List):
        raise TranslateError("covalent_radii.py: expected exactly one `aliases = [...]` in __init__")
    out = []
    for t in found[0].value.elts:
        ok = isinstance(t, ast.Tuple) and len(t.elts) == 4
        if ok:
            a, u, v, c = t.elts
            ok = (isinstance(a, ast.Constant) and isinstance(a.value, str) and isinstance(u, ast.Constant) and isinstance(u.value, str)
                  and isinstance(c, ast.Constant) and isinstance(c.value, str)
                  and isinstance(v, ast.Attribute) and v.attr == "data" and isinstance(v.value, ast.Subscript)
                  and isinstance(v.value.value, ast.Attribute) and v.value.value.attr == "cr"
                  and isinstance(v.value.value.value, ast.Name) and v.value.value.value.id == "self"
                  and isinstance(v.value.slice, ast.Constant) and isinstance(v.value.slice.value, str))
        if not ok:
            raise TranslateError("covalent_radii.py: alias entry is not (str, str, self.cr[<str>].data, str): " + ast.dump(t)[:160])
        out.append((_ascii(a.value, "alias ident"), _ascii(u.value, "alias units"), _ascii(v.value.slice.value, "alias source"),
                    _ascii(c.value, "alias comment")))
    return out


def _default_context_year(repo):
    """`constants = PhysicalConstantsContext("CODATA<year>")` at module level of physical_constants/context.py, and
    datum.py's to_units must use that singleton (`from .physical_constants import constants`)."""
    import re
    path = os.path.join(repo, "qcelemental", "physical_constants", "context.py")
    try:
        with open(path) as fh:
            tree = ast.parse(fh.read())
    except Exception as e:
        raise TranslateError(f"radii: cannot parse physical_constants/context.py: {e}")
    found = []
    for n in tree.body:
        if isinstance(n, ast.Assign) and len(n.targets) == 1 and isinstance(n.targets[0], ast.Name) and n.targets[0].id == "constants":
            v = n.value
            ok = (isinstance(v, ast.Call) and isinstance(v.func, ast.Name) and v.func.id == "PhysicalConstantsContext"
                  and len(v.args) == 1 and not v.keywords and isinstance(v.args[0], ast.Constant) and isinstance(v.args[0].value, str))
            if not ok:
                raise TranslateError("context.py: `constants = ...` is not PhysicalConstantsContext(\"CODATA<year>\")")
            found.append(v.args[0].value)
    if len(found) != 1 or not re.fullmatch(r"CODATA(2014|2018)", found[0]):
        raise TranslateError(f"context.py: expected exactly one module-level singleton `constants`, found {found}")
    return int(found[0][6:])


def load(repo):
    cov = _load_dict(repo, "alvarez_2008_covalent_radii.py", "alvarez_2008_covalent_radii", "covalent_radii", 3)
    vdw = _load_dict(repo, "mantina_2009_vanderwaals_radii.py", "mantina_2009_vanderwaals_radii", "vanderwaals_radii", 2)
    return {"cov": cov, "vdw": vdw, "aliases": _load_aliases(repo), "codata_year": _default_context_year(repo)}


def generate(repo):
    d = load(repo)
    out = ["(* GENERATED from qcelemental/data/{alvarez_2008_covalent_radii,mantina_2009_vanderwaals_radii}.py and the aliases literal of",
           "   CovalentRadii.__init__ by harness/translate/radii.py — do not edit *)",
           "From Coq Require Import ZArith List String.", "Import ListNotations.", "Open Scope string_scope.", "",
           "(* (label, value as decimal string, comment) *)",
           "Definition cov_rows : list (string * string * string) := "
           + clist(d["cov"]["rows"], lambda r: f"({cstr(r[0])}, {cstr(r[1])}, {cstr(r[2])})") + ".",
           f"Definition cov_units : string := {cstr(d['cov']['units'])}.",
           "(* (ident, units, source label whose .data is copied, comment) *)",
           "Definition cov_aliases : list (string * string * string * string) := "
           + clist(d["aliases"], lambda r: f"({cstr(r[0])}, {cstr(r[1])}, {cstr(r[2])}, {cstr(r[3])})") + ".",
           "Definition vdw_rows : list (string * string) := "
           + clist(d["vdw"]["rows"], lambda r: f"({cstr(r[0])}, {cstr(r[1])})") + ".",
           f"Definition vdw_units : string := {cstr(d['vdw']['units'])}.",
           "(* the CODATA set of the module-level singleton `constants` that Datum.to_units converts with *)",
           "Definition default_codata_year : Z := (%d)%%Z." % d["codata_year"], ""]
    coqrun.write_if_changed(os.path.join(coqrun.COQ, "Gen", "Radii.v"), "\n".join(out) + "\n")
    return d
