"""Translator: qcelemental/molutil/align.py::kabsch_quaternion  ->  coq/Gen/Quat.v (property C12).

The sixteen `F[i, j] = <expr over cov[a, b]>` assignments (possibly chained, `F[1, 0] = F[0, 1] = ...`) and
the nine `U[i, j] = <expr over q[k]>` assignments are turned into polynomial terms over an abstract ring
(`genF : mat3 K -> mat4 K`, `genU : quat K -> mat3 K`), so that a sign or index slip in the source
breaks the `ring` proofs of Proofs/Kabsch.v.  Fail-closed: any statement or expression shape that is not
expected raises TranslateError (the remaining statements of the function - covariance, eigh call, choice of
the last eigenvector, return - are compared with their expected spelling)."""
import ast
import os

from .. import coqrun
from ..core import TranslateError

EXPECTED_OTHER = [
    "cov = Q.dot(P.T)",
    "F = np.zeros((4, 4))",
    "ew, ev = np.linalg.eigh(F)",
    "q = ev[:, -1]",
    "U = np.zeros((3, 3))",
    "return U",
]


def _idx(node, arr, rank):
    """node is `arr[i, j]` (rank 2) or `arr[k]` (rank 1) with non-negative integer constants"""
    if not (isinstance(node, ast.Subscript) and isinstance(node.value, ast.Name) and node.value.id == arr):
        return None
    sl = node.slice
    if rank == 1:
        if isinstance(sl, ast.Constant) and type(sl.value) is int and sl.value >= 0:
            return (sl.value,)
        return None
    if isinstance(sl, ast.Tuple) and len(sl.elts) == rank and all(
            isinstance(e, ast.Constant) and type(e.value) is int and e.value >= 0 for e in sl.elts):
        return tuple(e.value for e in sl.elts)
    return None


def _term(node, leaf):
    """expression -> Gallina term in K_scope; `leaf(node)` renders the allowed array reads"""
    r = leaf(node)
    if r is not None:
        return r
    if isinstance(node, ast.Constant) and type(node.value) is int and 0 <= node.value <= 8:
        if node.value == 0:
            return "0"
        return "(" + " + ".join(["1"] * node.value) + ")"
    if isinstance(node, ast.UnaryOp) and isinstance(node.op, ast.USub):
        return "(- " + _term(node.operand, leaf) + ")"
    if isinstance(node, ast.BinOp):
        if isinstance(node.op, ast.Pow):
            if isinstance(node.right, ast.Constant) and node.right.value == 2 and type(node.right.value) is int:
                b = _term(node.left, leaf)
                return f"({b} * {b})"
            raise TranslateError("kabsch_quaternion: only `** 2` powers are expected: " + ast.unparse(node))
        op = {ast.Add: "+", ast.Sub: "-", ast.Mult: "*"}.get(type(node.op))
        if op is None:
            raise TranslateError("kabsch_quaternion: unexpected operator in " + ast.unparse(node))
        return f"({_term(node.left, leaf)} {op} {_term(node.right, leaf)})"
    raise TranslateError("kabsch_quaternion: unexpected expression " + ast.unparse(node))


def parse(repo):
    path = os.path.join(repo, "qcelemental", "molutil", "align.py")
    with open(path) as fh:
        tree = ast.parse(fh.read())
    fns = [n for n in tree.body if isinstance(n, ast.FunctionDef) and n.name == "kabsch_quaternion"]
    if len(fns) != 1:
        raise TranslateError("molutil/align.py: expected exactly one function kabsch_quaternion")
    fn = fns[0]
    if [a.arg for a in fn.args.args] != ["P", "Q"] or fn.args.vararg or fn.args.kwarg or fn.args.kwonlyargs or fn.args.defaults:
        raise TranslateError("kabsch_quaternion: signature is not (P, Q)")
    body = list(fn.body)
    if body and isinstance(body[0], ast.Expr) and isinstance(body[0].value, ast.Constant) and isinstance(body[0].value.value, str):
        body = body[1:]
    F, U, other = {}, {}, []

    def cov_leaf(n):
        ij = _idx(n, "cov", 2)
        if ij is None:
            return None
        if not all(0 <= t <= 2 for t in ij):
            raise TranslateError("kabsch_quaternion: cov index out of range in " + ast.unparse(n))
        return "c%d%d" % ij

    def q_leaf(n):
        k = _idx(n, "q", 1)
        if k is None:
            return None
        if not 0 <= k[0] <= 3:
            raise TranslateError("kabsch_quaternion: q index out of range in " + ast.unparse(n))
        return "q%d" % k[0]

    phase = 0   # statements must come in the order: cov, F zeros, F entries, eigh, q, U zeros, U entries, return
    for st in body:
        if isinstance(st, ast.Assign):
            tgtF = [_idx(t, "F", 2) for t in st.targets]
            tgtU = [_idx(t, "U", 2) for t in st.targets]
            if all(t is not None for t in tgtF):
                if len(other) != 2:
                    raise TranslateError("kabsch_quaternion: F entries assigned at an unexpected place")
                term = _term(st.value, cov_leaf)
                for ij in tgtF:
                    if ij in F or not all(0 <= t <= 3 for t in ij):
                        raise TranslateError(f"kabsch_quaternion: F{list(ij)} assigned twice or out of range")
                    F[ij] = term
                continue
            if all(t is not None for t in tgtU):
                if len(other) != 5:
                    raise TranslateError("kabsch_quaternion: U entries assigned at an unexpected place")
                if len(tgtU) != 1:
                    raise TranslateError("kabsch_quaternion: chained U assignment is not expected")
                ij = tgtU[0]
                if ij in U or not all(0 <= t <= 2 for t in ij):
                    raise TranslateError(f"kabsch_quaternion: U{list(ij)} assigned twice or out of range")
                U[ij] = _term(st.value, q_leaf)
                continue
        other.append(ast.unparse(st))
    if other != EXPECTED_OTHER:
        raise TranslateError("kabsch_quaternion: statements other than the F/U entries differ from the expected ones: " + repr(other))
    missF = [(i, j) for i in range(4) for j in range(4) if (i, j) not in F]
    missU = [(i, j) for i in range(3) for j in range(3) if (i, j) not in U]
    if missF or missU:
        raise TranslateError(f"kabsch_quaternion: entries never assigned: F{missF} U{missU}")
    return F, U


def generate(repo):
    F, U = parse(repo)
    rowF = lambda i: "(" + ", ".join(F[(i, j)] for j in range(4)) + ")"
    rowU = lambda i: "(" + ", ".join(U[(i, j)] for j in range(3)) + ")"
    text = (
        "(* GENERATED by harness/translate/quat.py from qcelemental/molutil/align.py::kabsch_quaternion - do not edit.\n"
        "   genF: the assignments F[i, j] = ... (cov = Q.dot(P.T));  genU: the assignments U[i, j] = ... (q = ev[:, -1]). *)\n"
        "Require Import QV.Common.AlignAlg QV.Common.AlignAlgQuat.\n"
        "Section Gen.\nContext {K : Type} {KO : Ops K}.\nLocal Open Scope K_scope.\n"
        "Definition genF (cov : mat3 K) : mat4 K :=\n"
        "  let '((c00, c01, c02), (c10, c11, c12), (c20, c21, c22)) := cov in\n  ("
        + ",\n   ".join(rowF(i) for i in range(4)) + ").\n"
        "Definition genU (q : quat K) : mat3 K :=\n"
        "  let '(q0, q1, q2, q3) := q in\n  ("
        + ",\n   ".join(rowU(i) for i in range(3)) + ").\n"
        "End Gen.\n")
    coqrun.write_if_changed(os.path.join(coqrun.COQ, "Gen", "Quat.v"), text)
    return F, U
