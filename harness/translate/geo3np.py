"""Translator (C18): the straight-line numpy code of qcelemental/util/misc.py `_norm`, `compute_distance`,
`compute_angle`, `compute_dihedral`  ->  coq/Gen/Dihedral.v, monadic Gallina over Common/Geo3Np.v
(numpy shapes + broadcasting over an abstract field).

Fail-closed: every statement / expression shape that is not explicitly handled raises TranslateError.
Each function whose body calls a transcendental (np.arccos / np.arctan2) is emitted twice:
`<name>_pre` = the statements before that call, returning the array(s) handed to it (pure field + sqrt
arithmetic: what the ring/field proofs are about and what is executed over Q), and `<name>` = the whole."""
import ast
import os

from .. import coqrun
from ..core import TranslateError

SRC = os.path.join("qcelemental", "util", "misc.py")
RESERVED = {"K", "fun", "let", "in", "match", "with", "end", "if", "then", "else", "A0", "A1", "A2", "Ok", "Err",
            "forall", "exists", "Type", "Prop", "Set", "as", "return", "fix", "cofix", "pre"}
UNARY_NP = {"atleast_2d": "np_atleast_2d", "sqrt": "np_sqrt", "arccos": "np_arccos", "degrees": "np_degrees"}
BINARY_NP = {"cross": "np_cross", "arctan2": "np_arctan2"}
TRANSCENDENTAL = {"arccos", "arctan2"}
BINOPS = {ast.Add: "np_add", ast.Sub: "np_sub", ast.Mult: "np_mul", ast.Div: "np_div"}


def _is_np(node, attr=None):
    return (isinstance(node, ast.Attribute) and isinstance(node.value, ast.Name) and node.value.id == "np"
            and (attr is None or node.attr == attr))


class FnTranslator:
    def __init__(self, fn, known_helpers):
        self.fn = fn
        self.helpers = known_helpers      # python name -> coq name of already translated helper (arr -> outcome arr)
        self.binds = []                   # list of (coqvar, coqexpr-returning-outcome)
        self.ntmp = 0

    def fail(self, node, why):
        raise TranslateError(f"{SRC}:{getattr(node, 'lineno', '?')} in {self.fn.name}: {why}: "
                             f"{ast.unparse(node) if isinstance(node, ast.AST) else node}")

    def name(self, n):
        if n in RESERVED or (n.startswith("t") and n[1:].isdigit()):
            raise TranslateError(f"{SRC}: variable name {n!r} in {self.fn.name} clashes with the generated code")
        return n

    def tmp(self):
        self.ntmp += 1
        return f"t{self.ntmp}"

    def const(self, node):
        """an exact small integer constant (int or integral float, possibly negated) or None"""
        neg = False
        if isinstance(node, ast.UnaryOp) and isinstance(node.op, ast.USub):
            neg, node = True, node.operand
        if isinstance(node, ast.Constant) and isinstance(node.value, (int, float)) and not isinstance(node.value, bool):
            v = node.value
            if float(v).is_integer() and abs(v) <= 1000:
                return -int(v) if neg else int(v)
        return None

    def atom(self, node):
        """returns a Coq term of type `arr K` (a variable or a constant), emitting binds for sub-expressions"""
        c = self.const(node)
        if c is not None:
            return f"(A0 (fofZ K ({c})%Z))"
        if isinstance(node, ast.Name):
            return self.name(node.id)
        if _is_np(node, "pi"):
            return "(A0 (fpi K))"
        call = self.expr(node)
        t = self.tmp()
        self.binds.append((t, call))
        return t

    def expr(self, node):
        """returns a Coq term of type `outcome (arr K)`"""
        if isinstance(node, ast.BinOp):
            op = BINOPS.get(type(node.op))
            if op is None:
                self.fail(node, "unsupported operator")
            a = self.atom(node.left)
            b = self.atom(node.right)
            return f"{op} K {a} {b}"
        if isinstance(node, ast.UnaryOp) and isinstance(node.op, ast.USub):
            return f"np_neg K {self.atom(node.operand)}"
        if isinstance(node, ast.Call):
            if node.keywords:
                self.fail(node, "keyword arguments are not modelled")
            f = node.func
            if isinstance(f, ast.Name) and f.id in self.helpers:
                if len(node.args) != 1:
                    self.fail(node, "helper arity")
                return f"{self.helpers[f.id]} {self.atom(node.args[0])}"   # same Section: no K
            if _is_np(f) and f.attr in UNARY_NP and len(node.args) == 1:
                return f"{UNARY_NP[f.attr]} K {self.atom(node.args[0])}"
            if _is_np(f) and f.attr in BINARY_NP and len(node.args) == 2:
                return f"{BINARY_NP[f.attr]} K {self.atom(node.args[0])} {self.atom(node.args[1])}"
            if _is_np(f, "clip") and len(node.args) == 3:
                return "np_clip K " + " ".join(self.atom(a) for a in node.args)
            if _is_np(f, "einsum") and len(node.args) == 3:
                spec = node.args[0]
                if not (isinstance(spec, ast.Constant) and spec.value == "ij,ij->i"):
                    self.fail(node, "only einsum('ij,ij->i', a, b) is modelled")
                return f"np_einsum_ij_ij_i K {self.atom(node.args[1])} {self.atom(node.args[2])}"
            self.fail(node, "unsupported call")
        if isinstance(node, ast.Subscript):
            # only a[:, None] (a new trailing axis on a 1-D array)
            sl = node.slice
            if (isinstance(sl, ast.Tuple) and len(sl.elts) == 2 and isinstance(sl.elts[0], ast.Slice)
                    and sl.elts[0].lower is None and sl.elts[0].upper is None and sl.elts[0].step is None
                    and isinstance(sl.elts[1], ast.Constant) and sl.elts[1].value is None):
                return f"np_col K {self.atom(node.value)}"
            self.fail(node, "only the subscript [:, None] is modelled")
        if isinstance(node, (ast.Name, ast.Constant, ast.Attribute)):
            return f"Ok {self.atom(node)}"
        self.fail(node, "unsupported expression")

    # ---------------------------------------------------------------------------------------
    def body_statements(self):
        body = list(self.fn.body)
        if body and isinstance(body[0], ast.Expr) and isinstance(body[0].value, ast.Constant) and isinstance(body[0].value.value, str):
            body = body[1:]
        return body

    def stmt(self, st):
        """translate one statement; returns None for assignments, or the final Coq outcome term for a return"""
        if isinstance(st, ast.Assign):
            if len(st.targets) != 1 or not isinstance(st.targets[0], ast.Name):
                self.fail(st, "only `name = expr` assignments are modelled")
            call = self.expr(st.value)
            self.binds.append((self.name(st.targets[0].id), call))
            return None
        if isinstance(st, ast.Return):
            if st.value is None:
                self.fail(st, "bare return")
            return self.expr(st.value)
        if isinstance(st, ast.If):
            if not (isinstance(st.test, ast.Name) and st.test.id == "degrees" and len(st.body) == 1 and len(st.orelse) == 1
                    and isinstance(st.body[0], ast.Return) and isinstance(st.orelse[0], ast.Return)):
                self.fail(st, "only `if degrees: return e1 else: return e2` is modelled")
            saved = self.binds
            self.binds = []
            a = self.render(self.stmt(st.body[0]))
            self.binds = []
            b = self.render(self.stmt(st.orelse[0]))
            self.binds = saved
            return f"if degrees then ({a}) else ({b})"
        self.fail(st, "unsupported statement")

    def render(self, final):
        out = ""
        for v, call in self.binds:
            out += f"{v} <- {call} ;;\n  "
        return out + final


def _has_transcendental(node):
    for sub in ast.walk(node):
        if isinstance(sub, ast.Call) and _is_np(sub.func) and sub.func.attr in TRANSCENDENTAL:
            return sub
    return None


def translate_function(fn, helpers):
    """returns Coq text defining fn (and fn_pre when it calls a transcendental)"""
    a = fn.args
    if a.vararg or a.kwarg or a.posonlyargs or a.defaults:
        raise TranslateError(f"{SRC}: unexpected signature of {fn.name}")
    pos = [x.arg for x in a.args]
    kwonly = [x.arg for x in a.kwonlyargs]
    if kwonly not in ([], ["degrees"]):
        raise TranslateError(f"{SRC}: unexpected keyword-only arguments of {fn.name}: {kwonly}")
    if kwonly:
        d = a.kw_defaults[0]
        if not (isinstance(d, ast.Constant) and d.value is False):
            raise TranslateError(f"{SRC}: default of `degrees` in {fn.name} is not False")
    cname = "py" + fn.name if fn.name.startswith("_") else fn.name
    tr = FnTranslator(fn, helpers)
    for p in pos:
        tr.name(p)
    body = tr.body_statements()
    params = " ".join(f"({p} : arr K)" for p in pos)
    dparam = " (degrees : bool)" if kwonly else ""
    # locate the cut
    cut = None
    for i, st in enumerate(body):
        if _has_transcendental(st):
            cut = i
            break
    text = ""
    if cut is None:
        final = None
        for i, st in enumerate(body):
            final = tr.stmt(st)
            if final is not None:
                if i != len(body) - 1:
                    raise TranslateError(f"{SRC}: statements after return in {fn.name}")
                break
        if final is None:
            raise TranslateError(f"{SRC}: {fn.name} does not end in a return")
        text += f"Definition {cname} {params}{dparam} : outcome (arr K) :=\n  {tr.render(final)}.\n"
        return cname, text
    call = _has_transcendental(body[cut])
    if not all(isinstance(x, ast.Name) for x in call.args):
        raise TranslateError(f"{SRC}: arguments of the transcendental call in {fn.name} are not plain names: {ast.unparse(call)}")
    cutnames = [x.id for x in call.args]
    for st in body[:cut]:
        if tr.stmt(st) is not None:
            raise TranslateError(f"{SRC}: return before the transcendental call in {fn.name}")
    rty = "(arr K)" if len(cutnames) == 1 else "(" + " * ".join("arr K" for _ in cutnames) + ")"
    rval = cutnames[0] if len(cutnames) == 1 else "(" + ", ".join(cutnames) + ")"
    text += f"Definition {cname}_pre {params} : outcome {rty} :=\n  {tr.render('Ok ' + rval)}.\n"
    # the rest may only use the cut names (and `degrees`)
    allowed = set(cutnames) | {"degrees", "np"}
    assigned = set()
    for st in body[cut:]:
        for sub in ast.walk(st):
            if isinstance(sub, ast.Name) and isinstance(sub.ctx, ast.Load) and sub.id not in allowed and sub.id not in assigned:
                raise TranslateError(f"{SRC}: {fn.name} uses {sub.id!r} after the transcendental call; only {cutnames} are passed on")
        if isinstance(st, ast.Assign) and isinstance(st.targets[0], ast.Name):
            assigned.add(st.targets[0].id)
    tr2 = FnTranslator(fn, helpers)
    final = None
    rest = body[cut:]
    for i, st in enumerate(rest):
        final = tr2.stmt(st)
        if final is not None:
            if i != len(rest) - 1:
                raise TranslateError(f"{SRC}: statements after return in {fn.name}")
            break
    if final is None:
        raise TranslateError(f"{SRC}: {fn.name} does not end in a return")
    pat = cutnames[0] if len(cutnames) == 1 else "'(" + ", ".join(cutnames) + ")"
    text += (f"Definition {cname} {params}{dparam} : outcome (arr K) :=\n  pre <- {cname}_pre {' '.join(pos)} ;;\n"
             f"  let {pat} := pre in\n  {tr2.render(final)}.\n")
    return cname, text


def generate(repo, out_path):
    path = os.path.join(repo, SRC)
    try:
        with open(path) as fh:
            tree = ast.parse(fh.read())
    except (OSError, SyntaxError) as e:
        raise TranslateError(f"cannot read/parse {path}: {e}")
    fns = {n.name: n for n in tree.body if isinstance(n, ast.FunctionDef)}
    order = ["_norm", "compute_distance", "compute_angle", "compute_dihedral"]
    for n in order:
        if n not in fns:
            raise TranslateError(f"{SRC}: function {n} not found")
    helpers = {}
    text = ("(** GENERATED by harness/translate/geo3np.py from qcelemental/util/misc.py — do not edit. *)\n"
            "From Coq Require Import List Bool ZArith.\n"
            "Require Import QV.Common.Outcome QV.Common.Geo3 QV.Common.Geo3Np.\nImport ListNotations.\n\n"
            "Section Gen.\nVariable K : Fops.\n\n")
    for n in order:
        cname, t = translate_function(fns[n], helpers)
        text += t + "\n"
        if n == "_norm":
            helpers["_norm"] = cname
    text += "End Gen.\n"
    coqrun.write_if_changed(out_path, text)
    return text
