"""Translator (C16): qcelemental/models/molecule.py `Molecule._inertial_tensor` (the nine `tensor[i][j] = ...`
assignments) and the constant GEOMETRY_NOISE  ->  coq/Gen/Inertia.v (terms over an abstract field, Common/Geo3.v).

Fail-closed: any statement / expression shape not listed here raises TranslateError.
  tensor = np.zeros((3, 3))
  tensor[i][j] (= tensor[k][l])? = S           S ::= np.sum(V) | c * S | S * c | -S | S + S | S - S
                                                V ::= weight | geom[:, k] | V ** n | V * V | V + V | V - V | c * V | V * c | -V
  return tensor
An atom is a pair (position : vec3 K, weight : K); np.sum(V) becomes fsum over the atoms of the per-atom value of V."""
import ast
import os

from .. import coqrun
from ..core import TranslateError

SRC = os.path.join("qcelemental", "models", "molecule.py")


def _fail(node, why):
    raise TranslateError(f"{SRC}:{getattr(node, 'lineno', '?')} in _inertial_tensor: {why}: "
                         f"{ast.unparse(node) if isinstance(node, ast.AST) else node}")


def _const(node):
    neg = False
    if isinstance(node, ast.UnaryOp) and isinstance(node.op, ast.USub):
        neg, node = True, node.operand
    if isinstance(node, ast.Constant) and isinstance(node.value, (int, float)) and not isinstance(node.value, bool):
        v = node.value
        if float(v).is_integer() and abs(v) <= 1000:
            return -int(v) if neg else int(v)
    return None


def _cz(c):
    return f"(fofZ K ({c})%Z)"


def vec_expr(node, gname, wname):
    """per-atom value (Coq term of type K with the atom `a` in scope)"""
    if isinstance(node, ast.Name) and node.id == wname:
        return "(snd a)"
    if isinstance(node, ast.Subscript) and isinstance(node.value, ast.Name) and node.value.id == gname:
        sl = node.slice
        if (isinstance(sl, ast.Tuple) and len(sl.elts) == 2 and isinstance(sl.elts[0], ast.Slice)
                and sl.elts[0].lower is None and sl.elts[0].upper is None and sl.elts[0].step is None
                and isinstance(sl.elts[1], ast.Constant) and sl.elts[1].value in (0, 1, 2)):
            return "(" + ["vx", "vy", "vz"][sl.elts[1].value] + " (fst a))"
        _fail(node, "only geom[:, 0|1|2] is modelled")
    c = _const(node)
    if c is not None:
        return _cz(c)
    if isinstance(node, ast.UnaryOp) and isinstance(node.op, ast.USub):
        return f"(fopp K {vec_expr(node.operand, gname, wname)})"
    if isinstance(node, ast.BinOp):
        if isinstance(node.op, ast.Pow):
            n = _const(node.right)
            if n is None or not (1 <= n <= 4):
                _fail(node, "only small positive integer powers are modelled")
            b = vec_expr(node.left, gname, wname)
            out = b
            for _ in range(n - 1):
                out = f"(fmul K {out} {b})"
            return out
        op = {ast.Add: "fadd", ast.Sub: "fsub", ast.Mult: "fmul"}.get(type(node.op))
        if op is None:
            _fail(node, "unsupported operator")
        return f"({op} K {vec_expr(node.left, gname, wname)} {vec_expr(node.right, gname, wname)})"
    _fail(node, "unsupported per-atom expression")


def scal_expr(node, gname, wname):
    if isinstance(node, ast.Call) and isinstance(node.func, ast.Attribute) and isinstance(node.func.value, ast.Name) \
            and node.func.value.id == "np" and node.func.attr == "sum" and len(node.args) == 1 and not node.keywords:
        return f"(fsum K (map (fun a : vec3 K * K => {vec_expr(node.args[0], gname, wname)}) atoms))"
    c = _const(node)
    if c is not None:
        return _cz(c)
    if isinstance(node, ast.UnaryOp) and isinstance(node.op, ast.USub):
        return f"(fopp K {scal_expr(node.operand, gname, wname)})"
    if isinstance(node, ast.BinOp):
        op = {ast.Add: "fadd", ast.Sub: "fsub", ast.Mult: "fmul"}.get(type(node.op))
        if op is None:
            _fail(node, "unsupported operator")
        return f"({op} K {scal_expr(node.left, gname, wname)} {scal_expr(node.right, gname, wname)})"
    _fail(node, "unsupported scalar expression")


def _entry(t):
    """tensor[i][j] -> (i, j)"""
    if (isinstance(t, ast.Subscript) and isinstance(t.value, ast.Subscript) and isinstance(t.value.value, ast.Name)
            and t.value.value.id == "tensor" and isinstance(t.value.slice, ast.Constant) and isinstance(t.slice, ast.Constant)
            and t.value.slice.value in (0, 1, 2) and t.slice.value in (0, 1, 2)):
        return (t.value.slice.value, t.slice.value)
    _fail(t, "assignment target is not tensor[i][j]")


def generate(repo, out_path):
    path = os.path.join(repo, SRC)
    try:
        with open(path) as fh:
            tree = ast.parse(fh.read())
    except (OSError, SyntaxError) as e:
        raise TranslateError(f"cannot read/parse {path}: {e}")
    noise = None
    for n in tree.body:
        if isinstance(n, ast.Assign) and len(n.targets) == 1 and isinstance(n.targets[0], ast.Name) and n.targets[0].id == "GEOMETRY_NOISE":
            if not (isinstance(n.value, ast.Constant) and isinstance(n.value.value, int) and 1 <= n.value.value <= 30):
                raise TranslateError(f"{SRC}: GEOMETRY_NOISE is not a small positive integer literal")
            noise = n.value.value
    if noise is None:
        raise TranslateError(f"{SRC}: GEOMETRY_NOISE not found")
    cls = [n for n in tree.body if isinstance(n, ast.ClassDef) and n.name == "Molecule"]
    if len(cls) != 1:
        raise TranslateError(f"{SRC}: class Molecule not found")
    fns = {n.name: n for n in cls[0].body if isinstance(n, ast.FunctionDef)}
    fn = fns.get("_inertial_tensor")
    if fn is None:
        raise TranslateError(f"{SRC}: Molecule._inertial_tensor not found")
    a = fn.args
    if [x.arg for x in a.args] != ["geom"] or [x.arg for x in a.kwonlyargs] != ["weight"] or a.vararg or a.kwarg:
        raise TranslateError(f"{SRC}: unexpected signature of _inertial_tensor")
    body = list(fn.body)
    if body and isinstance(body[0], ast.Expr) and isinstance(body[0].value, ast.Constant) and isinstance(body[0].value.value, str):
        body = body[1:]
    if not body or ast.unparse(body[0]) != "tensor = np.zeros((3, 3))":
        raise TranslateError(f"{SRC}: _inertial_tensor does not start with tensor = np.zeros((3, 3))")
    if not (isinstance(body[-1], ast.Return) and isinstance(body[-1].value, ast.Name) and body[-1].value.id == "tensor"):
        raise TranslateError(f"{SRC}: _inertial_tensor does not end with return tensor")
    entries = {}
    for st in body[1:-1]:
        if not isinstance(st, ast.Assign):
            _fail(st, "unsupported statement")
        term = scal_expr(st.value, "geom", "weight")
        for t in st.targets:
            ij = _entry(t)
            if ij in entries:
                _fail(st, f"tensor{list(ij)} assigned twice")
            entries[ij] = term
    missing = [ij for ij in ((i, j) for i in range(3) for j in range(3)) if ij not in entries]
    if missing:
        raise TranslateError(f"{SRC}: _inertial_tensor does not assign entries {missing}")
    # (the phase threshold itself is translated by generate_body)
    text = ("(** GENERATED by harness/translate/inertia.py from qcelemental/models/molecule.py — do not edit. *)\n"
            "From Coq Require Import List ZArith.\nRequire Import QV.Common.Geo3 QV.Common.Geo3Sum.\nImport ListNotations.\n\n"
            f"Definition geometry_noise_exp : Z := {noise}%Z.\n\n"
            "Section Gen.\nVariable K : Fops.\n\n")
    for (i, j), term in sorted(entries.items()):
        text += f"Definition it_{i}_{j} (atoms : list (vec3 K * K)) : K :=\n  {term}.\n"
    text += ("\nDefinition inertia_tensor (atoms : list (vec3 K * K)) : mat3 K :=\n"
             "  ((it_0_0 atoms, it_0_1 atoms, it_0_2 atoms),\n   (it_1_0 atoms, it_1_1 atoms, it_1_2 atoms),\n"
             "   (it_2_0 atoms, it_2_1 atoms, it_2_2 atoms)).\nEnd Gen.\n")
    coqrun.write_if_changed(out_path, text)
    return text


# ------------------------------------------------------------------------------------------------------------------
# the body of Molecule._orient_molecule_internal  ->  coq/Gen/OrientBody.v

def _sexpr(node, env):
    """scalar expression of the phase loop -> Coq term of type K.  env: python name -> Coq term"""
    c = _const(node)
    if c is not None:
        return _cz(c)
    if isinstance(node, ast.Name) and node.id in env:
        return env[node.id]
    if isinstance(node, ast.UnaryOp) and isinstance(node.op, ast.USub):
        return f"(fopp K {_sexpr(node.operand, env)})"
    if isinstance(node, ast.Call) and isinstance(node.func, ast.Name) and node.func.id == "abs" and len(node.args) == 1 and not node.keywords:
        return f"(py_abs K {_sexpr(node.args[0], env)})"
    if isinstance(node, ast.BinOp):
        if isinstance(node.op, ast.Pow):
            # base ** (-NAME) with an integer base and the module constant: 1 / base^N
            b = _const(node.left)
            r = node.right
            if (b is not None and b > 1 and isinstance(r, ast.UnaryOp) and isinstance(r.op, ast.USub)
                    and isinstance(r.operand, ast.Name) and r.operand.id == "GEOMETRY_NOISE"):
                return f"(finv K (fofZ K ({b} ^ geometry_noise_exp)%Z))"
            raise TranslateError(f"{SRC}: unsupported power in _orient_molecule_internal: {ast.unparse(node)}")
        op = {ast.Add: "fadd", ast.Sub: "fsub", ast.Mult: "fmul", ast.Div: "fdiv"}.get(type(node.op))
        if op:
            return f"({op} K {_sexpr(node.left, env)} {_sexpr(node.right, env)})"
    raise TranslateError(f"{SRC}: unsupported scalar expression in _orient_molecule_internal: {ast.unparse(node)}")


def _bexpr(node, env):
    """a single comparison -> Coq bool"""
    if isinstance(node, ast.Compare) and len(node.ops) == 1 and len(node.comparators) == 1:
        a, b = _sexpr(node.left, env), _sexpr(node.comparators[0], env)
        op = node.ops[0]
        if isinstance(op, ast.Lt):
            return f"(fltb K {a} {b})"
        if isinstance(op, ast.LtE):
            return f"(fleb K {a} {b})"
        if isinstance(op, ast.Gt):
            return f"(fltb K {b} {a})"
        if isinstance(op, ast.GtE):
            return f"(fleb K {b} {a})"
    raise TranslateError(f"{SRC}: unsupported test in _orient_molecule_internal: {ast.unparse(node)}")


def _expect(node, text, what):
    got = ast.unparse(node)
    if got != text:
        raise TranslateError(f"{SRC}:{getattr(node, 'lineno', '?')} _orient_molecule_internal: expected {what} `{text}`, found `{got}`")


def generate_body(repo, out_path):
    path = os.path.join(repo, SRC)
    try:
        with open(path) as fh:
            tree = ast.parse(fh.read())
    except (OSError, SyntaxError) as e:
        raise TranslateError(f"cannot read/parse {path}: {e}")
    cls = [n for n in tree.body if isinstance(n, ast.ClassDef) and n.name == "Molecule"]
    if len(cls) != 1:
        raise TranslateError(f"{SRC}: class Molecule not found")
    fns = {n.name: n for n in cls[0].body if isinstance(n, ast.FunctionDef)}
    fn = fns.get("_orient_molecule_internal")
    if fn is None:
        raise TranslateError(f"{SRC}: Molecule._orient_molecule_internal not found")
    if [a.arg for a in fn.args.args] != ["self"] or fn.args.kwonlyargs or fn.args.vararg or fn.args.kwarg:
        raise TranslateError(f"{SRC}: unexpected signature of _orient_molecule_internal")
    # nothing of the molecule but its geometry, its masses and the tensor helper may be consulted (in particular no frame flag)
    used = sorted({n.attr for n in ast.walk(fn) if isinstance(n, ast.Attribute) and isinstance(n.value, ast.Name) and n.value.id == "self"})
    if used != ["_inertial_tensor", "geometry", "masses"]:
        raise TranslateError(f"{SRC}: _orient_molecule_internal consults self.{used}; only geometry, masses and _inertial_tensor are modelled")
    body = list(fn.body)
    if body and isinstance(body[0], ast.Expr) and isinstance(body[0].value, ast.Constant) and isinstance(body[0].value.value, str):
        body = body[1:]
    if len(body) != 10:
        raise TranslateError(f"{SRC}: _orient_molecule_internal has {len(body)} statements, 10 expected")
    _expect(body[0], "new_geometry = self.geometry.copy()", "the copy of the geometry")
    _expect(body[1], "np_mass = np.array(self.masses)", "the masses")
    _expect(body[2], "new_geometry -= np.average(new_geometry, axis=0, weights=np_mass)", "the mass-weighted centroid shift")
    _expect(body[3], "tensor = self._inertial_tensor(new_geometry, weight=np_mass)", "the tensor call")
    _expect(body[4], "_, evecs = np.linalg.eigh(tensor)", "the eigh call")
    _expect(body[5], "new_geometry = np.dot(new_geometry, evecs)", "the rotation")
    _expect(body[6], "phase_check = [False, False, False]", "the phase flags")
    st = body[7]
    if not (isinstance(st, ast.Assign) and len(st.targets) == 1 and isinstance(st.targets[0], ast.Name) and st.targets[0].id == "geom_noise"):
        raise TranslateError(f"{SRC}: expected geom_noise = ..., found {ast.unparse(st)}")
    noise = _sexpr(st.value, {})
    loop = body[8]
    _expect(body[9], "return new_geometry", "the return")
    # the loop skeleton
    if not (isinstance(loop, ast.For) and not loop.orelse and ast.unparse(loop.target) == "num"
            and ast.unparse(loop.iter) == "range(new_geometry.shape[0])" and len(loop.body) == 2):
        raise TranslateError(f"{SRC}: unexpected outer loop in _orient_molecule_internal")
    inner, brk = loop.body
    if not (isinstance(inner, ast.For) and not inner.orelse and ast.unparse(inner.target) == "x" and ast.unparse(inner.iter) == "range(3)"
            and len(inner.body) == 5):
        raise TranslateError(f"{SRC}: unexpected inner loop in _orient_molecule_internal")
    _expect(brk, "if sum(phase_check) == 3:\n    break", "the early exit")
    i0, i1, i2, i3, i4 = inner.body
    _expect(i0, "if phase_check[x]:\n    continue", "the skip of finished axes")
    _expect(i1, "val = new_geometry[num, x]", "the coordinate read")
    if not (isinstance(i2, ast.If) and not i2.orelse and len(i2.body) == 1 and isinstance(i2.body[0], ast.Continue)):
        raise TranslateError(f"{SRC}: expected `if <test>: continue`, found {ast.unparse(i2)}")
    env = {"val": "val", "geom_noise": "geom_noise"}
    small = _bexpr(i2.test, env)
    _expect(i3, "phase_check[x] = True", "marking the axis as done")
    if not (isinstance(i4, ast.If) and not i4.orelse and len(i4.body) == 1 and isinstance(i4.body[0], ast.AugAssign)
            and isinstance(i4.body[0].op, ast.Mult) and ast.unparse(i4.body[0].target) == "new_geometry[:, x]"):
        raise TranslateError(f"{SRC}: expected `if <test>: new_geometry[:, x] *= <c>`, found {ast.unparse(i4)}")
    neg = _bexpr(i4.test, env)
    mult = _sexpr(i4.body[0].value, env)
    text = ("(** GENERATED by harness/translate/inertia.py (generate_body) from Molecule._orient_molecule_internal — do not edit.\n"
            "    Statement order and loop skeleton are checked against the source; operands, tests, multiplier and threshold are\n"
            "    translated from it.  self.geometry / self.masses are the two arguments; no other attribute is consulted. *)\n"
            "From Coq Require Import List ZArith.\n"
            "Require Import QV.Common.Outcome QV.Common.Geo3 QV.Common.Geo3Sum QV.Common.Geo3Loop QV.Gen.Inertia.\nImport ListNotations.\n\n"
            "Section Gen.\nVariable K : Fops.\nVariable eigh : mat3 K -> vec3 K * mat3 K.     (* np.linalg.eigh: (w, v) *)\n\n"
            "Definition orient_internal_gen (self_geometry : list (vec3 K)) (self_masses : list K) : outcome (list (vec3 K)) :=\n"
            "  let new_geometry := self_geometry in\n"
            "  let np_mass := self_masses in\n"
            "  obind (np_average0 K new_geometry np_mass) (fun avg =>\n"
            "  let new_geometry := np_isub_rows K new_geometry avg in\n"
            "  let tensor := inertia_tensor K (combine new_geometry np_mass) in\n"
            "  let evecs := snd (eigh tensor) in\n"
            "  let new_geometry := np_dot_rows K new_geometry evecs in\n"
            f"  let geom_noise := {noise} in\n"
            f"  Ok (eager_phase_loop K (fun val => {small}) (fun val => {neg}) {mult} new_geometry)).\n"
            "End Gen.\n")
    coqrun.write_if_changed(out_path, text)
    return text


# ------------------------------------------------------------------------------------------------------------------
# what the public entry points do with the internal result:  float_prep (array branch) + the `if orient:` branch of
# Molecule.__init__ + the orient pass-through of orient_molecule / from_data / from_file / get_fragment
#   ->  coq/Gen/OrientStore.v

def _fp_threshold(node, nname):
    """BASE ** (-(NAME + c))  ->  (base, c)"""
    if (isinstance(node, ast.BinOp) and isinstance(node.op, ast.Pow) and _const(node.left) is not None and _const(node.left) > 1
            and isinstance(node.right, ast.UnaryOp) and isinstance(node.right.op, ast.USub)):
        e = node.right.operand
        if (isinstance(e, ast.BinOp) and isinstance(e.op, ast.Add) and isinstance(e.left, ast.Name) and e.left.id == nname
                and _const(e.right) is not None and 0 <= _const(e.right) <= 4):
            return _const(node.left), _const(e.right)
    raise TranslateError(f"{SRC}: float_prep: unsupported zero-flip threshold `{ast.unparse(node)}`")


def generate_store(repo, out_path):
    path = os.path.join(repo, SRC)
    try:
        with open(path) as fh:
            tree = ast.parse(fh.read())
    except (OSError, SyntaxError) as e:
        raise TranslateError(f"cannot read/parse {path}: {e}")
    # ---- float_prep(array, around): the list/ndarray branch
    fp = [n for n in tree.body if isinstance(n, ast.FunctionDef) and n.name == "float_prep"]
    if len(fp) != 1 or [a.arg for a in fp[0].args.args] != ["array", "around"] or fp[0].args.defaults or fp[0].args.kwonlyargs:
        raise TranslateError(f"{SRC}: float_prep(array, around) not found / unexpected signature")
    body = [s for s in fp[0].body if not (isinstance(s, ast.Expr) and isinstance(s.value, ast.Constant))]
    if len(body) != 2 or not isinstance(body[0], ast.If):
        raise TranslateError(f"{SRC}: float_prep: expected one if/elif/else ladder followed by the return")
    _expect(body[1], "return array", "float_prep's return")
    br = body[0]
    if ast.unparse(br.test) != "isinstance(array, (list, np.ndarray))" or len(br.body) != 2:
        raise TranslateError(f"{SRC}: float_prep: the first branch is not the two-statement list/ndarray branch: `{ast.unparse(br.test)}`")
    _expect(br.body[0], "array = np.around(array, around)", "the rounding")
    st = br.body[1]
    ok = (isinstance(st, ast.Assign) and len(st.targets) == 1 and isinstance(st.targets[0], ast.Subscript)
          and ast.unparse(st.targets[0].value) == "array" and isinstance(st.targets[0].slice, ast.Compare)
          and len(st.targets[0].slice.ops) == 1 and ast.unparse(st.targets[0].slice.left) == "np.abs(array)")
    if not ok:
        raise TranslateError(f"{SRC}: float_prep: expected `array[np.abs(array) <cmp> T] = c`, found `{ast.unparse(st)}`")
    cmpop = st.targets[0].slice.ops[0]
    base, plus = _fp_threshold(st.targets[0].slice.comparators[0], "around")
    thr = f"(finv K (fofZ K ({base} ^ (around + {plus}))%Z))"
    if isinstance(cmpop, ast.Lt):
        test = f"(fltb K (py_abs K x) {thr})"
    elif isinstance(cmpop, ast.LtE):
        test = f"(fleb K (py_abs K x) {thr})"
    else:
        raise TranslateError(f"{SRC}: float_prep: unsupported comparison in the zero flip: `{ast.unparse(st)}`")
    fill = _const(st.value)
    if fill is None:
        raise TranslateError(f"{SRC}: float_prep: unsupported fill value `{ast.unparse(st.value)}`")
    # ---- Molecule.__init__: the orient branch
    cls = [n for n in tree.body if isinstance(n, ast.ClassDef) and n.name == "Molecule"]
    if len(cls) != 1:
        raise TranslateError(f"{SRC}: class Molecule not found")
    fns = {n.name: n for n in cls[0].body if isinstance(n, ast.FunctionDef)}
    init = fns.get("__init__")
    if init is None or [a.arg for a in init.args.args] != ["self", "orient", "validate"] or ast.unparse(init.args.defaults[0]) != "False":
        raise TranslateError(f"{SRC}: Molecule.__init__(self, orient=False, validate=None, **kwargs) not found")
    if any(isinstance(t, ast.Name) and t.id == "orient" for n in ast.walk(init) if isinstance(n, (ast.Assign, ast.AugAssign, ast.AnnAssign))
           for t in (n.targets if isinstance(n, ast.Assign) else [n.target])):
        raise TranslateError(f"{SRC}: Molecule.__init__ reassigns `orient`")
    noise_assign = [n for n in init.body if isinstance(n, ast.Assign) and ast.unparse(n.targets[0]) == "geometry_noise"]
    if len(noise_assign) != 1 or ast.unparse(noise_assign[0].value) != "kwargs.pop('geometry_noise', GEOMETRY_NOISE)":
        raise TranslateError(f"{SRC}: Molecule.__init__: geometry_noise is not kwargs.pop('geometry_noise', GEOMETRY_NOISE)")
    if sum(1 for n in ast.walk(init) if isinstance(n, (ast.Assign, ast.AugAssign)) and
           any(ast.unparse(t) == "geometry_noise" for t in (n.targets if isinstance(n, ast.Assign) else [n.target]))) != 1:
        raise TranslateError(f"{SRC}: Molecule.__init__ assigns geometry_noise more than once")
    last = init.body[-1]
    if not (isinstance(last, ast.If) and ast.unparse(last.test) == "orient" and len(last.body) == 1):
        raise TranslateError(f"{SRC}: Molecule.__init__ does not end with the `if orient:` ladder")
    _expect(last.body[0], "values['geometry'] = float_prep(self._orient_molecule_internal(), geometry_noise)", "the orient branch")
    if sum(1 for n in ast.walk(init) if isinstance(n, ast.Name) and n.id == "orient") != 1:
        raise TranslateError(f"{SRC}: Molecule.__init__ consults `orient` in more than one place")
    # the statement before the ladder must be the symbols title-casing (under `if validate:`): nothing else touches values['geometry']
    for n in ast.walk(init):
        if isinstance(n, ast.Assign) and any(ast.unparse(t) == "values['geometry']" for t in n.targets) and n is not last.body[0]:
            inside_else = last.orelse and any(n is m for e in last.orelse for m in ast.walk(e))
            if not inside_else:
                raise TranslateError(f"{SRC}: Molecule.__init__ assigns values['geometry'] outside the orient ladder")
    # ---- pass-through of the flag by the other public entry points
    def returns(fname, text):
        f = fns.get(fname)
        if f is None:
            raise TranslateError(f"{SRC}: Molecule.{fname} not found")
        rets = [n for n in ast.walk(f) if isinstance(n, ast.Return)]
        if not rets or ast.unparse(rets[-1]) != text:
            raise TranslateError(f"{SRC}: Molecule.{fname}: expected final `{text}`, found `{ast.unparse(rets[-1]) if rets else None}`")
        return f
    f = returns("orient_molecule", "return Molecule(orient=True, **self.dict())")
    if len([s for s in f.body if not (isinstance(s, ast.Expr) and isinstance(s.value, ast.Constant))]) != 1:
        raise TranslateError(f"{SRC}: Molecule.orient_molecule has more than its return statement")
    for fname, text in (("from_data", "return cls(orient=orient, validate=validate, **input_dict)"),
                        ("from_file", "return cls.from_data(data, dtype, orient=orient, **kwargs)"),
                        ("get_fragment", "return Molecule(orient=orient, **constructor_dict)")):
        f = returns(fname, text)
        if sum(1 for n in ast.walk(f) if isinstance(n, ast.Name) and n.id == "orient") != 1:
            raise TranslateError(f"{SRC}: Molecule.{fname} uses `orient` other than passing it on")
        dflt = {a.arg: d for a, d in zip(f.args.kwonlyargs, f.args.kw_defaults)}
        pos = f.args.args[len(f.args.args) - len(f.args.defaults):]
        dflt.update({a.arg: d for a, d in zip(pos, f.args.defaults)})
        if "orient" not in dflt or ast.unparse(dflt["orient"]) != "False":
            raise TranslateError(f"{SRC}: Molecule.{fname}: default of `orient` is not False")
    text = ("(** GENERATED by harness/translate/inertia.py (generate_store) from float_prep and Molecule.__init__ — do not edit.\n"
            "    float_prep's list/ndarray branch (np.around, then the zero flip with its comparison, threshold and fill value taken\n"
            "    from the source) applied entrywise to the internal result, as the `if orient:` branch of Molecule.__init__ does\n"
            "    (values['geometry'] = float_prep(self._orient_molecule_internal(), geometry_noise); geometry_noise defaults to\n"
            "    GEOMETRY_NOISE).  Checked structurally: orient_molecule is `Molecule(orient=True, **self.dict())`; from_data, from_file\n"
            "    and get_fragment only pass `orient` (default False) on to the constructor. *)\n"
            "From Coq Require Import List ZArith.\n"
            "Require Import QV.Common.Outcome QV.Common.Geo3 QV.Common.Geo3Sum QV.Common.Geo3Loop QV.Gen.Inertia QV.Gen.OrientBody.\n"
            "Import ListNotations.\n\n"
            "Section Gen.\nVariable K : Fops.\n"
            "Variable eigh : mat3 K -> vec3 K * mat3 K.     (* np.linalg.eigh: (w, v) *)\n"
            "Variable np_around : Z -> K -> K.              (* np.around(x, n) on one entry *)\n\n"
            "Definition float_prep_entry_gen (around : Z) (x : K) : K :=\n"
            "  let x := np_around around x in\n"
            f"  if {test} then (fofZ K ({fill})%Z) else x.\n\n"
            "Definition default_geometry_noise : Z := geometry_noise_exp.\n\n"
            "Definition orient_stored_gen (geometry_noise : Z) (self_geometry : list (vec3 K)) (self_masses : list K) : outcome (list (vec3 K)) :=\n"
            "  obind (orient_internal_gen K eigh self_geometry self_masses) (fun g =>\n"
            "  Ok (map (vmap (float_prep_entry_gen geometry_noise)) g)).\n"
            "End Gen.\n")
    coqrun.write_if_changed(out_path, text)
    return text
