"""Translator (C16): qcelemental/models/molecule.py `Molecule._inertial_tensor` (the nine `tensor[i][j] = ...`
assignments) and the constant GEOMETRY_NOISE  ->  coq/Gen/Inertia.v (terms over an abstract field, Common/Geo3.v).

Fail-closed: any statement / expression shape not listed here raises TranslateError.
  tensor = np.zeros((3, 3))
  tensor[i][j] (= tensor[k][l])? = S           S ::= np.sum(V) | c * S | S * c | -S | S + S | S - S
                                                V ::= weight | geom[:, k] | V ** n | V * V | V + V | V - V | c * V | V * c | -V
  return tensor
An atom is a pair (position : vec3 K, weight : K); np.sum(V) becomes fsum over the atoms of the per-atom value of V."""
import ast
import os

from .. import coqrun
from ..core import TranslateError

SRC = os.path.join("qcelemental", "models", "molecule.py")


def _fail(node, why):
    raise TranslateError(f"{SRC}:{getattr(node, 'lineno', '?')} in _inertial_tensor: {why}: "
                         f"{ast.unparse(node) if isinstance(node, ast.AST) else node}")


def _const(node):
    neg = False
    if isinstance(node, ast.UnaryOp) and isinstance(node.op, ast.USub):
        neg, node = True, node.operand
    if isinstance(node, ast.Constant) and isinstance(node.value, (int, float)) and not isinstance(node.value, bool):
        v = node.value
        if float(v).is_integer() and abs(v) <= 1000:
            return -int(v) if neg else int(v)
    return None


def _cz(c):
    return f"(fofZ K ({c})%Z)"


def vec_expr(node, gname, wname):
    """per-atom value (Coq term of type K with the atom `a` in scope)"""
    if isinstance(node, ast.Name) and node.id == wname:
        return "(snd a)"
    if isinstance(node, ast.Subscript) and isinstance(node.value, ast.Name) and node.value.id == gname:
        sl = node.slice
        if (isinstance(sl, ast.Tuple) and len(sl.elts) == 2 and isinstance(sl.elts[0], ast.Slice)
                and sl.elts[0].lower is None and sl.elts[0].upper is None and sl.elts[0].step is None
                and isinstance(sl.elts[1], ast.Constant) and sl.elts[1].value in (0, 1, 2)):
            return "(" + ["vx", "vy", "vz"][sl.elts[1].value] + " (fst a))"
        _fail(node, "only geom[:, 0|1|2] is modelled")
    c = _const(node)
    if c is not None:
        return _cz(c)
    if isinstance(node, ast.UnaryOp) and isinstance(node.op, ast.USub):
        return f"(fopp K {vec_expr(node.operand, gname, wname)})"
    if isinstance(node, ast.BinOp):
        if isinstance(node.op, ast.Pow):
            n = _const(node.right)
            if n is None or not (1 <= n <= 4):
                _fail(node, "only small positive integer powers are modelled")
            b = vec_expr(node.left, gname, wname)
            out = b
            for _ in range(n - 1):
                out = f"(fmul K {out} {b})"
            return out
        op = {ast.Add: "fadd", ast.Sub: "fsub", ast.Mult: "fmul"}.get(type(node.op))
        if op is None:
            _fail(node, "unsupported operator")
        return f"({op} K {vec_expr(node.left, gname, wname)} {vec_expr(node.right, gname, wname)})"
    _fail(node, "unsupported per-atom expression")


def scal_expr(node, gname, wname):
    if isinstance(node, ast.Call) and isinstance(node.func, ast.Attribute) and isinstance(node.func.value, ast.Name) \
            and node.func.value.id == "np" and node.func.attr == "sum" and len(node.args) == 1 and not node.keywords:
        return f"(fsum K (map (fun a : vec3 K * K => {vec_expr(node.args[0], gname, wname)}) atoms))"
    c = _const(node)
    if c is not None:
        return _cz(c)
    if isinstance(node, ast.UnaryOp) and isinstance(node.op, ast.USub):
        return f"(fopp K {scal_expr(node.operand, gname, wname)})"
    if isinstance(node, ast.BinOp):
        op = {ast.Add: "fadd", ast.Sub: "fsub", ast.Mult: "fmul"}.get(type(node.op))
        if op is None:
            _fail(node, "unsupported operator")
        return f"({op} K {scal_expr(node.left, gname, wname)} {scal_expr(node.right, gname, wname)})"
    _fail(node, "unsupported scalar expression")


def _entry(t):
    """tensor[i][j] -> (i, j)"""
    if (isinstance(t, ast.Subscript) and isinstance(t.value, ast.Subscript) and isinstance(t.value.value, ast.Name)
            and t.value.value.id == "tensor" and isinstance(t.value.slice, ast.Constant) and isinstance(t.slice, ast.Constant)
            and t.value.slice.value in (0, 1, 2) and t.slice.value in (0, 1, 2)):
        return (t.value.slice.value, t.slice.value)
    _fail(t, "assignment target is not tensor[i][j]")


def generate(repo, out_path):
    path = os.path.join(repo, SRC)
    try:
        with open(path) as fh:
            tree = ast.parse(fh.read())
    except (OSError, SyntaxError) as e:
        raise TranslateError(f"cannot read/parse {path}: {e}")
    noise = None
    for n in tree.body:
        if isinstance(n, ast.Assign) and len(n.targets) == 1 and isinstance(n.targets[0], ast.Name) and n.targets[0].id == "GEOMETRY_NOISE":
            if not (isinstance(n.value, ast.Constant) and isinstance(n.value.value, int) and 1 <= n.value.value <= 30):
                raise TranslateError(f"{SRC}: GEOMETRY_NOISE is not a small positive integer literal")
            noise = n.value.value
    if noise is None:
        raise TranslateError(f"{SRC}: GEOMETRY_NOISE not found")
    cls = [n for n in tree.body if isinstance(n, ast.ClassDef) and n.name == "Molecule"]
    if len(cls) != 1:
        raise TranslateError(f"{SRC}: class Molecule not found")
    fns = {n.name: n for n in cls[0].body if isinstance(n, ast.FunctionDef)}
    fn = fns.get("_inertial_tensor")
    if fn is None:
        raise TranslateError(f"{SRC}: Molecule._inertial_tensor not found")
    a = fn.args
    if [x.arg for x in a.args] != ["geom"] or [x.arg for x in a.kwonlyargs] != ["weight"] or a.vararg or a.kwarg:
        raise TranslateError(f"{SRC}: unexpected signature of _inertial_tensor")
    body = list(fn.body)
    if body and isinstance(body[0], ast.Expr) and isinstance(body[0].value, ast.Constant) and isinstance(body[0].value.value, str):
        body = body[1:]
    if not body or ast.unparse(body[0]) != "tensor = np.zeros((3, 3))":
        raise TranslateError(f"{SRC}: _inertial_tensor does not start with tensor = np.zeros((3, 3))")
    if not (isinstance(body[-1], ast.Return) and isinstance(body[-1].value, ast.Name) and body[-1].value.id == "tensor"):
        raise TranslateError(f"{SRC}: _inertial_tensor does not end with return tensor")
    entries = {}
    for st in body[1:-1]:
        if not isinstance(st, ast.Assign):
            _fail(st, "unsupported statement")
        term = scal_expr(st.value, "geom", "weight")
        for t in st.targets:
            ij = _entry(t)
            if ij in entries:
                _fail(st, f"tensor{list(ij)} assigned twice")
            entries[ij] = term
    missing = [ij for ij in ((i, j) for i in range(3) for j in range(3)) if ij not in entries]
    if missing:
        raise TranslateError(f"{SRC}: _inertial_tensor does not assign entries {missing}")
    # the threshold of the phase loop must be 10 ** (-GEOMETRY_NOISE)
    om = fns.get("_orient_molecule_internal")
    if om is None:
        raise TranslateError(f"{SRC}: Molecule._orient_molecule_internal not found")
    gn = [n for n in ast.walk(om) if isinstance(n, ast.Assign) and len(n.targets) == 1 and isinstance(n.targets[0], ast.Name)
          and n.targets[0].id == "geom_noise"]
    if len(gn) != 1 or ast.unparse(gn[0].value) not in ("10 ** (-GEOMETRY_NOISE)", "10 ** -GEOMETRY_NOISE"):
        raise TranslateError(f"{SRC}: the phase threshold is not geom_noise = 10 ** (-GEOMETRY_NOISE)")
    text = ("(** GENERATED by harness/translate/inertia.py from qcelemental/models/molecule.py — do not edit. *)\n"
            "From Coq Require Import List ZArith.\nRequire Import QV.Common.Geo3 QV.Common.Geo3Sum.\nImport ListNotations.\n\n"
            f"Definition geometry_noise_exp : Z := {noise}%Z.\n\n"
            "Section Gen.\nVariable K : Fops.\n\n")
    for (i, j), term in sorted(entries.items()):
        text += f"Definition it_{i}_{j} (atoms : list (vec3 K * K)) : K :=\n  {term}.\n"
    text += ("\nDefinition inertia_tensor (atoms : list (vec3 K * K)) : mat3 K :=\n"
             "  ((it_0_0 atoms, it_0_1 atoms, it_0_2 atoms),\n   (it_1_0 atoms, it_1_1 atoms, it_1_2 atoms),\n"
             "   (it_2_0 atoms, it_2_1 atoms, it_2_2 atoms)).\nEnd Gen.\n")
    coqrun.write_if_changed(out_path, text)
    return text
