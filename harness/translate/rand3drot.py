"""Translator: qcelemental/util/np_rand3drot.py::random_rotation_matrix  ->  coq/Gen/Rand3dRot.v (property C12).

The matrix algebra of Arvo's random rotation - the vector V, the rotation R about the pole, R_z(pi) and
M = (V V^T - I) . R . R_z(pi) - is turned into a term over an abstract ring in the six transcendental quantities
sin(phi), cos(phi), sqrt(z), sqrt(2 - z), sin(theta), cos(theta), so that the theorem "M is a proper rotation"
(Proofs/Rand3dRot.v, from sin^2 + cos^2 = 1 and sqrt(z)^2 + sqrt(2 - z)^2 = 2 only) is about the source's own
expressions.  The three lines that prepare theta, phi and z from the random numbers are compared with their expected
spelling (what matters of them is 0 <= z <= 2 for random numbers and deflection in [0, 1]).  Fail-closed."""
import ast
import os

from .. import coqrun
from ..core import TranslateError

EXPECTED_HEAD = [
    "if randnums is None:\n    randnums = np.random.uniform(size=(3,))",
    "theta, phi, z = randnums",
    "theta = (theta - 1 / 2) * deflection * 2 * np.pi",
    "phi = phi * 2 * np.pi",
    "z = z * 2 * deflection",
]
SCALARS = {"np.sin(phi)": "sin_phi", "np.cos(phi)": "cos_phi", "np.sqrt(z)": "sqrt_z", "np.sqrt(2.0 - z)": "sqrt_2mz",
           "np.sqrt(2 - z)": "sqrt_2mz", "np.sin(theta)": "sin_theta", "np.cos(theta)": "cos_theta"}


def _err(msg, node=None):
    raise TranslateError("random_rotation_matrix: %s%s" % (msg, (": " + ast.unparse(node)) if node is not None else ""))


class Tr:
    def __init__(self):
        self.env = {}          # name -> kind

    def scalar(self, n):
        src = ast.unparse(n)
        if src in SCALARS:
            return SCALARS[src]
        if isinstance(n, ast.Name) and self.env.get(n.id) == "scalar":
            return n.id
        if isinstance(n, ast.Constant) and type(n.value) in (int, float) and n.value in (0, 1):
            return "0" if n.value == 0 else "1"
        if isinstance(n, ast.UnaryOp) and isinstance(n.op, ast.USub):
            return "(- (%s))" % self.scalar(n.operand)
        if isinstance(n, ast.BinOp) and type(n.op) in (ast.Add, ast.Sub, ast.Mult):
            op = {ast.Add: "+", ast.Sub: "-", ast.Mult: "*"}[type(n.op)]
            return "(%s %s %s)" % (self.scalar(n.left), op, self.scalar(n.right))
        _err("unexpected scalar expression", n)

    def tuple3(self, n, f):
        if not (isinstance(n, (ast.Tuple, ast.List)) and len(n.elts) == 3):
            _err("expected three components", n)
        return "(" + ", ".join(f(e) for e in n.elts) + ")"

    def expr(self, n):
        """returns (kind, term); kinds: scalar, vec, mat"""
        if isinstance(n, ast.Name):
            if n.id not in self.env:
                _err("unknown variable " + n.id)
            return self.env[n.id], n.id
        if isinstance(n, ast.Tuple) and len(n.elts) == 3:
            return "vec", self.tuple3(n, self.scalar)
        if isinstance(n, ast.Call):
            f = ast.unparse(n.func)
            if f == "np.array" and len(n.args) == 1 and not n.keywords:
                return "mat", self.tuple3(n.args[0], lambda row: self.tuple3(row, self.scalar))
            if f == "np.diag" and len(n.args) == 1 and not n.keywords and isinstance(n.args[0], (ast.List, ast.Tuple)) and len(n.args[0].elts) == 3:
                d = [self.scalar(e) for e in n.args[0].elts]
                return "mat", "((%s, 0, 0), (0, %s, 0), (0, 0, %s))" % tuple(d)
            if f == "np.eye" and ast.unparse(n) == "np.eye(3)":
                return "mat", "mid"
            if f == "np.outer" and len(n.args) == 2 and not n.keywords:
                (ka, a), (kb, b) = self.expr(n.args[0]), self.expr(n.args[1])
                if ka == kb == "vec":
                    return "mat", "(outer %s %s)" % (a, b)
                _err("outer product of non-vectors", n)
            if isinstance(n.func, ast.Attribute) and n.func.attr == "dot" and len(n.args) == 1 and not n.keywords:
                (ka, a), (kb, b) = self.expr(n.func.value), self.expr(n.args[0])
                if ka == kb == "mat":
                    return "mat", "(mmul %s %s)" % (a, b)
                _err("dot of non-matrices", n)
        if isinstance(n, ast.BinOp) and isinstance(n.op, ast.Sub):
            (ka, a), (kb, b) = self.expr(n.left), self.expr(n.right)
            if ka == kb == "mat":
                return "mat", "(msub3 %s %s)" % (a, b)
        src = ast.unparse(n)
        if src in SCALARS:
            return "scalar", SCALARS[src]
        _err("unexpected expression", n)


def generate(repo):
    path = os.path.join(repo, "qcelemental", "util", "np_rand3drot.py")
    with open(path) as fh:
        tree = ast.parse(fh.read())
    fns = [n for n in tree.body if isinstance(n, ast.FunctionDef) and n.name == "random_rotation_matrix"]
    if len(fns) != 1:
        raise TranslateError("np_rand3drot.py: expected exactly one function random_rotation_matrix")
    fn = fns[0]
    if [a.arg for a in fn.args.args] != ["deflection", "randnums"] or [ast.unparse(d) for d in fn.args.defaults] != ["1.0", "None"]:
        _err("signature is not (deflection=1.0, randnums=None)")
    body = [s for s in fn.body if not (isinstance(s, ast.Expr) and isinstance(s.value, ast.Constant))]
    head = [ast.unparse(s) for s in body[:5]]
    if head != EXPECTED_HEAD:
        _err("the preparation of theta, phi, z differs from the expected statements: " + repr(head))
    tr = Tr()
    lets = []
    ret = None
    for st in body[5:]:
        if ret is not None:
            _err("statement after return", st)
        if isinstance(st, ast.Return) and st.value is not None:
            k, t = tr.expr(st.value)
            if k != "mat":
                _err("does not return a matrix", st)
            ret = t
            continue
        if isinstance(st, ast.Assign) and len(st.targets) == 1 and isinstance(st.targets[0], ast.Name):
            name = st.targets[0].id
            if name in tr.env or name in ("theta", "phi", "z"):
                _err("re-assignment of " + name, st)
            k, t = tr.expr(st.value)
            lets.append((name, t))
            tr.env[name] = k
            continue
        _err("unexpected statement", st)
    if ret is None:
        _err("no return")
    text = (
        "(* GENERATED by harness/translate/rand3drot.py from qcelemental/util/np_rand3drot.py::random_rotation_matrix - do not edit.\n"
        "   Arguments: sin(phi), cos(phi), sqrt(z), sqrt(2 - z), sin(theta), cos(theta) with theta, phi, z as prepared by the code. *)\n"
        "Require Import QV.Common.AlignAlg QV.Common.AlignAlgQuat QV.Model.Rand3dRot.\n"
        "Section Gen.\nContext {K : Type} {KO : Ops K}.\nLocal Open Scope K_scope.\n"
        "Definition gen_rand_rot (sin_phi cos_phi sqrt_z sqrt_2mz sin_theta cos_theta : K) : mat3 K :=\n"
        + "".join("  let %s := %s in\n" % lt for lt in lets) + "  " + ret + ".\nEnd Gen.\n")
    coqrun.write_if_changed(os.path.join(coqrun.COQ, "Gen", "Rand3dRot.v"), text)
    return text
