"""Translator (C14): the driver of qcelemental/util/scipy_hungarian.py linear_sum_assignment  ->  coq/Gen/HungarianGlue.v

What is read from the source (Python ast) and turned into Gallina, so that C14_refuses_nonfinite /
C14_validated_entry_correct are about the input validation and the result assembly the code has NOW
(Proofs/HungarianGlue.v proves gen_lsa_in = lsa_in for ALL inputs):
  * the refusal test       if np.any(E): raise ValueError(..)        E ::= E | E | np.isinf(cm) | np.isnan(cm) | np.isposinf(cm)
                                                                          | np.isneginf(cm) | ~np.isfinite(cm)
                           -> gen_bad_cell : cell -> bool
  * the orientation test   if cm.shape[1] < cm.shape[0]: cm = cm.T; transposed = True / else: transposed = False
                           -> gen_transposed (n m : nat) : bool       (any of < > <= >= between shape[0] and shape[1])
  * the early exit         step = None if 0 in cm.shape else _stepK   -> gen_skip (n m : nat) : bool, gen_first : hstep
  * the result views       if transposed: marked = state.marked.T; reduced_cost = state.C.T / else: the plain attributes
                           -> gen_marked, gen_reduced (tr : bool) (s : hstate) : mat     (each side read separately)
  * the star code          np.nonzero(marked == K)                    -> gen_star : Z
  * the position of the driver loop `while step is not None: step = step(state)`: after the state is built and BEFORE the
    result views are taken (checked; a view taken earlier is only sound while every update is in place).
Everything else of the function must be literally one of the statements listed in _FIXED (np.asarray, the 2-d test, the
dtype test, the bool cast, state = _Hungary(cm), the loop, the two return forms).  Fail-closed: any other statement or
expression shape raises TranslateError."""
import ast
import os

from .. import coqrun
from ..core import TranslateError

SRC = os.path.join("qcelemental", "util", "scipy_hungarian.py")
CM = "cost_matrix"


def _fail(node, why):
    txt = ast.unparse(node) if isinstance(node, ast.AST) else str(node)
    raise TranslateError(f"{SRC}:{getattr(node, 'lineno', '?')}: {why}: {txt[:300]}")


def _u(node):
    return ast.unparse(node)


def _body(fn):
    b = list(fn.body)
    if b and isinstance(b[0], ast.Expr) and isinstance(b[0].value, ast.Constant) and isinstance(b[0].value.value, str):
        b = b[1:]
    return b


def _is_raise_value_error(stmts):
    return (len(stmts) == 1 and isinstance(stmts[0], ast.Raise) and stmts[0].cause is None
            and isinstance(stmts[0].exc, ast.Call) and isinstance(stmts[0].exc.func, ast.Name)
            and stmts[0].exc.func.id == "ValueError")


_CELL_TESTS = {
    "isinf": "(match c with PInf | NInf => true | _ => false end)",
    "isposinf": "(match c with PInf => true | _ => false end)",
    "isneginf": "(match c with NInf => true | _ => false end)",
    "isnan": "(match c with NaN => true | _ => false end)",
}


def _np_call(node, names):
    """np.<name>(cost_matrix) with name in names -> name"""
    if (isinstance(node, ast.Call) and not node.keywords and len(node.args) == 1 and isinstance(node.args[0], ast.Name)
            and node.args[0].id == CM and isinstance(node.func, ast.Attribute) and isinstance(node.func.value, ast.Name)
            and node.func.value.id == "np" and node.func.attr in names):
        return node.func.attr
    return None


def _cell_pred(node):
    if isinstance(node, ast.BinOp) and isinstance(node.op, ast.BitOr):
        return f"({_cell_pred(node.left)} || {_cell_pred(node.right)})"
    name = _np_call(node, _CELL_TESTS)
    if name:
        return _CELL_TESTS[name]
    if isinstance(node, ast.UnaryOp) and isinstance(node.op, ast.Invert) and _np_call(node.operand, {"isfinite"}):
        return "(match c with Fin _ => false | _ => true end)"
    _fail(node, "element test not modelled (expected np.isinf/isnan/isposinf/isneginf(cost_matrix), ~np.isfinite(cost_matrix), |)")


def _refusal(st):
    ok = (isinstance(st, ast.If) and not st.orelse and _is_raise_value_error(st.body) and isinstance(st.test, ast.Call)
          and isinstance(st.test.func, ast.Attribute) and isinstance(st.test.func.value, ast.Name)
          and st.test.func.value.id == "np" and st.test.func.attr == "any" and len(st.test.args) == 1 and not st.test.keywords)
    if not ok:
        _fail(st, "expected `if np.any(<element test>): raise ValueError(...)`")
    return _cell_pred(st.test.args[0])


def _shape_index(node):
    if (isinstance(node, ast.Subscript) and _u(node.value) == f"{CM}.shape" and isinstance(node.slice, ast.Constant)
            and node.slice.value in (0, 1) and not isinstance(node.slice.value, bool)):
        return "n" if node.slice.value == 0 else "m"
    _fail(node, "expected cost_matrix.shape[0] or cost_matrix.shape[1]")


def _orientation(st):
    ok = (isinstance(st, ast.If) and isinstance(st.test, ast.Compare) and len(st.test.ops) == 1
          and [_u(x) for x in st.body] == [f"{CM} = {CM}.T", "transposed = True"]
          and [_u(x) for x in st.orelse] == ["transposed = False"])
    if not ok:
        _fail(st, "expected `if <shape test>: cost_matrix = cost_matrix.T; transposed = True / else: transposed = False`")
    a, b = _shape_index(st.test.left), _shape_index(st.test.comparators[0])
    op = {ast.Lt: "({a} <? {b})%nat", ast.Gt: "({b} <? {a})%nat", ast.LtE: "({a} <=? {b})%nat",
          ast.GtE: "({b} <=? {a})%nat"}.get(type(st.test.ops[0]))
    if op is None:
        _fail(st.test, "comparison operator not modelled")
    return op.format(a=a, b=b)


def _first_step(st):
    ok = (isinstance(st, ast.Assign) and len(st.targets) == 1 and _u(st.targets[0]) == "step"
          and isinstance(st.value, ast.IfExp) and _u(st.value.body) == "None" and _u(st.value.test) == f"0 in {CM}.shape"
          and isinstance(st.value.orelse, ast.Name) and st.value.orelse.id in ("_step1", "_step3", "_step4", "_step5", "_step6"))
    if not ok:
        _fail(st, "expected `step = None if 0 in cost_matrix.shape else _stepK`")
    return "(Nat.eqb n 0 || Nat.eqb m 0)", "S" + st.value.orelse.id[5:]


def _view(node):
    """state.marked / state.C, optionally .T"""
    tr = False
    if isinstance(node, ast.Attribute) and node.attr == "T":
        tr, node = True, node.value
    t = _u(node)
    if t == "state.marked":
        base = "(marked s)"
    elif t == "state.C":
        base = "(hC s)"
    else:
        _fail(node, "expected state.marked or state.C (optionally .T)")
    return (f"(transpose {base})" if tr else base), t


def _views(st):
    ok = (isinstance(st, ast.If) and _u(st.test) == "transposed" and len(st.body) == 2 and len(st.orelse) == 2
          and all(isinstance(x, ast.Assign) and len(x.targets) == 1 for x in st.body + st.orelse)
          and [_u(x.targets[0]) for x in st.body] == ["marked", "reduced_cost"]
          and [_u(x.targets[0]) for x in st.orelse] == ["marked", "reduced_cost"])
    if not ok:
        _fail(st, "expected `if transposed: marked = ..; reduced_cost = .. / else: marked = ..; reduced_cost = ..`")
    out = []
    for k, attr in ((0, "state.marked"), (1, "state.C")):
        (t_term, t_attr), (f_term, f_attr) = _view(st.body[k].value), _view(st.orelse[k].value)
        if t_attr != attr or f_attr != attr:
            _fail(st, f"`{_u(st.body[k].targets[0])}` is expected to be read from {attr}")
        out.append(f"if tr then {t_term} else {f_term}")
    return out


def _returns(st):
    ok = (isinstance(st, ast.If) and _u(st.test) == "return_cost" and len(st.body) == 1 and len(st.orelse) == 1
          and isinstance(st.body[0], ast.Return) and isinstance(st.orelse[0], ast.Return)
          and isinstance(st.body[0].value, ast.Tuple) and len(st.body[0].value.elts) == 2
          and _u(st.body[0].value.elts[1]) == "reduced_cost" and _u(st.body[0].value.elts[0]) == _u(st.orelse[0].value))
    nz = st.orelse[0].value if ok else None
    ok = (ok and isinstance(nz, ast.Call) and _u(nz.func) == "np.nonzero" and len(nz.args) == 1 and not nz.keywords
          and isinstance(nz.args[0], ast.Compare) and len(nz.args[0].ops) == 1 and isinstance(nz.args[0].ops[0], ast.Eq)
          and _u(nz.args[0].left) == "marked" and isinstance(nz.args[0].comparators[0], ast.Constant)
          and isinstance(nz.args[0].comparators[0].value, int) and not isinstance(nz.args[0].comparators[0].value, bool))
    if not ok:
        _fail(st, "expected `if return_cost: return np.nonzero(marked == K), reduced_cost / else: return np.nonzero(marked == K)`")
    return str(nz.args[0].comparators[0].value)


_FIXED = {
    "asarray": f"{CM} = np.asarray({CM})",
    "hungary": f"state = _Hungary({CM})",
    "loop": "while step is not None:\n    step = step(state)",
    "boolcast": f"if {CM}.dtype == np.dtype(bool):\n    {CM} = {CM}.astype(int)",
}


def generate(repo):
    path = os.path.join(repo, SRC)
    try:
        with open(path) as fh:
            tree = ast.parse(fh.read())
    except (OSError, SyntaxError) as e:
        raise TranslateError(f"{SRC}: cannot read/parse: {e}")
    fns = [n for n in tree.body if isinstance(n, ast.FunctionDef) and n.name == "linear_sum_assignment"]
    if len(fns) != 1:
        raise TranslateError(f"{SRC}: expected exactly one function linear_sum_assignment")
    fn = fns[0]
    a = fn.args
    if ([x.arg for x in a.args] != [CM, "return_cost"] or a.vararg or a.kwarg or a.kwonlyargs or a.posonlyargs
            or len(a.defaults) != 1 or _u(a.defaults[0]) != "False" or fn.decorator_list):
        _fail(fn, "signature is expected to be (cost_matrix, return_cost=False)")
    body = _body(fn)
    if len(body) != 11:
        _fail(fn, f"expected 11 statements in the driver, found {len(body)}")
    (s_as, s_2d, s_dt, s_ref, s_bool, s_or, s_st, s_first, s_loop, s_views, s_ret) = body
    for st, key in ((s_as, "asarray"), (s_bool, "boolcast"), (s_st, "hungary"), (s_loop, "loop")):
        if _u(st) != _FIXED[key]:
            _fail(st, f"expected `{_FIXED[key]}`")
    if not (isinstance(s_2d, ast.If) and not s_2d.orelse and _is_raise_value_error(s_2d.body)
            and _u(s_2d.test) == f"len({CM}.shape) != 2"):
        _fail(s_2d, "expected `if len(cost_matrix.shape) != 2: raise ValueError(...)`")
    if not (isinstance(s_dt, ast.If) and not s_dt.orelse and _is_raise_value_error(s_dt.body)
            and _u(s_dt.test) == f"not (np.issubdtype({CM}.dtype, np.number) or {CM}.dtype == np.dtype(bool))"):
        _fail(s_dt, "expected the dtype test `if not (np.issubdtype(dtype, np.number) or dtype == np.dtype(bool)): raise ValueError(...)`")
    bad_cell = _refusal(s_ref)
    transposed = _orientation(s_or)
    skip, first = _first_step(s_first)
    marked, reduced = _views(s_views)
    star = _returns(s_ret)
    out = f"""(** GENERATED by harness/translate/hungglue.py from qcelemental/util/scipy_hungarian.py (linear_sum_assignment) — do not edit. *)
From Coq Require Import ZArith List Bool Arith.
Require Import QV.Common.Outcome QV.Model.Hungarian.
Import ListNotations.
Open Scope Z_scope.

(* if np.any(...): raise ValueError -- the element test *)
Definition gen_bad_cell (c : cell) : bool :=
  {bad_cell}.

(* the orientation test on shape = (n, m) *)
Definition gen_transposed (n m : nat) : bool := {transposed}.

(* step = None if 0 in cost_matrix.shape else _stepK *)
Definition gen_skip (n m : nat) : bool := {skip}.
Definition gen_first : hstep := {first}.

(* the result views, taken after the driver loop *)
Definition gen_marked (tr : bool) (s : hstate) : mat := {marked}.
Definition gen_reduced (tr : bool) (s : hstate) : mat := {reduced}.

(* np.nonzero(marked == K) *)
Definition gen_star : Z := {star}.

(* the driver, in the code's order (np.asarray refuses ragged rows; an empty dimension leaves the fresh state untouched:
   no pairs, the reduced matrix is the input) *)
Definition gen_lsa (C : mat) : outcome result :=
  let n := nrows C in let m := ncols C in
  let tr := gen_transposed n m in
  let Cw := if tr then transpose C else C in
  if gen_skip n m then Ok ([], [], C)
  else match run (default_fuel C) gen_first (init_state Cw) with
       | Err e => Err e
       | Ok s =>
           let mk := gen_marked tr s in
           let nz := filter (fun p : nat * nat => mget mk (fst p) (snd p) =? gen_star) (positions (nrows mk) (ncols mk)) in
           Ok (map fst nz, map snd nz, gen_reduced tr s)
       end.

Definition gen_lsa_in (M : list (list cell)) : outcome result :=
  let m := match M with [] => O | r :: _ => length r end in
  if negb (forallb (fun r => Nat.eqb (length r) m) M) then Err PyValueError
  else if existsb (existsb gen_bad_cell) M then Err PyValueError
  else gen_lsa (map (map cell_val) M).
"""
    coqrun.write_if_changed(os.path.join(coqrun.COQ, "Gen", "HungarianGlue.v"), out)
    return True
