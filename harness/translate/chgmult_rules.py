"""Translator (C05): the pure helper functions of qcelemental/molparse/chgmult.py
    _apply_default, _high_spin_sum, _mult_ok, _sufficient_electrons_for_mult, _parity_ok
->  coq/Gen/ChgMultRules.v   (gen_apply_default, gen_hss, gen_mult_ok, gen_sufficient, gen_parity_ok over Z and
    gen_sufficientD, gen_parity_okD over rationals x/D).  Proofs/ChgMultGen.v proves them equal to the hand model.

Fail-closed: any statement / expression shape not listed here raises TranslateError.
  def f(params): [docstring] return E
  E ::= name | int literal | E + E | E - E | E * E | E % k | E <= E | E < E | E >= E | E > E | E == E | E != E
      | isinstance(name, ...) and E            (the isinstance test is the model's typing: multiplicities are Z)
  _apply_default:   return [default if (c is None) else c for c in llist]
  _high_spin_sum:   mm = k; for m in mult_list: mm += E; return mm

Units.  Parameters named z, c are charges / electron counts (in the D-version: integers in units of 1/D), m is a
multiplicity (a plain integer).  Where a multiplicity-valued or literal operand meets a charge-valued one (+, -,
comparison) it is multiplied by D; `E % k` on a charge-valued E is `E mod (k * D)`.  With D = 1 nothing changes."""
import ast
import os

from .. import coqrun
from ..core import TranslateError

SRC = os.path.join("qcelemental", "molparse", "chgmult.py")
CHG_PARAMS = {"z", "c"}


def _fail(node, why):
    raise TranslateError(f"{SRC}:{getattr(node, 'lineno', '?')}: {why}: "
                         f"{ast.unparse(node) if isinstance(node, ast.AST) else node}")


def _body(fn):
    body = list(fn.body)
    if body and isinstance(body[0], ast.Expr) and isinstance(body[0].value, ast.Constant) and isinstance(body[0].value.value, str):
        body = body[1:]
    return body


def _params(fn):
    a = fn.args
    if a.vararg or a.kwarg or a.kwonlyargs or a.defaults or a.posonlyargs:
        _fail(fn, "only plain positional parameters are modelled")
    return [x.arg for x in a.args]


def _lift(term, kind, scaled):
    """bring a term of kind mult/const to the charge unit"""
    if kind == "chg" or not scaled:
        return term
    return f"({term} * D)"


def expr(node, env, scaled):
    """-> (Coq term, kind) with kind in chg | mult | const | bool"""
    if isinstance(node, ast.Name):
        if node.id not in env:
            _fail(node, "unknown name")
        return node.id, env[node.id]
    if isinstance(node, ast.Constant) and isinstance(node.value, int) and not isinstance(node.value, bool):
        return f"({node.value})", "const"
    if isinstance(node, ast.BinOp):
        l, lk = expr(node.left, env, scaled)
        if isinstance(node.op, ast.Mod):
            if not (isinstance(node.right, ast.Constant) and isinstance(node.right.value, int)
                    and not isinstance(node.right.value, bool) and node.right.value > 0):
                _fail(node, "only `% positive literal` is modelled")
            k = node.right.value
            if lk == "bool":
                _fail(node, "arithmetic on a boolean")
            if lk == "chg" and scaled:
                return f"({l} mod ({k} * D))", "chg"
            return f"({l} mod {k})", ("mult" if lk == "const" else lk)
        r, rk = expr(node.right, env, scaled)
        if "bool" in (lk, rk):
            _fail(node, "arithmetic on a boolean")
        if isinstance(node.op, ast.Mult):
            if lk == "chg" and rk == "chg":
                _fail(node, "product of two charges has no unit in the model")
            return f"({l} * {r})", ("chg" if "chg" in (lk, rk) else "mult")
        if isinstance(node.op, (ast.Add, ast.Sub)):
            op = "+" if isinstance(node.op, ast.Add) else "-"
            if "chg" in (lk, rk):
                return f"({_lift(l, lk, scaled)} {op} {_lift(r, rk, scaled)})", "chg"
            return f"({l} {op} {r})", "mult"
        _fail(node, "operator not modelled")
    if isinstance(node, ast.Compare):
        if len(node.ops) != 1:
            _fail(node, "chained comparison")
        l, lk = expr(node.left, env, scaled)
        r, rk = expr(node.comparators[0], env, scaled)
        if "bool" in (lk, rk):
            _fail(node, "comparison of booleans")
        if "chg" in (lk, rk):
            l, r = _lift(l, lk, scaled), _lift(r, rk, scaled)
        op = node.ops[0]
        table = {ast.LtE: "({a} <=? {b})", ast.Lt: "({a} <? {b})", ast.GtE: "({b} <=? {a})", ast.Gt: "({b} <? {a})",
                 ast.Eq: "({a} =? {b})", ast.NotEq: "(negb ({a} =? {b}))"}
        if type(op) not in table:
            _fail(node, "comparison operator not modelled")
        return table[type(op)].format(a=l, b=r), "bool"
    if isinstance(node, ast.BoolOp) and isinstance(node.op, ast.And):
        parts = []
        for v in node.values:
            if (isinstance(v, ast.Call) and isinstance(v.func, ast.Name) and v.func.id == "isinstance" and len(v.args) == 2
                    and isinstance(v.args[0], ast.Name) and env.get(v.args[0].id) == "mult"):
                continue        # typing of the model: a multiplicity is a Z
            t, k = expr(v, env, scaled)
            if k != "bool":
                _fail(v, "conjunct is not a boolean")
            parts.append(t)
        if not parts:
            _fail(node, "nothing but type tests")
        return "(" + " && ".join(parts) + ")", "bool"
    _fail(node, "expression shape not modelled")


def _return_expr(fn):
    body = _body(fn)
    if len(body) != 1 or not isinstance(body[0], ast.Return) or body[0].value is None:
        _fail(fn, "expected a single `return E`")
    return body[0].value


def _pred(fn, name, scaled):
    ps = _params(fn)
    env = {p: ("chg" if p in CHG_PARAMS else "mult") for p in ps}
    t, k = expr(_return_expr(fn), env, scaled)
    if k != "bool":
        _fail(fn, "predicate does not return a boolean")
    args = " ".join(ps)
    return f"Definition {name} {'(D : Z) ' if scaled else ''}({args} : Z) : bool :=\n  {t}."


def _apply_default(fn):
    ps = _params(fn)
    e = _return_expr(fn)
    ok = (len(ps) == 2 and isinstance(e, ast.ListComp) and len(e.generators) == 1
          and not e.generators[0].ifs and not e.generators[0].is_async
          and isinstance(e.generators[0].target, ast.Name) and isinstance(e.generators[0].iter, ast.Name)
          and e.generators[0].iter.id == ps[0] and isinstance(e.elt, ast.IfExp))
    if not ok:
        _fail(fn, "expected `return [default if (c is None) else c for c in llist]`")
    v = e.generators[0].target.id
    t = e.elt
    ok = (isinstance(t.test, ast.Compare) and len(t.test.ops) == 1 and isinstance(t.test.ops[0], ast.Is)
          and isinstance(t.test.left, ast.Name) and t.test.left.id == v
          and isinstance(t.test.comparators[0], ast.Constant) and t.test.comparators[0].value is None
          and isinstance(t.body, ast.Name) and t.body.id == ps[1] and isinstance(t.orelse, ast.Name) and t.orelse.id == v)
    if not ok:
        _fail(fn, "expected `default if (c is None) else c`")
    return ("Definition gen_apply_default (l : list (option Z)) (d : Z) : list Z :=\n"
            "  map (fun c => match c with None => d | Some v => v end) l.")


def _high_spin_sum(fn):
    ps = _params(fn)
    body = _body(fn)
    ok = (len(ps) == 1 and len(body) == 3 and isinstance(body[0], ast.Assign) and len(body[0].targets) == 1
          and isinstance(body[0].targets[0], ast.Name) and isinstance(body[0].value, ast.Constant)
          and isinstance(body[0].value.value, int) and not isinstance(body[0].value.value, bool)
          and isinstance(body[1], ast.For) and not body[1].orelse and isinstance(body[1].target, ast.Name)
          and isinstance(body[1].iter, ast.Name) and body[1].iter.id == ps[0] and len(body[1].body) == 1
          and isinstance(body[1].body[0], ast.AugAssign) and isinstance(body[1].body[0].op, ast.Add)
          and isinstance(body[1].body[0].target, ast.Name) and isinstance(body[2], ast.Return)
          and isinstance(body[2].value, ast.Name))
    if not ok:
        _fail(fn, "expected `mm = k; for m in mult_list: mm += E; return mm`")
    acc = body[0].targets[0].id
    if body[1].body[0].target.id != acc or body[2].value.id != acc:
        _fail(fn, "accumulator names differ")
    var = body[1].target.id
    if var == acc:
        _fail(fn, "loop variable shadows the accumulator")
    t, k = expr(body[1].body[0].value, {var: "mult", acc: "mult"}, False)
    if k == "bool":
        _fail(fn, "increment is a boolean")
    return (f"Definition gen_hss (l : list Z) : Z :=\n"
            f"  fold_left (fun {acc} {var} => {acc} + {t}) l ({body[0].value.value}).")


def generate(repo):
    path = os.path.join(repo, SRC)
    try:
        tree = ast.parse(open(path).read())
    except (OSError, SyntaxError) as e:
        raise TranslateError(f"{SRC}: cannot parse: {e}")
    fns = {n.name: n for n in tree.body if isinstance(n, ast.FunctionDef)}
    need = ["_apply_default", "_high_spin_sum", "_mult_ok", "_sufficient_electrons_for_mult", "_parity_ok"]
    for n in need:
        if n not in fns:
            raise TranslateError(f"{SRC}: function {n} not found")
    if _params(fns["_sufficient_electrons_for_mult"]) != ["z", "c", "m"] or _params(fns["_parity_ok"]) != ["z", "c", "m"]:
        raise TranslateError(f"{SRC}: parameters of the electron-count rules are expected to be (z, c, m)")
    if _params(fns["_mult_ok"]) != ["m"]:
        raise TranslateError(f"{SRC}: parameter of _mult_ok is expected to be (m)")
    out = ["(** GENERATED by harness/translate/chgmult_rules.py from qcelemental/molparse/chgmult.py — do not edit. *)",
           "From Coq Require Import ZArith List Bool.", "Import ListNotations.", "Open Scope Z_scope.", "",
           _apply_default(fns["_apply_default"]), "", _high_spin_sum(fns["_high_spin_sum"]), "",
           _pred(fns["_mult_ok"], "gen_mult_ok", False), "",
           _pred(fns["_sufficient_electrons_for_mult"], "gen_sufficient", False), "",
           _pred(fns["_parity_ok"], "gen_parity_ok", False), "",
           "(* the same rules on rationals x/D: z, c are integers in units of 1/D *)",
           _pred(fns["_sufficient_electrons_for_mult"], "gen_sufficientD", True), "",
           _pred(fns["_parity_ok"], "gen_parity_okD", True), ""]
    coqrun.write_if_changed(os.path.join(coqrun.COQ, "Gen", "ChgMultRules.v"), "\n".join(out))
    return True
