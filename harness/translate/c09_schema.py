"""C09 translators (fail closed):

  * `Model.schema()` of the models listed by qcelemental.models.qcschema_models()  -> coq/Gen/Schemas.v
  * pydantic field descriptors (`__fields__`) of those models and of every model reachable from them
                                                                                   -> coq/Gen/FieldTypes.v
  * the unit-factor branch and the Bohr guard of molparse/to_schema.py (AST)      -> coq/Gen/ToSchemaGen.v

Also the Python->Gallina renderers for JSON values and model instances used by the correspondence."""
import ast
import enum
import math
import os
import typing
from fractions import Fraction

import numpy as np

from .. import coqrun
from ..coqrun import cstr, cz, cn, cq, clist, copt, cbool


class TranslateError(Exception):
    pass


def _core_error():
    from ..core import TranslateError as TE
    return TE


SIX = ["AtomicInput", "AtomicResult", "AtomicResultProperties", "BasisSet", "Molecule", "Provenance"]
ANNOTATIONS = {"title", "description", "default", "units", "shape", "$schema"}
JTYPES = {"null": "TyNull", "boolean": "TyBoolean", "integer": "TyInteger", "number": "TyNumber",
          "string": "TyString", "array": "TyArray", "object": "TyObject"}


def fail(msg):
    raise _core_error()("C09 translator: " + msg)


# ------------------------------------------------------------------------------------------------
# regular expressions: only anchored literal alternations  ^(lit|lit|...)$  where a literal is made of
# plain characters, backslash-escaped punctuation, and `?` after a single character.

_PLAIN = set("abcdefghijklmnopqrstuvwxyzABCDEFGHIJKLMNOPQRSTUVWXYZ0123456789_- ")


def expand_pattern(pat):
    if not (isinstance(pat, str) and pat.startswith("^(") and pat.endswith(")$")):
        fail(f"pattern {pat!r} is not an anchored group ^(...)$")
    body = pat[2:-2]
    alts = []
    for alt in _split_alts(body, pat):
        atoms = []  # (char, optional)
        i = 0
        while i < len(alt):
            ch = alt[i]
            if ch == "\\":
                if i + 1 >= len(alt) or alt[i + 1].isalnum():
                    fail(f"pattern {pat!r}: unsupported escape")
                lit = alt[i + 1]
                i += 2
            elif ch in _PLAIN:
                lit = ch
                i += 1
            else:
                fail(f"pattern {pat!r}: unsupported construct {ch!r}")
            opt = False
            if i < len(alt) and alt[i] == "?":
                opt = True
                i += 1
                if i < len(alt) and alt[i] in "?+*":
                    fail(f"pattern {pat!r}: unsupported quantifier")
            atoms.append((lit, opt))
        words = [""]
        for lit, opt in atoms:
            words = [w + lit for w in words] + ([w for w in words] if opt else [])
        alts.extend(words)
    if not alts or len(alts) > 64:
        fail(f"pattern {pat!r}: language too large")
    out = []
    for a in alts:
        if a not in out:
            out.append(a)
    return out


def _split_alts(body, pat):
    for ch in "()[]{}.*+^$":
        if ch in body.replace("\\" + ch, ""):
            fail(f"pattern {pat!r}: unsupported construct {ch!r}")
    parts, cur, i = [], "", 0
    while i < len(body):
        if body[i] == "\\" and i + 1 < len(body):
            cur += body[i:i + 2]
            i += 2
        elif body[i] == "|":
            parts.append(cur)
            cur = ""
            i += 1
        else:
            cur += body[i]
            i += 1
    parts.append(cur)
    return parts


# ------------------------------------------------------------------------------------------------
# JSON values -> Gallina

def cjson(x):
    if x is None:
        return "JNull"
    if isinstance(x, bool):
        return f"(JBool {cbool(x)})"
    if isinstance(x, int):
        return f"(JInt {cz(x)})"
    if isinstance(x, float):
        if not math.isfinite(x):
            raise ValueError("non-finite float is outside the modelled JSON domain")
        return f"(JFloat {cq(Fraction(x))})"
    if isinstance(x, str):
        return f"(JStr {cstr(x)})"
    if isinstance(x, (list, tuple)):
        return "(JArr " + clist(x, cjson) + ")"
    if isinstance(x, dict):
        for k in x:
            if not isinstance(k, str):
                raise ValueError("non-string key")
        return "(JObj " + clist(x.items(), lambda kv: f"({cstr(kv[0])}, {cjson(kv[1])})") + ")"
    raise ValueError(f"not a JSON value: {type(x)}")


def is_ascii_json(x):
    if isinstance(x, str):
        return all(ord(c) < 256 for c in x)
    if isinstance(x, (list, tuple)):
        return all(is_ascii_json(v) for v in x)
    if isinstance(x, dict):
        return all(isinstance(k, str) and is_ascii_json(k) and is_ascii_json(v) for k, v in x.items())
    if isinstance(x, float):
        return math.isfinite(x)
    return True


# ------------------------------------------------------------------------------------------------
# schemas -> Gallina

def _num(x, where):
    if isinstance(x, bool) or not isinstance(x, (int, float)) or (isinstance(x, float) and not math.isfinite(x)):
        fail(f"{where}: not a finite number: {x!r}")
    return Fraction(x)


def cschema(s, where, top=False):
    if not isinstance(s, dict):
        fail(f"{where}: schema is not an object")
    keys = set(s) - ANNOTATIONS
    if "$schema" in s and s["$schema"] != "http://json-schema.org/draft-04/schema#":
        fail(f"{where}: declares dialect {s['$schema']!r}; the validator model is draft-04")
    if top:
        keys.discard("definitions")
    if "$ref" in keys:
        if keys != {"$ref"}:
            fail(f"{where}: $ref with validating siblings {sorted(keys)} (ignored by draft-04)")
        ref = s["$ref"]
        if not (isinstance(ref, str) and ref.startswith("#/definitions/") and "/" not in ref[14:]):
            fail(f"{where}: unsupported $ref {ref!r}")
        return f"(SRef {cstr(ref[14:])})"
    kws = []
    done = set()
    if "type" in keys:
        t = s["type"]
        if not isinstance(t, str) or t not in JTYPES:
            fail(f"{where}: unsupported type {t!r}")
        kws.append(f"SType {JTYPES[t]}")
        done.add("type")
    if "enum" in keys:
        vs = s["enum"]
        if not isinstance(vs, list) or not all(v is None or isinstance(v, (bool, int, float, str)) for v in vs):
            fail(f"{where}: unsupported enum {vs!r}")
        kws.append("SEnum " + clist(vs, cjson))
        done.add("enum")
    if "pattern" in keys:
        kws.append("SPattern " + clist(expand_pattern(s["pattern"]), cstr))
        done.add("pattern")
    if "properties" in keys or "additionalProperties" in keys:
        ps = s.get("properties", {})
        if not isinstance(ps, dict):
            fail(f"{where}: properties is not an object")
        ap = s.get("additionalProperties", True)
        if ap is True:
            apt = "None"
        elif ap is False:
            apt = "(Some SFalse)"
        elif isinstance(ap, dict):
            apt = "(Some " + cschema(ap, where + "/additionalProperties") + ")"
        else:
            fail(f"{where}: unsupported additionalProperties")
        pst = clist(ps.items(), lambda kv: f"({cstr(kv[0])}, {cschema(kv[1], where + '/properties/' + kv[0])})")
        kws.append(f"SObj {pst} {apt}")
        done.update({"properties", "additionalProperties"})
    if "required" in keys:
        rs = s["required"]
        if not isinstance(rs, list) or not all(isinstance(r, str) for r in rs):
            fail(f"{where}: unsupported required")
        kws.append("SRequired " + clist(rs, cstr))
        done.add("required")
    if "items" in keys:
        it = s["items"]
        if isinstance(it, dict):
            kws.append("SItems " + cschema(it, where + "/items"))
        elif isinstance(it, list):
            kws.append("SItemsTuple " + clist([cschema(x, f"{where}/items/{i}") for i, x in enumerate(it)]))
        else:
            fail(f"{where}: unsupported items")
        done.add("items")
    for key, ctor in (("minItems", "SMinItems"), ("maxItems", "SMaxItems")):
        if key in keys:
            n = s[key]
            if isinstance(n, bool) or not isinstance(n, int) or n < 0:
                fail(f"{where}: unsupported {key} {n!r}")
            kws.append(f"{ctor} {cn(n)}")
            done.add(key)
    if "uniqueItems" in keys:
        if s["uniqueItems"] is True:
            kws.append("SUnique")
        elif s["uniqueItems"] is not False:
            fail(f"{where}: unsupported uniqueItems")
        done.add("uniqueItems")
    for key, ekey, ctor in (("minimum", "exclusiveMinimum", "SMin"), ("maximum", "exclusiveMaximum", "SMax")):
        if ekey in keys:
            if not isinstance(s[ekey], bool) or key not in keys:
                fail(f"{where}: {ekey} is not the draft-04 boolean modifier of {key}")
            done.add(ekey)
        if key in keys:
            kws.append(f"{ctor} {cq(_num(s[key], where))} {cbool(bool(s.get(ekey, False)))}")
            done.add(key)
    if "multipleOf" in keys:
        m = _num(s["multipleOf"], where)
        if m <= 0:
            fail(f"{where}: multipleOf must be positive")
        kws.append(f"SMultipleOf {cq(m)}")
        done.add("multipleOf")
    for key, ctor in (("allOf", "SAll"), ("anyOf", "SAnyOf")):
        if key in keys:
            lst = s[key]
            if not isinstance(lst, list) or not lst:
                fail(f"{where}: unsupported {key}")
            kws.append(f"{ctor} " + clist([cschema(x, f"{where}/{key}/{i}") for i, x in enumerate(lst)]))
            done.add(key)
    rest = keys - done
    if rest:
        fail(f"{where}: unsupported schema keyword(s) {sorted(rest)}")
    return "(SAll " + clist(["(" + k + ")" for k in kws]) + ")"


def schema_models(repo=None):
    import qcelemental.models as qm
    ms = qm.qcschema_models()
    names = sorted(m.__name__ for m in ms)
    if names != SIX:
        fail(f"qcschema_models() lists {names}, the check is written for {SIX}")
    return {m.__name__: m for m in ms}


def gen_schemas(models):
    out = ["(* generated by harness/translate/c09_schema.py from Model.schema(); do not edit *)",
           "From Coq Require Import ZArith NArith QArith List String.",
           "Require Import QV.Common.Corr QV.Common.JsonS.",
           "Import ListNotations.", ""]
    schemas = {}
    for name in SIX:
        s = models[name].schema()
        schemas[name] = s
        defs = s.get("definitions", {})
        if not isinstance(defs, dict):
            fail(f"{name}: definitions is not an object")
        out.append(f"Definition defs_{name} : defs_t :=\n  " +
                   clist([f"({cstr(k)}, {cschema(v, name + '#/definitions/' + k)})" for k, v in defs.items()]) + ".")
        out.append(f"Definition S_{name} : schema :=\n  {cschema(s, name + '#', top=True)}.")
        out.append("")
    out.append("Definition all_schemas : list (string * (defs_t * schema)) :=\n  " +
               clist([f"({cstr(n)}, (defs_{n}, S_{n}))" for n in SIX]) + ".")
    return "\n".join(out) + "\n", schemas


# ------------------------------------------------------------------------------------------------
# field descriptors -> Gallina

def _pyd():
    try:
        import pydantic.v1 as pv1
        return pv1
    except ImportError:  # pragma: no cover
        import pydantic as pv1
        return pv1


def _fn_ast(fn):
    import inspect
    import textwrap
    fn = getattr(fn, "__func__", fn)
    tree = ast.parse(textwrap.dedent(inspect.getsource(fn)))
    node = tree.body[0]
    if not isinstance(node, ast.FunctionDef):
        fail(f"validator {fn!r}: not a plain function")
    return node


def _is_none_exit(st, vname):
    """`if <name> is None: return v`"""
    return (isinstance(st, ast.If) and isinstance(st.test, ast.Compare) and isinstance(st.test.left, ast.Name)
            and len(st.test.ops) == 1 and isinstance(st.test.ops[0], ast.Is)
            and isinstance(st.test.comparators[0], ast.Constant) and st.test.comparators[0].value is None
            and len(st.body) == 1 and isinstance(st.body[0], ast.Return) and isinstance(st.body[0].value, ast.Name)
            and st.body[0].value.id == vname and not st.orelse)


def _mentions_call(node, pred):
    return any(isinstance(n, ast.Call) and pred(n) for n in ast.walk(node))


def validator_guards_shape(fn):
    """Does this validator, on every path that returns, reshape its value or take len() of it?  (A 0-d ndarray has no
    len(), and reshape either fails or yields at least one dimension.)  Unrecognised shapes count as NOT guarding."""
    node = _fn_ast(fn)
    args = [a.arg for a in node.args.args]
    if len(args) < 2:
        return False
    v = args[1]

    def on_v(call):   # v.reshape(..) / np.asarray(v).reshape(..)
        f = call.func
        if not (isinstance(f, ast.Attribute) and f.attr == "reshape"):
            return False
        base = f.value
        if isinstance(base, ast.Name) and base.id == v:
            return True
        return (isinstance(base, ast.Call) and isinstance(base.func, ast.Attribute) and base.func.attr == "asarray"
                and len(base.args) == 1 and isinstance(base.args[0], ast.Name) and base.args[0].id == v)

    def len_v(call):
        return isinstance(call.func, ast.Name) and call.func.id == "len" and len(call.args) == 1 \
            and isinstance(call.args[0], ast.Name) and call.args[0].id == v

    for st in node.body:
        if isinstance(st, ast.Expr) and isinstance(st.value, ast.Constant):
            continue                                   # docstring
        if _is_none_exit(st, v) or _is_none_exit(st, "bas") or (isinstance(st, ast.If) and _is_none_exit(st, st.test.left.id if isinstance(st.test, ast.Compare) and isinstance(st.test.left, ast.Name) else v)):
            continue
        if isinstance(st, ast.Return):
            return _mentions_call(st, on_v) if st.value is not None else False
        if isinstance(st, ast.Try):
            if any(_mentions_call(b, on_v) for b in st.body) and all(
                    all(isinstance(x, ast.Raise) for x in h.body) for h in st.handlers):
                return True
            continue
        if isinstance(st, ast.If):
            if _mentions_call(st.test, len_v):
                return True
            if all(isinstance(x, ast.Raise) for x in st.body) and not st.orelse:
                continue
            # a branch that only computes a local (shape = ...) is fine; anything returning / assigning v is not understood
            assigns_v = any(isinstance(n, ast.Return) or (isinstance(n, ast.Assign) and any(isinstance(t, ast.Name) and t.id == v for t in n.targets))
                            for n in ast.walk(st))
            if assigns_v:
                return False
            continue
        if isinstance(st, ast.Assign):
            if any(isinstance(t, ast.Name) and t.id == v for t in st.targets):
                if _mentions_call(st.value, on_v):
                    return True
                return False
            continue
        return False
    return False


def len_guarded_siblings(cls):
    """fields f such that a validator of a REQUIRED field starts with `x = len(values["f"])`: a 0-d f makes the model fail"""
    out = set()
    for name, fld in cls.__fields__.items():
        if not fld.required:
            continue
        for val in (fld.class_validators or {}).values():
            node = _fn_ast(val.func)
            body = [st for st in node.body if not (isinstance(st, ast.Expr) and isinstance(st.value, ast.Constant))]
            if body and isinstance(body[0], ast.Assign) and isinstance(body[0].value, ast.Call) \
                    and isinstance(body[0].value.func, ast.Name) and body[0].value.func.id == "len" and len(body[0].value.args) == 1:
                a = body[0].value.args[0]
                if isinstance(a, ast.Subscript) and isinstance(a.value, ast.Name) and a.value.id == "values" \
                        and isinstance(a.slice, ast.Constant) and isinstance(a.slice.value, str):
                    out.add(a.slice.value)
    return out


class FieldTranslator:
    def __init__(self):
        self.pyd = _pyd()
        self.models = {}   # name -> class
        self.order = []
        self.array_fields = []   # (model, alias, has a shape-guarding validator)

    def akind(self, dt):
        if dt is float or (isinstance(dt, type) and issubclass(dt, np.floating)):
            return "AFloat"
        if dt is int or (isinstance(dt, type) and issubclass(dt, np.integer)):
            return "AInt"
        if dt is str:
            return "AStr"
        if dt is bool or (isinstance(dt, type) and issubclass(dt, np.bool_)):
            return "ABool"
        fail(f"unsupported ndarray dtype {dt!r}")

    def ftype(self, tp, where):
        pyd = self.pyd
        from qcelemental.models.types import TypedArray
        if tp is typing.Any:
            return "TAny"
        origin = typing.get_origin(tp)
        args = typing.get_args(tp)
        if origin is typing.Union:
            non = [a for a in args if a is not type(None)]
            inner = non[0] if len(non) == 1 else None
            t = self.ftype(inner, where) if inner is not None else "(TUnion " + clist([self.ftype(a, where) for a in non]) + ")"
            return f"(TOpt {t})" if len(non) != len(args) else t
        if origin is typing.Literal:
            if not all(isinstance(a, str) for a in args):
                fail(f"{where}: non-string Literal")
            return "(TEnum " + clist(args, cstr) + ")"
        if origin in (list, typing.List):
            (a,) = args
            return f"(TList {self.ftype(a, where)} None None)"
        if origin in (tuple, typing.Tuple):
            if len(args) == 2 and args[1] is Ellipsis:
                return f"(TList {self.ftype(args[0], where)} None None)"
            if not args:
                fail(f"{where}: bare Tuple")
            return "(TTuple " + clist([self.ftype(a, where) for a in args]) + ")"
        if origin in (dict, typing.Dict) or (origin is not None and getattr(origin, "__name__", "") == "Mapping"):
            k, v = args
            if k is not str:
                fail(f"{where}: Dict key type {k!r}")
            return f"(TDict {self.ftype(v, where)})"
        if origin is not None:
            fail(f"{where}: unsupported generic {tp!r}")
        if not isinstance(tp, type):
            fail(f"{where}: unsupported type {tp!r}")
        if issubclass(tp, TypedArray):
            return f"(TArr {self.akind(tp._dtype)})"
        if issubclass(tp, pyd.BaseModel):
            self.add_model(tp)
            return f"(TModel {cstr(tp.__name__)})"
        if issubclass(tp, enum.Enum):
            vals = [m.value for m in tp]
            if not (issubclass(tp, str) and all(isinstance(v, str) for v in vals)):
                fail(f"{where}: Enum {tp.__name__} is not a str-Enum")
            return "(TEnum " + clist(vals, cstr) + ")"
        if issubclass(tp, pyd.ConstrainedList):
            if getattr(tp, "unique_items", None):
                fail(f"{where}: unique_items")
            mn, mx = tp.min_items, tp.max_items
            return f"(TList {self.ftype(tp.item_type, where)} {copt(mn, cn)} {copt(mx, cn)})"
        if issubclass(tp, pyd.ConstrainedStr):
            if tp.regex is None or not tp.strip_whitespace or tp.min_length is not None or tp.max_length is not None \
                    or tp.curtail_length is not None or getattr(tp, "to_lower", False) or getattr(tp, "to_upper", False):
                fail(f"{where}: unsupported constrained string")
            pat = tp.regex.pattern if hasattr(tp.regex, "pattern") else tp.regex
            alts = expand_pattern(pat)
            if any(a != a.strip() for a in alts):
                fail(f"{where}: pattern admits surrounding whitespace")
            return "(TEnum " + clist(alts, cstr) + ")"
        if issubclass(tp, pyd.ConstrainedInt):
            if tp.multiple_of is not None:
                fail(f"{where}: multiple_of")
            ge = tp.ge if tp.ge is not None else (tp.gt + 1 if tp.gt is not None else None)
            le = tp.le if tp.le is not None else (tp.lt - 1 if tp.lt is not None else None)
            return f"(TIntC {copt(ge, cz)} {copt(le, cz)})"
        if issubclass(tp, pyd.ConstrainedFloat):
            if tp.multiple_of is not None or tp.gt is not None or tp.lt is not None:
                fail(f"{where}: unsupported float constraint")
            f = lambda v: cq(Fraction(v))
            return f"(TFloatC {copt(tp.ge, f)} {copt(tp.le, f)})"
        if tp is str:
            return "TStr"
        if tp is bool:
            return "TBool"
        if tp is int:
            return "TInt"
        if tp is float:
            return "TFloat"
        fail(f"{where}: unsupported field type {tp!r}")

    def add_model(self, cls):
        name = cls.__name__
        if name in self.models:
            if self.models[name] is not cls:
                fail(f"two different model classes are named {name}")
            return
        self.models[name] = cls
        fields = []
        for fname, f in cls.__fields__.items():
            where = f"{name}.{fname}"
            if f.alias != fname and name != "Molecule":
                fail(f"{where}: alias {f.alias!r} on a model whose dict() does not force by_alias")
            t = self.ftype(f.outer_type_, where)
            if t.startswith("(TArr "):
                guarded = fname in len_guarded_siblings(cls) or any(
                    (not val.pre) and validator_guards_shape(val.func) for val in (f.class_validators or {}).values())
                self.array_fields.append((name, f.alias, bool(guarded)))
                if guarded:
                    t = "(TArrS " + t[6:]
            nullable = bool(f.allow_none)
            if t.startswith("(TOpt "):
                t = t[6:-1]
                nullable = True
            # constraints given through Field(...) must already be reflected in outer_type_ (Constrained* types)
            fi = f.field_info
            if fi.min_items is not None and f"(TList " not in t[:7] + " ":
                fail(f"{where}: min_items on a non-list")
            if fi.min_items is not None and f" (Some {cn(fi.min_items)}) " not in t + " " and not t.endswith(f"(Some {cn(fi.min_items)}) None)"):
                fail(f"{where}: Field(min_items) not reflected in the outer type")
            for attr in ("max_items", "unique_items", "regex", "min_length", "max_length", "multiple_of", "gt", "lt", "ge", "le"):
                if getattr(fi, attr, None) is not None:
                    fail(f"{where}: unsupported Field({attr}=...)")
            fields.append("{| f_alias := %s; f_required := %s; f_nullable := %s; f_type := %s |}" % (
                cstr(f.alias), cbool(bool(f.required)), cbool(nullable), t))
        extra = str(getattr(cls.__config__.extra, "value", cls.__config__.extra))
        if extra not in ("allow", "forbid", "ignore"):
            fail(f"{name}: unsupported Config.extra {extra!r}")
        self.order.append((name, "{| m_extra := %s; m_fields :=\n      %s |}" % (cbool(extra == "allow"), clist(fields))))


def check_by_alias(repo):
    """Molecule.dict() must force by_alias=True and exclude_unset=True (that is what `emit` models)."""
    path = os.path.join(repo, "qcelemental", "models", "molecule.py")
    with open(path) as fh:
        tree = ast.parse(fh.read())
    for node in ast.walk(tree):
        if isinstance(node, ast.ClassDef) and node.name == "Molecule":
            for fn in node.body:
                if isinstance(fn, ast.FunctionDef) and fn.name == "dict":
                    forced = set()
                    for st in fn.body:
                        if isinstance(st, ast.Assign) and len(st.targets) == 1 and isinstance(st.targets[0], ast.Subscript) \
                                and isinstance(st.targets[0].value, ast.Name) and st.targets[0].value.id == "kwargs" \
                                and isinstance(st.targets[0].slice, ast.Constant) and isinstance(st.value, ast.Constant) \
                                and st.value.value is True:
                            forced.add(st.targets[0].slice.value)
                    return forced
    fail("Molecule.dict not found")


def gen_fieldtypes(models):
    ft = FieldTranslator()
    for name in SIX:
        ft.add_model(models[name])
    out = ["(* generated by harness/translate/c09_schema.py from Model.__fields__; do not edit *)",
           "From Coq Require Import ZArith NArith QArith List String.",
           "Require Import QV.Common.Corr QV.Common.JsonS QV.Model.QCSchema.",
           "Import ListNotations.", ""]
    out.append("Definition env : env_t :=\n  [ " + "\n  ; ".join(f"({cstr(n)}, {body})" for n, body in ft.order) + " ].")
    return "\n".join(out) + "\n", ft


# ------------------------------------------------------------------------------------------------
# instances -> Gallina pval

def akind_of_array(a):
    k = a.dtype.kind
    if k == "f":
        return "AFloat"
    if k in "iu":
        return "AInt"
    if k in "US":
        return "AStr"
    if k == "b":
        return "ABool"
    raise ValueError(f"ndarray dtype {a.dtype} is outside the modelled domain")


def cpval(x):
    pyd = _pyd()
    if x is None:
        return "PNone"
    if isinstance(x, (bool, np.bool_)):
        return f"(PBool {cbool(bool(x))})"
    if isinstance(x, enum.Enum):
        if not isinstance(x.value, str):
            raise ValueError("non-str enum")
        return f"(PStr {cstr(x.value)})"
    if isinstance(x, (int, np.integer)):
        return f"(PInt {cz(int(x))})"
    if isinstance(x, (float, np.floating)):
        if not math.isfinite(float(x)):
            raise ValueError("non-finite float")
        return f"(PFloat {cq(Fraction(float(x)))})"
    if isinstance(x, (str, np.str_)):
        return f"(PStr {cstr(str(x))})"
    if isinstance(x, np.ndarray):
        kind = akind_of_array(x)
        flat = x.ravel().tolist() if x.shape else [x.tolist()]
        return f"(PArr {kind} {clist(x.shape, cn)} {clist(flat, cpval)})"
    if isinstance(x, (list, tuple)):
        return "(PList " + clist(x, cpval) + ")"
    if isinstance(x, dict):
        for k in x:
            if not isinstance(k, str):
                raise ValueError("non-string key")
        return "(PDict " + clist(x.items(), lambda kv: f"({cstr(kv[0])}, {cpval(kv[1])})") + ")"
    if isinstance(x, pyd.BaseModel):
        fs = []
        for name, val in x.__dict__.items():
            if name not in x.__fields_set__:
                continue
            f = x.__fields__.get(name)
            fs.append((f.alias if f is not None else name, val))
        return "(PModel " + clist(fs, lambda kv: f"({cstr(kv[0])}, {cpval(kv[1])})") + ")"
    raise ValueError(f"value of type {type(x)} is outside the modelled domain")


# ------------------------------------------------------------------------------------------------
# to_schema.py: unit-factor branch + Bohr guard (AST)

def _src(node):
    return ast.unparse(node)


def gen_to_schema(repo):
    path = os.path.join(repo, "qcelemental", "molparse", "to_schema.py")
    with open(path) as fh:
        tree = ast.parse(fh.read())
    fn = next((n for n in tree.body if isinstance(n, ast.FunctionDef) and n.name == "to_schema"), None)
    if fn is None:
        fail("to_schema not found")
    # 1. the factor branch: the first If statement after `geom = np.array(molrec["geom"], copy=copy)`
    branch = next((st for st in fn.body if isinstance(st, ast.If) and "molrec['units']" in _src(st.test)), None)
    if branch is None:
        fail("to_schema: unit factor branch not found")
    conds, acts = [], []
    cur = branch
    while True:
        conds.append(_src(cur.test))
        acts.append([_src(s) for s in cur.body])
        if len(cur.orelse) == 1 and isinstance(cur.orelse[0], ast.If):
            cur = cur.orelse[0]
        else:
            acts.append([_src(s) for s in cur.orelse])
            break
    exp_conds = ["molrec['units'] == 'Bohr' and units == 'Bohr'",
                 "molrec['units'] == 'Angstrom' and units == 'Bohr' and ('input_units_to_au' in molrec)"]
    exp_acts = [["pass"], ["geom = geom * molrec['input_units_to_au']"],
                ["geom = geom * constants.conversion_factor(molrec['units'], units)"]]
    if conds != exp_conds or acts != exp_acts:
        fail(f"to_schema: unit factor branch changed shape: {conds} / {acts}")
    # geom must not be reassigned afterwards except `qcschema["geom"] = geom` / molecule["geometry"] = geom
    after = fn.body[fn.body.index(branch) + 1:]
    for node in ast.walk(ast.Module(body=after, type_ignores=[])):
        if isinstance(node, (ast.Assign, ast.AugAssign)):
            tgts = node.targets if isinstance(node, ast.Assign) else [node.target]
            for t in tgts:
                if isinstance(t, ast.Name) and t.id == "geom":
                    fail("to_schema: geom is modified after the unit factor branch")
    # 2. the dtype dispatch: `elif dtype in [1, 2]:` begins with `if units != 'Bohr': raise ValidationError`
    disp = next((st for st in fn.body if isinstance(st, ast.If) and _src(st.test) == "dtype == 'psi4'"), None)
    if disp is None or len(disp.orelse) != 1 or not isinstance(disp.orelse[0], ast.If) \
            or _src(disp.orelse[0].test) != "dtype in [1, 2]":
        fail("to_schema: dtype dispatch changed shape")
    qc = disp.orelse[0]
    g = qc.body[0]
    if not (isinstance(g, ast.If) and _src(g.test) == "units != 'Bohr'" and len(g.body) == 1
            and isinstance(g.body[0], ast.Raise) and _src(g.body[0].exc).startswith("ValidationError(") and not g.orelse):
        fail("to_schema: QCSchema branch no longer refuses non-Bohr units first")
    geo_assign = [_src(s) for s in qc.body if isinstance(s, ast.Assign) and _src(s.targets[0]) == "molecule['geometry']"]
    if geo_assign != ["molecule['geometry'] = geom"]:
        fail(f"to_schema: geometry export changed: {geo_assign}")
    frag = [_src(s) for s in qc.body if isinstance(s, ast.Assign) and _src(s.targets[0]) in ("fidx", "molecule['fragments']")]
    if frag != ["fidx = np.split(np.arange(nat), molrec['fragment_separators'])",
                "molecule['fragments'] = [fr.tolist() for fr in fidx]"]:
        fail(f"to_schema: fragment export changed: {frag}")
    text = """(* generated by harness/translate/c09_schema.py from molparse/to_schema.py (AST); do not edit *)
From Coq Require Import QArith Bool List.
Require Import QV.Common.Outcome.
Inductive lunit := Bohr | Angstrom | OtherUnit.
Definition lunit_eqb (a b : lunit) : bool :=
  match a, b with Bohr, Bohr | Angstrom, Angstrom | OtherUnit, OtherUnit => true | _, _ => false end.
(* the if / elif / else of to_schema that scales the geometry:
   molrec_units = molrec["units"], units = requested units, iu2au = molrec.get("input_units_to_au"),
   conv = constants.conversion_factor(molrec["units"], units) *)
Definition geom_factor (molrec_units units : lunit) (iu2au : option Q) (conv : Q) : Q :=
  if lunit_eqb molrec_units Bohr && lunit_eqb units Bohr then 1
  else if lunit_eqb molrec_units Angstrom && lunit_eqb units Bohr && (match iu2au with Some _ => true | None => false end)
       then match iu2au with Some f => f | None => 1 end
  else conv.
(* the same branch as an action on the coordinate list: `pass` leaves the list as it is *)
Definition geom_scale (molrec_units units : lunit) (iu2au : option Q) (conv : Q) (g : list Q) : list Q :=
  if lunit_eqb molrec_units Bohr && lunit_eqb units Bohr then g
  else List.map (fun x => (x * geom_factor molrec_units units iu2au conv)%Q) g.
(* `elif dtype in [1, 2]: if units != "Bohr": raise ValidationError` *)
Definition qcschema_units_guard (units : lunit) : outcome unit :=
  if negb (lunit_eqb units Bohr) then Err Validation else Ok tt.
"""
    return text


# ------------------------------------------------------------------------------------------------
# to_schema.py / from_schema.py: which molrec key goes to which schema key and back (AST, fail closed) -> Gen/SchemaKeys.v

def _sub_key(node, base):
    """`base["k"]` -> k"""
    if isinstance(node, ast.Subscript) and isinstance(node.value, ast.Name) and node.value.id == base \
            and isinstance(node.slice, ast.Constant) and isinstance(node.slice.value, str):
        return node.slice.value
    return None


def _value_source(v):
    """the right-hand side of `molecule[k] = ...` in the QCSchema branch of to_schema: a value-preserving wrapper around
    molrec[key] (np.array(x, copy=copy), np.array(x).tolist(), deepcopy(x), x), or one of the locals geom / name / True"""
    if isinstance(v, ast.Constant) and v.value is True:
        return "SConstTrue"
    if isinstance(v, ast.Name) and v.id == "geom":
        return "SGeom"
    if isinstance(v, ast.Name) and v.id == "name":
        return "SName"
    k = _sub_key(v, "molrec")
    if k is not None:
        return f"(SRec {cstr(k)})"
    if isinstance(v, ast.Call):
        src = _src(v.func)
        if src == "np.array" and len(v.args) == 1 and [(_k.arg, _src(_k.value)) for _k in v.keywords] in ([("copy", "copy")], []):
            k = _sub_key(v.args[0], "molrec")
            if k is not None:
                return f"(SRec {cstr(k)})"
        if src == "deepcopy" and len(v.args) == 1 and not v.keywords:
            k = _sub_key(v.args[0], "molrec")
            if k is not None:
                return f"(SRec {cstr(k)})"
        if isinstance(v.func, ast.Attribute) and v.func.attr == "tolist" and not v.args and not v.keywords:
            return _value_source(v.func.value)
    if isinstance(v, ast.ListComp) and _src(v) == "[fr.tolist() for fr in fidx]":
        return "SFrags"
    return None


def gen_schema_keys(repo):
    # ---- to_schema: the statements of the `dtype in [1, 2]` branch
    with open(os.path.join(repo, "qcelemental", "molparse", "to_schema.py")) as fh:
        tree = ast.parse(fh.read())
    fn = next((n for n in tree.body if isinstance(n, ast.FunctionDef) and n.name == "to_schema"), None)
    if fn is None:
        fail("to_schema not found")
    sig = [a.arg for a in fn.args.args] + [a.arg for a in fn.args.kwonlyargs]
    dfl = [_src(d) for d in fn.args.defaults] + [_src(d) for d in fn.args.kw_defaults]
    if sig != ["molrec", "dtype", "units", "np_out", "copy"] or dfl[:1] != ["'Bohr'"]:
        fail(f"to_schema: signature changed (units must default to 'Bohr'): {sig} {dfl}")
    disp = next((st for st in fn.body if isinstance(st, ast.If) and _src(st.test) == "dtype == 'psi4'"), None)
    if disp is None or len(disp.orelse) != 1 or not isinstance(disp.orelse[0], ast.If) or _src(disp.orelse[0].test) != "dtype in [1, 2]":
        fail("to_schema: dtype dispatch changed shape")
    qc = disp.orelse[0]
    if len(qc.orelse) != 1 or not isinstance(qc.orelse[0], ast.Raise) or not _src(qc.orelse[0].exc).startswith("ValidationError("):
        fail("to_schema: an unknown dtype is no longer refused with ValidationError")
    names = [_src(st) for st in fn.body if isinstance(st, ast.Assign) and _src(st.targets[0]) == "name"]
    if names != ["name = molrec.get('name', formula_generator(molrec['elem']))"]:
        fail(f"to_schema: `name` changed: {names}")
    nats = [_src(st) for st in fn.body if isinstance(st, ast.Assign) and _src(st.targets[0]) == "nat"]
    if nats != ["nat = geom.shape[0] // 3"]:
        fail(f"to_schema: `nat` changed: {nats}")
    fields, header = [], {}
    for st in qc.body[1:]:        # qc.body[0] is the Bohr guard (checked by gen_to_schema)
        if isinstance(st, ast.AnnAssign) and _src(st.target) == "molecule" and _src(st.value) == "{}":
            continue
        if isinstance(st, ast.Assign) and _src(st.targets[0]) == "fidx":
            continue                                     # shape pinned by gen_to_schema
        cond = None
        body = st
        if isinstance(st, ast.If) and _src(st.test) == "dtype == 1":
            # the two headers
            def hdr(dnode):
                """{'schema_name': <str>, 'schema_version': <int>[, <str>: molecule]} -> (name, version, nested key)"""
                if not (isinstance(dnode, ast.Dict) and all(isinstance(k, ast.Constant) and isinstance(k.value, str) for k in dnode.keys)):
                    fail("to_schema: header is not a dict literal: " + _src(dnode)[:200])
                kv = {k.value: v for k, v in zip(dnode.keys, dnode.values)}
                nm, vr = kv.pop("schema_name", None), kv.pop("schema_version", None)
                if not (isinstance(nm, ast.Constant) and isinstance(nm.value, str) and isinstance(vr, ast.Constant) and type(vr.value) is int):
                    fail("to_schema: header name/version are not literals: " + _src(dnode)[:200])
                nested = None
                if kv:
                    if len(kv) != 1 or _src(list(kv.values())[0]) != "molecule":
                        fail("to_schema: unsupported header keys: " + _src(dnode)[:200])
                    nested = list(kv)[0]
                return nm.value, vr.value, nested
            e = st.orelse[0] if len(st.orelse) == 1 else None
            if not (len(st.body) == 1 and isinstance(st.body[0], ast.Assign) and _src(st.body[0].targets[0]) == "qcschema"
                    and isinstance(e, ast.If) and _src(e.test) == "dtype == 2" and not e.orelse and len(e.body) == 2
                    and _src(e.body[0]) == "qcschema = molecule" and isinstance(e.body[1], ast.Expr) and isinstance(e.body[1].value, ast.Call)
                    and _src(e.body[1].value.func) == "qcschema.update" and len(e.body[1].value.args) == 1):
                fail("to_schema: schema_name / schema_version headers changed shape: " + _src(st)[:300])
            h1, h2 = hdr(st.body[0].value), hdr(e.body[1].value.args[0])
            if h1[2] is None or h2[2] is not None:
                fail("to_schema: dtype 1 must nest the molecule and dtype 2 must not: " + _src(st)[:300])
            header = {1: h1, 2: h2}
            continue
        if isinstance(st, ast.If):
            t = st.test
            if not (isinstance(t, ast.Compare) and len(t.ops) == 1 and isinstance(t.ops[0], ast.In) and isinstance(t.left, ast.Constant)
                    and isinstance(t.left.value, str) and _src(t.comparators[0]) == "molrec" and len(st.body) == 1 and not st.orelse):
                fail("to_schema: unsupported conditional in the QCSchema branch: " + _src(st)[:200])
            cond, body = t.left.value, st.body[0]
        if not (isinstance(body, ast.Assign) and len(body.targets) == 1):
            fail("to_schema: unsupported statement in the QCSchema branch: " + _src(st)[:200])
        sk = _sub_key(body.targets[0], "molecule")
        srcv = _value_source(body.value)
        if sk is None or srcv is None:
            fail("to_schema: unsupported export statement: " + _src(body)[:200])
        if cond is not None and srcv != f"(SRec {cstr(cond)})":
            fail("to_schema: a conditional export tests a different key than it copies: " + _src(st)[:200])
        fields.append((sk, srcv, cond is not None))
    if not header:
        fail("to_schema: headers not found")
    if len({f[0] for f in fields}) != len(fields):
        fail("to_schema: a schema key is written twice")
    tail = [_src(st) for st in fn.body[fn.body.index(disp) + 1:]]
    if tail != ["if not np_out:\n    qcschema = unnp(qcschema)", "return qcschema"]:
        fail(f"to_schema: tail changed: {tail}")
    # ---- from_schema
    with open(os.path.join(repo, "qcelemental", "molparse", "from_schema.py")) as fh:
        tree = ast.parse(fh.read())
    fs = next((n for n in tree.body if isinstance(n, ast.FunctionDef) and n.name == "from_schema"), None)
    if fs is None:
        fail("from_schema not found")
    body = [st for st in fs.body if not (isinstance(st, ast.Expr) and isinstance(st.value, ast.Constant))]
    if len(body) != 6:
        fail(f"from_schema: expected 6 statements, found {len(body)}")
    sniff, frag, contig, fa, prov, ret = body
    get_name = "molschema.get('schema_name', '')"
    get_ver = "molschema.get('schema_version', '')"

    def prefixes(node):
        """a.startswith(p) [or a.startswith(q) ...] on molschema.get('schema_name', '')"""
        alts = node.values if isinstance(node, ast.BoolOp) and isinstance(node.op, ast.Or) else [node]
        out = []
        for a in alts:
            if not (isinstance(a, ast.Call) and isinstance(a.func, ast.Attribute) and a.func.attr == "startswith"
                    and _src(a.func.value) == get_name and len(a.args) == 1 and isinstance(a.args[0], ast.Constant)
                    and isinstance(a.args[0].value, str)):
                fail("from_schema: unsupported schema_name test: " + _src(node)[:200])
            out.append(a.args[0].value)
        return out

    def rule(ifnode):
        t = ifnode.test
        if not (isinstance(t, ast.BoolOp) and isinstance(t.op, ast.And) and len(t.values) == 2):
            fail("from_schema: version sniffing changed shape: " + _src(t)[:300])
        pf = prefixes(t.values[0])
        c = t.values[1]
        if not (isinstance(c, ast.Compare) and _src(c.left) == get_ver and len(c.ops) == 1 and isinstance(c.ops[0], ast.Eq)
                and isinstance(c.comparators[0], ast.Constant) and type(c.comparators[0].value) is int):
            fail("from_schema: unsupported schema_version test: " + _src(c)[:200])
        if len(ifnode.body) != 1:
            fail("from_schema: version sniffing body changed")
        b = _src(ifnode.body[0])
        if b == "ms = molschema['molecule']":
            nested = "molecule"
        elif b == "ms = molschema":
            nested = None
        else:
            fail("from_schema: unsupported selection " + b)
        return pf, c.comparators[0].value, nested

    if not isinstance(sniff, ast.If) or len(sniff.orelse) != 1 or not isinstance(sniff.orelse[0], ast.If):
        fail("from_schema: version sniffing changed shape")
    r1, second = rule(sniff), sniff.orelse[0]
    r2 = rule(second)
    if not (len(second.orelse) == 1 and isinstance(second.orelse[0], ast.Raise) and _src(second.orelse[0].exc).startswith("ValidationError(")):
        fail("from_schema: an unrecognised schema is no longer refused with ValidationError")
    if _src(frag) != "if 'fragments' in ms:\n    frag_pattern = ms['fragments']\nelse:\n    frag_pattern = [np.arange(len(ms['symbols']))]":
        fail("from_schema: fragment pattern selection changed: " + _src(frag))

    def read_of(v):
        """ms['k'] -> (k, required) ; ms.get('k', None) -> (k, optional)"""
        k = _sub_key(v, "ms")
        if k is not None:
            return k, True
        if isinstance(v, ast.Call) and _src(v.func) == "ms.get" and len(v.args) == 2 and isinstance(v.args[0], ast.Constant) \
                and isinstance(v.args[0].value, str) and isinstance(v.args[1], ast.Constant) and v.args[1].value is None and not v.keywords:
            return v.args[0].value, False
        return None

    if not (isinstance(contig, ast.Assign) and _src(contig.targets[0]) == "dcontig" and isinstance(contig.value, ast.Call)
            and _src(contig.value.func) == "contiguize_from_fragment_pattern" and [_src(a) for a in contig.value.args] == ["frag_pattern"]):
        fail("from_schema: contiguize call changed shape")
    via = {}
    for kw in contig.value.keywords:
        if kw.arg == "throw_reorder":
            if _src(kw.value) != "True":
                fail("from_schema: throw_reorder is no longer True")
            continue
        rd = read_of(kw.value)
        if rd is None:
            fail(f"from_schema: unsupported contiguize argument {kw.arg}={_src(kw.value)}")
        via[kw.arg] = rd
    if "throw_reorder" not in [kw.arg for kw in contig.value.keywords]:
        fail("from_schema: throw_reorder not passed")
    if not (isinstance(fa, ast.Assign) and _src(fa.targets[0]) == "molrec" and isinstance(fa.value, ast.Call)
            and _src(fa.value.func) == "from_arrays" and not fa.value.args):
        fail("from_schema: from_arrays call changed shape")
    reads, consts = [], []
    for kw in fa.value.keywords:
        k = _sub_key(kw.value, "dcontig")
        if k is not None:
            if k == "fragment_separators":
                reads.append((kw.arg, "fragments", False, True))
                continue
            if k != kw.arg or k not in via:
                fail(f"from_schema: {kw.arg}=dcontig[{k!r}] is not an array handed to contiguize under the same name")
            reads.append((kw.arg, via[k][0], via[k][1], True))
            continue
        rd = read_of(kw.value)
        if rd is not None:
            reads.append((kw.arg, rd[0], rd[1], False))
            continue
        if isinstance(kw.value, ast.Constant) or (isinstance(kw.value, ast.Name) and kw.value.id in ("nonphysical", "verbose") and kw.value.id == kw.arg):
            consts.append((kw.arg, _src(kw.value)))
            continue
        fail(f"from_schema: unsupported from_arrays argument {kw.arg}={_src(kw.value)}")
    if len({r[0] for r in reads}) != len(reads):
        fail("from_schema: a from_arrays argument is given twice")
    if _src(prov) != "molrec['provenance'] = provenance_stamp(__name__)" or _src(ret) != "return molrec":
        fail("from_schema: tail changed")
    # ---- defaults of from_arrays that from_schema relies on (it does not pass these arguments)
    import inspect
    from qcelemental.molparse import from_arrays as fa_fn
    ps = inspect.signature(fa_fn).parameters
    passed = {r[0] for r in reads} | {c[0] for c in consts}
    need = ["tooclose", "zero_ghost_fragments", "mtol", "missing_enabled_return"]
    for k in need:
        if k in passed:
            fail(f"from_schema now passes {k} to from_arrays")
        if k not in ps:
            fail(f"from_arrays has no parameter {k}")
    tooclose, zgf, mtol, mer = (ps[k].default for k in need)
    if not (isinstance(tooclose, float) and isinstance(mtol, float) and zgf in (False, True) and isinstance(mer, str)):
        fail("from_arrays: unexpected defaults")
    from decimal import Decimal
    dq = lambda x: cq(Fraction(Decimal(repr(x))))
    srcs = "Inductive src := SRec (k : string) | SGeom | SName | SFrags | SConstTrue."
    text = "\n".join([
        "(* generated by harness/translate/c09_schema.py from molparse/to_schema.py, from_schema.py (AST) and the signature of from_arrays; do not edit *)",
        "From Coq Require Import ZArith QArith List String.", "Import ListNotations.", "Open Scope string_scope.", srcs,
        "(* `molecule[schema key] = <value-preserving wrapper>(source)`; true = only `if key in molrec` *)",
        "Definition to_schema_fields : list (string * src * bool) :=\n  " + clist(fields, lambda f: f"({cstr(f[0])}, {f[1]}, {cbool(f[2])})") + ".",
        "(* dtype -> (schema_name, schema_version, key under which the molecule is nested) *)",
        "Definition to_schema_header (dtype : Z) : option (string * Z * option string) :=\n  " +
        " else ".join(f"if (dtype =? {k})%Z then Some ({cstr(h[0])}, {cz(h[1])}, {copt(h[2], cstr)})" for k, h in sorted(header.items())) + " else None.",
        "(* from_schema's recognition rules, in order: (accepted schema_name prefixes, schema_version, nested key) *)",
        "Definition from_schema_rules : list (list string * Z * option string) :=\n  " +
        clist([r1, r2], lambda r: f"({clist(r[0], cstr)}, {cz(r[1])}, {copt(r[2], cstr)})") + ".",
        "(* from_arrays keyword <- schema key (required = ms[key], otherwise ms.get(key, None); routed through contiguize?) *)",
        "Definition from_schema_reads : list (string * string * bool * bool) :=\n  " +
        clist(reads, lambda r: f"({cstr(r[0])}, {cstr(r[1])}, {cbool(r[2])}, {cbool(r[3])})") + ".",
        "(* from_arrays keywords that from_schema fixes (Python source of the value) *)",
        "Definition from_schema_consts : list (string * string) :=\n  " + clist(consts, lambda c: f"({cstr(c[0])}, {cstr(c[1])})") + ".",
        "(* defaults of from_arrays that from_schema relies on *)",
        f"Definition fa_default_tooclose : Q := {dq(tooclose)}.",
        f"Definition fa_default_mtol : Q := {dq(mtol)}.",
        f"Definition fa_default_zero_ghost_fragments : bool := {cbool(bool(zgf))}.",
        f"Definition fa_default_missing_enabled_return : string := {cstr(mer)}.", ""])
    return text


# ------------------------------------------------------------------------------------------------
# models/molecule.py: what Molecule.__init__ does to the geometry, and how get_hash / __eq__ read it (AST, fail closed)
# -> Gen/MolGeomInit.v

def gen_mol_init(repo):
    path = os.path.join(repo, "qcelemental", "models", "molecule.py")
    with open(path) as fh:
        tree = ast.parse(fh.read())
    consts = {}
    for st in tree.body:
        if isinstance(st, ast.Assign) and len(st.targets) == 1 and isinstance(st.targets[0], ast.Name) \
                and st.targets[0].id in ("GEOMETRY_NOISE", "MASS_NOISE", "CHARGE_NOISE"):
            if not (isinstance(st.value, ast.Constant) and type(st.value.value) is int):
                fail(f"molecule.py: {st.targets[0].id} is not an integer literal")
            consts[st.targets[0].id] = st.value.value
    if "GEOMETRY_NOISE" not in consts:
        fail("molecule.py: GEOMETRY_NOISE not found")
    cls = next((n for n in tree.body if isinstance(n, ast.ClassDef) and n.name == "Molecule"), None)
    if cls is None:
        fail("molecule.py: class Molecule not found")
    fns = {n.name: n for n in cls.body if isinstance(n, ast.FunctionDef)}
    for need in ("__init__", "get_hash", "__eq__"):
        if need not in fns:
            fail(f"Molecule.{need} not found")
    init = fns["__init__"]
    args = [a.arg for a in init.args.args]
    dflt = [_src(d) for d in init.args.defaults]
    if args != ["self", "orient", "validate"] or dflt != ["False", "None"] or init.args.kwarg is None or init.args.kwarg.arg != "kwargs":
        fail(f"Molecule.__init__ signature changed: {args} {dflt}")
    body = [st for st in init.body if not (isinstance(st, ast.Expr) and isinstance(st.value, ast.Constant))]
    src = [_src(st) for st in body]
    want_head = ["if validate is None:\n    validate = not kwargs.get('validated', False)",
                 "geometry_prep = kwargs.pop('_geometry_prep', False)",
                 "geometry_noise = kwargs.pop('geometry_noise', GEOMETRY_NOISE)"]
    if src[:3] != want_head:
        fail(f"Molecule.__init__: the validate / geometry_prep / geometry_noise preamble changed: {src[:3]}")
    last = body[-1]
    want_last = ("if orient:\n    values['geometry'] = float_prep(self._orient_molecule_internal(), geometry_noise)\n"
                 "elif validate or geometry_prep:\n    values['geometry'] = float_prep(values['geometry'], geometry_noise)")
    if _src(last) != want_last:
        fail(f"Molecule.__init__: the geometry branch changed: {_src(last)}")
    # nothing else in __init__ may assign the stored geometry, `validate` only ever becomes True inside `if validate:`
    for st in body[3:-1]:
        for node in ast.walk(st):
            if isinstance(node, (ast.Assign, ast.AugAssign)):
                tgts = node.targets if isinstance(node, ast.Assign) else [node.target]
                for t in tgts:
                    ts = _src(t)
                    if "geometry" in ts and ts.startswith(("values", "self")):
                        fail(f"Molecule.__init__ assigns the geometry elsewhere: {_src(node)}")
                    if ts in ("geometry_noise", "geometry_prep", "orient"):
                        fail(f"Molecule.__init__ reassigns {ts}")
                    if ts == "validate" and _src(node) != "validate = True":
                        fail(f"Molecule.__init__ reassigns validate: {_src(node)}")
    vblock = next((st for st in body[3:-1] if isinstance(st, ast.If) and _src(st.test) == "validate"), None)
    if vblock is None or "validate = True" not in [_src(x) for x in vblock.body] or "kwargs['validated'] = True" not in [_src(x) for x in vblock.body]:
        fail("Molecule.__init__: the validating block changed shape")
    # float_prep: round, then flush
    fp = next((n for n in tree.body if isinstance(n, ast.FunctionDef) and n.name == "float_prep"), None)
    if fp is None or [a.arg for a in fp.args.args] != ["array", "around"]:
        fail("float_prep(array, around) not found")
    fbody = [st for st in fp.body if not (isinstance(st, ast.Expr) and isinstance(st.value, ast.Constant))]
    if not (len(fbody) == 2 and isinstance(fbody[0], ast.If) and _src(fbody[0].test) == "isinstance(array, (list, np.ndarray))"
            and [_src(x) for x in fbody[0].body] == ["array = np.around(array, around)", "array[np.abs(array) < 5 ** (-(around + 1))] = 0"]
            and _src(fbody[1]) == "return array"):
        fail("float_prep: the array branch changed shape")
    # get_hash: the geometry is rounded with GEOMETRY_NOISE before it is hashed
    gh = fns["get_hash"]
    loop = next((st for st in gh.body if isinstance(st, ast.For) and _src(st.iter) == "self.hash_fields"), None)
    if loop is None or _src(loop.target) != "field" or _src(loop.body[0]) != "data = getattr(self, field)":
        fail("get_hash: loop over hash_fields changed shape")
    br = loop.body[1]
    if not (isinstance(br, ast.If) and _src(br.test) == "field == 'geometry'" and [_src(x) for x in br.body] == ["data = float_prep(data, GEOMETRY_NOISE)"]):
        fail(f"get_hash: the geometry is no longer rounded with GEOMETRY_NOISE before hashing: {_src(br)[:200]}")
    hf = next((st for st in cls.body if isinstance(st, ast.Assign) and _src(st.targets[0]) == "hash_fields"), None)
    if hf is None:
        for st in cls.body:
            if isinstance(st, ast.FunctionDef) and st.name == "hash_fields":
                hf = st
    if hf is None or "'geometry'" not in _src(hf):
        fail("Molecule.hash_fields no longer lists the geometry")
    # __eq__: dictionaries are rebuilt with Molecule(orient=False, **other), then the hashes are compared
    eq = fns["__eq__"]
    esrc = _src(eq)
    if "other = Molecule(orient=False, **other)" not in esrc or "return self.get_hash() == other.get_hash()" not in esrc:
        fail("Molecule.__eq__ changed shape")
    text = f"""(* generated by harness/translate/c09_schema.py from models/molecule.py (AST: GEOMETRY_NOISE, Molecule.__init__, float_prep,
   get_hash, __eq__); do not edit *)
From Coq Require Import ZArith Bool.
Open Scope Z_scope.
Definition geometry_noise_default : Z := {consts['GEOMETRY_NOISE']}.      (* GEOMETRY_NOISE: kwargs.pop("geometry_noise", GEOMETRY_NOISE) *)
Definition hash_geometry_noise : Z := {consts['GEOMETRY_NOISE']}.         (* get_hash: float_prep(data, GEOMETRY_NOISE) for field "geometry" *)
(* `if validate is None: validate = not kwargs.get("validated", False)` *)
Definition validate_flag (validate_arg : option bool) (validated_in_kwargs : bool) : bool :=
  match validate_arg with None => negb validated_in_kwargs | Some b => b end.
Definition noise_of (noise_kw : option Z) : Z := match noise_kw with Some n => n | None => geometry_noise_default end.
(* what __init__ finally does to the stored geometry *)
Inductive geom_action := GKeep | GPrep (noise : Z) | GOrientPrep (noise : Z).
Definition init_geometry_action (orient validate geometry_prep : bool) (noise : Z) : geom_action :=
  if orient then GOrientPrep noise
  else if validate || geometry_prep then GPrep noise
  else GKeep.
"""
    return text


# ------------------------------------------------------------------------------------------------
# name / comment: to_schema's default name, the conditional comment, from_schema's optional reads, and what from_arrays
# (validate_and_fill_units) keeps of them (AST, fail closed) -> Gen/SchemaExtras.v

def gen_schema_extras(repo):
    def fn_of(rel, name):
        with open(os.path.join(repo, "qcelemental", "molparse", rel)) as fh:
            tree = ast.parse(fh.read())
        f = next((n for n in tree.body if isinstance(n, ast.FunctionDef) and n.name == name), None)
        if f is None:
            fail(f"{rel}: {name} not found")
        return f
    ts = fn_of("to_schema.py", "to_schema")
    names = [_src(st) for st in ts.body if isinstance(st, ast.Assign) and _src(st.targets[0]) == "name"]
    if names != ["name = molrec.get('name', formula_generator(molrec['elem']))"]:
        fail(f"to_schema: the name default changed: {names}")
    qc = next((st for st in ast.walk(ts) if isinstance(st, ast.If) and _src(st.test) == "dtype in [1, 2]"), None)
    if qc is None:
        fail("to_schema: QCSchema branch not found")
    nm = [_src(st) for st in qc.body if isinstance(st, ast.Assign) and _src(st.targets[0]) == "molecule['name']"]
    cm = [st for st in qc.body if isinstance(st, ast.If) and _src(st.test) == "'comment' in molrec"]
    if nm != ["molecule['name'] = name"] or len(cm) != 1 or cm[0].orelse \
            or set(_src(x) for x in cm[0].body) != {"molecule['comment'] = molrec['comment']"}:
        fail("to_schema: name / comment export changed shape")
    if any("molecule['comment']" in _src(st) for st in qc.body if st is not cm[0]):
        fail("to_schema: the comment is written outside its `if 'comment' in molrec`")
    fs = fn_of("from_schema.py", "from_schema")
    call = next((n for n in ast.walk(fs) if isinstance(n, ast.Call) and _src(n.func) == "from_arrays"), None)
    if call is None:
        fail("from_schema: the from_arrays call was not found")
    kws = {k.arg: _src(k.value) for k in call.keywords}
    if kws.get("name") != "ms.get('name', None)" or kws.get("comment") != "ms.get('comment', None)":
        fail(f"from_schema: name / comment are no longer read with ms.get(..., None): {kws.get('name')} / {kws.get('comment')}")
    for node in ast.walk(fs):
        if isinstance(node, ast.Assign) and _src(node.targets[0]) in ("molrec['name']", "molrec['comment']"):
            fail("from_schema overwrites name / comment")
    fa = fn_of("from_arrays.py", "from_arrays")
    ucall = next((n for n in ast.walk(fa) if isinstance(n, ast.Call) and _src(n.func) == "validate_and_fill_units"), None)
    if ucall is None:
        fail("from_arrays: validate_and_fill_units call not found")
    ukw = {k.arg: _src(k.value) for k in ucall.keywords}
    if ukw.get("name") != "name" or ukw.get("comment") != "comment":
        fail("from_arrays no longer hands name / comment to validate_and_fill_units")
    for node in ast.walk(fa):
        if isinstance(node, ast.Assign) and any(_src(t) in ("name", "comment", "processed['name']", "processed['comment']",
                                                            "molinit['name']", "molinit['comment']") for t in node.targets):
            fail(f"from_arrays rewrites name / comment: {_src(node)[:200]}")
    vu = fn_of("from_arrays.py", "validate_and_fill_units")
    head = [_src(st) for st in vu.body[:3]]
    if head != ["molinit = {}", "if name is not None:\n    molinit['name'] = name", "if comment is not None:\n    molinit['comment'] = comment"]:
        fail(f"validate_and_fill_units: name / comment handling changed: {head}")
    for st in vu.body[3:]:
        for node in ast.walk(st):
            if isinstance(node, (ast.Assign, ast.Delete)) and ("molinit['name']" in _src(node) or "molinit['comment']" in _src(node)):
                fail("validate_and_fill_units touches name / comment again")
    return """(* generated by harness/translate/c09_schema.py from molparse/to_schema.py, from_schema.py, from_arrays.py (AST); do not edit *)
From Coq Require Import String.
(* to_schema: `name = molrec.get("name", formula_generator(molrec["elem"]))`, `molecule["name"] = name` *)
Definition export_name (name : option string) (formula : string) : option string :=
  Some (match name with Some n => n | None => formula end).
(* to_schema: `if "comment" in molrec: molecule["comment"] = molrec["comment"]` *)
Definition export_comment (comment : option string) : option string := comment.
(* from_schema: name=ms.get("name", None) -> from_arrays -> validate_and_fill_units: `if name is not None: molinit["name"] = name` *)
Definition stored_name (name : option string) : option string := match name with Some n => Some n | None => None end.
Definition stored_comment (comment : option string) : option string := match comment with Some c => Some c | None => None end.
"""


# ------------------------------------------------------------------------------------------------
# models/types.py: descriptor `TArr kind` says "an ndarray whose entries all have the field's dtype" because TypedArray.validate
# converts whatever it is handed with np.asarray(v, dtype=cls._dtype) and nothing else (AST guard, fail closed)

def check_typed_array(repo):
    path = os.path.join(repo, "qcelemental", "models", "types.py")
    with open(path) as fh:
        tree = ast.parse(fh.read())
    cls = next((n for n in tree.body if isinstance(n, ast.ClassDef) and n.name == "TypedArray"), None)
    if cls is None:
        fail("types.py: class TypedArray not found")
    fns = {n.name: n for n in cls.body if isinstance(n, ast.FunctionDef)}
    want = {"__get_validators__": "yield cls.validate",
            "validate": "try:\n    v = np.asarray(v, dtype=cls._dtype)\nexcept ValueError:\n    raise ValueError('Could not cast {} to NumPy Array!'.format(v))\nreturn v"}
    for name, body in want.items():
        if name not in fns:
            fail(f"TypedArray.{name} not found")
        got = "\n".join(_src(st) for st in fns[name].body if not (isinstance(st, ast.Expr) and isinstance(st.value, ast.Constant)))
        if got != body:
            fail(f"TypedArray.{name} changed (an array field no longer holds exactly np.asarray(v, dtype=field dtype)): {got[:300]}")
    meta = next((n for n in tree.body if isinstance(n, ast.ClassDef) and n.name == "ArrayMeta"), None)
    if meta is None or "return type('Array', (TypedArray,), {'_dtype': dtype})" not in _src(meta):
        fail("types.py: ArrayMeta.__getitem__ changed")


def generate(repo):
    check_typed_array(repo)
    models = schema_models(repo)
    forced = check_by_alias(repo)
    if not {"by_alias", "exclude_unset"} <= forced:
        fail(f"Molecule.dict() no longer forces by_alias/exclude_unset (forces {sorted(forced)})")
    stext, schemas = gen_schemas(models)
    ftext, ft = gen_fieldtypes(models)
    ttext = gen_to_schema(repo)
    ktext = gen_schema_keys(repo)
    mtext = gen_mol_init(repo)
    xtext = gen_schema_extras(repo)
    gen = os.path.join(coqrun.COQ, "Gen")
    coqrun.write_if_changed(os.path.join(gen, "SchemaExtras.v"), xtext)
    coqrun.write_if_changed(os.path.join(gen, "MolGeomInit.v"), mtext)
    coqrun.write_if_changed(os.path.join(gen, "Schemas.v"), stext)
    coqrun.write_if_changed(os.path.join(gen, "FieldTypes.v"), ftext)
    coqrun.write_if_changed(os.path.join(gen, "ToSchemaGen.v"), ttext)
    coqrun.write_if_changed(os.path.join(gen, "SchemaKeys.v"), ktext)
    return {"models": models, "schemas": schemas, "all_models": ft.models, "array_fields": ft.array_fields}
