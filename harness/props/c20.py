"""C20 — result models: array shapes and retention protocols.

Correspondence of Model/Results.v + Model/Basis.v (interpreting the tables the translator regenerates into
Gen/KeepLists.v) with AtomicResult / WavefunctionProperties / AtomicResultProperties / OptimizationResult /
BasisSet, and the property oracle evaluated directly on what the implementation returns (written from the
documentation of the protocols, independently of the model and of the generated tables)."""
import itertools
import warnings

import numpy as np

from .. import coqrun, retry
from ..core import Corr
from ..coqrun import cz, clist, copt, cbool, cstr
from ..translate import keeplists

PID = "C20"
ALLOWED_AXIOMS = set()
EXTRA_TARGETS = ["Model/Results.vo", "Model/Basis.vo"]
TRUSTED = [
    "hand-written models coq/Model/Results.v, coq/Model/Basis.v interpreting the generated tables coq/Gen/KeepLists.v; tied by "
    "the fail-closed translator harness/translate/keeplists.py (every statement of the validators is either translated or "
    "compared with the expected skeleton) and by differential execution (this file)",
    "pydantic.v1 plumbing (field order, error collection, Optional/None handling, exclude_unset in dict()), numpy asarray/reshape/"
    "shape assignment and int(size**0.5) are modelled, not verified",
    "array elements are integer-valued in the generators (supplied as float64 / float32 / int32 / int64 / big-endian float64 and "
    "int32, C / Fortran / strided memory, or nested lists); the model sees the logical element order only",
    "the basis of a wavefunction is modelled by its function count; that the basis itself is kept unchanged (name, atom map, "
    "shells), whether it arrives as a BasisSet object or as plain data, is judged by the oracle only",
]
ASSUMPTIONS = [
    "wavefunction pointer values are str or None, `restricted` is a bool, arrays are ndarrays (any layout, real numeric dtype) or "
    "(nested) lists",
    "int(size**0.5) equals the integer square root for the array sizes in scope (exact for sizes < 2**52)",
]

REQ = ["QV.Common.Outcome", "QV.Gen.KeepLists", "QV.Model.Results", "QV.Model.Basis"]

# ---------------------------------------------------------------------------------------------------------
# the documentation, written by hand (never read from the code or from the generated tables)

PTRS = ["orbitals_a", "orbitals_b", "density_a", "density_b", "fock_a", "fock_b", "eigenvalues_a", "eigenvalues_b",
        "occupations_a", "occupations_b"]
DOC_KEEP = {
    "all": "ALL",
    "none": "NONE",
    "return_results": list(PTRS),
    "orbitals_and_eigenvalues": ["orbitals_a", "orbitals_b", "eigenvalues_a", "eigenvalues_b"],
    "occupations_and_eigenvalues": ["occupations_a", "occupations_b", "eigenvalues_a", "eigenvalues_b"],
}
# shape implied for each wavefunction array ("AO matrices nbf x nbf", orbitals nbf x nmo, vectors nmo)
MAT = ["h_core", "h_effective", "scf_density", "scf_fock", "scf_coulomb", "scf_exchange"]
ORB = ["scf_orbitals", "localized_orbitals"]
VEC = ["scf_eigenvalues", "scf_occupations"]
MOMO = ["localized_fock"]
WFN_ARRAYS = [f"{b}_{s}" for b in ["h_core", "h_effective", "scf_orbitals", "scf_density", "scf_fock", "scf_eigenvalues",
                                   "scf_occupations", "scf_coulomb", "scf_exchange", "localized_orbitals", "localized_fock"]
              for s in "ab"]
# arrays that declare a shape but are covered by no validator (known finding C20-unvalidated-declared-shapes)
UNVALIDATED_WFN = {"localized_fock_a", "localized_fock_b"}
UNVALIDATED_PROP = set()
PROP_ARRAYS = {
    "return_gradient": "grad", "scf_total_gradient": "grad", "return_hessian": "hess", "scf_total_hessian": "hess",
    "scf_dipole_moment": "dip", "mp2_dipole_moment": "dip", "ccsd_dipole_moment": "dip", "ccsd_prt_pr_dipole_moment": "dip",
    "ccsdt_dipole_moment": "dip", "ccsdtq_dipole_moment": "dip", "scf_quadrupole_moment": "quad",
}
WFN_PROTOS = ["all", "orbitals_and_eigenvalues", "occupations_and_eigenvalues", "return_results", "none"]
NATIVE = ["all", "input", "none"]
TRAJ = ["all", "initial_and_final", "final", "none"]
DRIVERS = ["energy", "gradient", "hessian", "properties"]
DEFAULTS = {"wavefunction": "none", "stdout": True, "native_files": "none", "trajectory": "all"}


def wfn_kind(name):
    base = name[:-2]
    return "mat" if base in MAT else "orb" if base in ORB else "vec" if base in VEC else "momo"


def translate(ctx):
    keeplists.generate(ctx.repo)


# ---------------------------------------------------------------------------------------------------------
# implementation runners

_FIX = {}
_S = lambda L, sph=True: {"am": [L], "sph": sph, "nexp": 1, "coef": [1]}
# the five plain basis sets the wavefunction cases use (as cases of the basis stream), by function count
FIXTURE_BASIS = {1: {"centers": [["fx1", [_S(0)]]], "atom_map": ["fx1"], "nbf": 1},
                 2: {"centers": [["fx2", [_S(0)]]], "atom_map": ["fx2", "fx2"], "nbf": 2},
                 3: {"centers": [["fx3", [_S(1)]]], "atom_map": ["fx3"], "nbf": 3},
                 4: {"centers": [["fx4", [_S(0), _S(1)]]], "atom_map": ["fx4"], "nbf": 4},
                 6: {"centers": [["fx6", [_S(2, False)]]], "atom_map": ["fx6"], "nbf": 6}}


# a second family: ONE basis name, ONE center key and ONE atom_map for every function count, two shell layouts per count (the same
# named basis with / without polarisation functions, in its spherical and its cartesian form): whatever identifies a basis set
# short of its shells is shared. Judged by their own shells like every other basis.
SHARED_BASIS = {1: [[_S(0)], [_S(0, False)]],
                2: [[_S(0), _S(0)], [_S(0, False), _S(0)]],
                3: [[_S(1)], [_S(1, False)]],
                4: [[_S(0), _S(1)], [_S(0), _S(0), _S(0), _S(0)]],
                6: [[_S(2, False)], [_S(1), _S(1, False)]]}
# how the basis of a wavefunction reaches the constructor: "obj" / "dict" = the fixture b<nbf> as a BasisSet object / as plain data
# (what a deserialised record carries); "s<v>obj" / "s<v>dict" = variant v of the shared-name family, likewise
BASIS_FORMS = ["obj", "dict", "s0obj", "s0dict", "s1obj", "s1dict"]


def basis_form(spec):
    return spec[2] if len(spec) > 2 else "obj"


def basis_plain(spec):
    """["basis", nbf, form?] -> the keyword data of that basis set (fresh on every call: nothing is shared between cases)"""
    form = basis_form(spec)
    if form.startswith("s"):
        case = {"centers": [["sh", SHARED_BASIS[spec[1]][int(form[1])]]], "atom_map": ["sh"], "nbf": spec[1]}
        return dict(basis_kwargs(case), name="shared")
    return dict(basis_kwargs(FIXTURE_BASIS[spec[1]]), name=f"b{spec[1]}")


def basis_digest(d):
    """everything a basis set says (plain data of the constructor, or BasisSet.dict()), canonical and JSON-able"""
    hv = lambda h: str(getattr(h, "value", h))
    cd = []
    for k in sorted(d["center_data"]):
        c = d["center_data"][k]
        cd.append([k, [[hv(sh["harmonic_type"]), [int(L) for L in sh["angular_momentum"]], [float(x) for x in sh["exponents"]],
                        [[float(x) for x in row] for row in sh["coefficients"]]] for sh in c["electron_shells"]]])
    return [str(d["name"]), [str(a) for a in d["atom_map"]], None if d.get("nbf") is None else int(d["nbf"]), cd]


def digest_count(dg):
    """number of functions implied by the shells of a digest (2L+1 / (L+1)(L+2)/2 over the atom map)"""
    per = {k: sum((2 * L + 1) if h == "spherical" else (L + 1) * (L + 2) // 2 for h, am, _, _ in shells for L in am) for k, shells in dg[3]}
    return sum(per.get(a, 0) for a in dg[1])


def fixtures():
    if _FIX:
        return _FIX
    from qcelemental.models import Molecule
    warnings.filterwarnings("ignore", category=DeprecationWarning)
    mol = Molecule(symbols=["He", "He"], geometry=[0, 0, 0, 0, 0, 3])
    _FIX.update(mol=mol, basis={})
    try:
        for nbf in FIXTURE_BASIS:
            # (the stored count is judged by the basis streams, not here; distinct names and center keys per fixture)
            basis_object(["basis", nbf])
            for v in (0, 1):
                basis_object(["basis", nbf, f"s{v}obj"])
    except Exception:
        _FIX.clear()
        raise
    return _FIX


def basis_object(spec):
    """the BasisSet object of a spec (built once per (nbf, family, variant) from plain data of its own)"""
    from qcelemental.models import BasisSet
    pool = _FIX["basis"]
    key = (spec[1], basis_form(spec).replace("dict", "obj"))
    if key not in pool:
        pool[key] = BasisSet(**basis_plain(spec))
    return pool[key]


# element types / memory layouts an array may arrive in besides a C-ordered float64 ndarray or a nested list
ARRAY_DTYPES = {"i8": "<i8", "i4": "<i4", "be": ">f8", "f4": "<f4", "bi4": ">i4"}
ARRAY_FORMS = ["nd", "nd", "nd", "nd", "list", "list", "F", "strided", "i8", "i4", "be", "f4", "bi4"]


def ekind(e):
    from pydantic.v1 import ValidationError as PV
    from qcelemental.exceptions import ValidationError as QV
    if isinstance(e, (PV, QV)):
        return "Validation"
    return type(e).__name__


def to_np(spec):
    """["arr", data, shape, form] -> the value handed to the implementation"""
    _, data, shape, form = spec
    a = np.array(data, dtype=float).reshape(shape)
    if form == "list":
        return a.tolist()
    if form == "F":                       # column-major memory, same logical elements
        return np.asfortranarray(a)
    if form == "strided":                 # a non-contiguous view (every other element of the last axis of a wider buffer)
        big = np.zeros(list(a.shape[:-1]) + [2 * a.shape[-1]]) if a.ndim else np.zeros(())
        if a.ndim == 0:
            return a
        big[..., ::2] = a
        return big[..., ::2]
    if form in ARRAY_DTYPES:              # integer-valued elements: every one of these dtypes holds them exactly
        return a.astype(ARRAY_DTYPES[form])
    return a


def canon_arr(a):
    a = np.asarray(a)
    flat = a.reshape(-1).tolist()
    assert all(float(x).is_integer() for x in flat)
    return ["arr", [int(x) for x in flat], [int(s) for s in a.shape]]


def wfn_value(spec):
    t = spec[0]
    if t == "none":
        return None
    if t == "bool":
        return spec[1]
    if t == "basis":
        fixtures()
        return basis_plain(spec) if basis_form(spec).endswith("dict") else basis_object(spec)
    if t == "str":
        return spec[1]
    return hand_over(spec)


def canon_wfn(d):
    """WavefunctionProperties.dict() (set fields only) -> {key: valspec}"""
    out = {}
    for k, v in d.items():
        if v is None:
            out[k] = ["none"]
        elif isinstance(v, bool):
            out[k] = ["bool", v]
        elif isinstance(v, str):
            out[k] = ["str", v]
        elif isinstance(v, dict):          # the basis: function count implied by ITS shells, name, everything it says
            dg = basis_digest(v)
            out[k] = ["basis", digest_count(dg), v["name"], dg]
        else:
            out[k] = canon_arr(v)
    return out


def canon_rr(v):
    if isinstance(v, (float, int)) and not isinstance(v, bool):
        assert float(v).is_integer()
        return ["float", int(v)]
    if isinstance(v, np.ndarray):
        return canon_arr(v)
    return ["other", repr(v)]


def canon_atomic(obj):
    d = obj.dict()
    return {"wfn": None if d.get("wavefunction") is None else canon_wfn(d["wavefunction"]),
            "rr": canon_rr(d["return_result"]), "stdout": d.get("stdout"),
            "native": dict(d.get("native_files", {}))}


def atomic_kwargs(case):
    fx = fixtures()
    kw = {"molecule": fx["mol"], "driver": case["driver"], "model": {"method": "UFF"}, "success": True, "properties": {},
          "provenance": {"creator": "verif"}}
    prot = {}
    if case["pw"] is not None:
        prot["wavefunction"] = case["pw"]
    if case["pstdout"] is not None:
        prot["stdout"] = case["pstdout"]
    if case["pnative"] is not None:
        prot["native_files"] = case["pnative"]
    if prot or case.get("protocols_given", True):
        kw["protocols"] = prot
    if case["wfn"] is not None:
        kw["wavefunction"] = {k: wfn_value(v) for k, v in case["wfn"]}
    rr = case["rr"]
    kw["return_result"] = float(rr[1]) if rr[0] == "float" else hand_over(rr)
    if case["stdout"] is not None:
        kw["stdout"] = case["stdout"]
    if case["native"] is not None:
        kw["native_files"] = dict(case["native"])
    return kw


def run_atomic(case):
    from qcelemental.models import AtomicResult
    try:
        obj = AtomicResult(**atomic_kwargs(case))
    except Exception as e:
        return ["Err", ekind(e)], None
    return ["Ok", canon_atomic(obj)], obj


def run_handover(case):
    """the atomic case with the wavefunction handed over as something that is already a model: `as` = "model" (a
    WavefunctionProperties object built from the case's dictionary) or "attrs" (wavefunction and return_result are the attributes
    of another AtomicResult built from the case under protocol `all`). When that first object cannot be built there is nothing to
    hand over: outcome ["Outside", class]."""
    from qcelemental.models import AtomicResult
    from qcelemental.models.results import WavefunctionProperties
    kw = atomic_kwargs(case)
    try:
        if case["as"] == "model":
            kw["wavefunction"] = WavefunctionProperties(**kw["wavefunction"])
        else:
            first = AtomicResult(**dict(kw, protocols={"wavefunction": "all"}))
            kw["wavefunction"], kw["return_result"] = first.wavefunction, first.return_result
    except Exception as e:
        return ["Outside", ekind(e)], None
    try:
        obj = AtomicResult(**kw)
    except Exception as e:
        return ["Err", ekind(e)], None
    return ["Ok", canon_atomic(obj)], obj


def oracle_handover(case, out, obj):
    """the same retention / shapes / re-validation as for a dictionary: how the wavefunction is handed over does not matter"""
    return [] if out[0] == "Outside" else oracle_atomic(case, out, obj)


def revalidate(cls, obj, canon):
    try:
        again = cls(**obj.dict())
    except Exception as e:
        return f"re-validation of the accepted object raised {type(e).__name__}: {str(e)[:200]}"
    a, b = canon(obj), canon(again)
    if a != b:
        return f"re-validation changed the object: {a} -> {b}"
    return None


def run_wfnprops(case):
    from qcelemental.models.results import WavefunctionProperties
    try:
        obj = WavefunctionProperties(**{k: wfn_value(v) for k, v in case["wfn"]})
    except Exception as e:
        return ["Err", ekind(e)], None
    return ["Ok", canon_wfn(obj.dict())], obj


def run_props(case):
    from qcelemental.models import AtomicResultProperties
    kw = {k: hand_over(v) for k, v in case["fields"]}
    if case["natom"] is not None:
        kw["calcinfo_natom"] = case["natom"]
    try:
        obj = AtomicResultProperties(**kw)
    except Exception as e:
        return ["Err", ekind(e)], None
    d = obj.dict()
    return ["Ok", [[k, canon_arr(d[k])] for k, _ in case["fields"]]], obj


_TRAJ_ITEMS = []


def traj_items(n):
    from qcelemental.models import AtomicResult
    fx = fixtures()
    while len(_TRAJ_ITEMS) < n:
        i = len(_TRAJ_ITEMS)
        _TRAJ_ITEMS.append(AtomicResult(molecule=fx["mol"], driver="gradient", model={"method": "UFF"}, success=True, properties={},
                                        provenance={"creator": "verif"}, return_result=[i, 0, 0, 0, 0, -i], stdout=f"step {i}"))
    return _TRAJ_ITEMS[:n]


def run_traj(case):
    from qcelemental.models import OptimizationResult
    fx = fixtures()
    ids = case["ids"]
    items = traj_items(max(ids) + 1 if ids else 0)
    kw = {"input_specification": {"model": {"method": "UFF"}}, "initial_molecule": fx["mol"], "final_molecule": fx["mol"],
          "energies": [float(i) for i in ids], "success": True, "provenance": {"creator": "verif"},
          "trajectory": [items[i] for i in ids]}
    if case["policy"] is not None:
        kw["protocols"] = {"trajectory": case["policy"]}
    try:
        obj = OptimizationResult(**kw)
    except Exception as e:
        return ["Err", ekind(e)], None
    out = []
    for t in obj.trajectory:
        i = int(t.return_result[0, 0])
        if canon_atomic(t) != canon_atomic(items[i]) or t.molecule != items[i].molecule:
            out.append(-1 - i)            # an altered element
        else:
            out.append(i)
    return ["Ok", out], obj


def basis_kwargs(case):
    cd = {}
    for key, shells in case["centers"]:
        cd[key] = {"electron_shells": [
            {"angular_momentum": list(s["am"]), "harmonic_type": "spherical" if s["sph"] else "cartesian",
             "exponents": [1.0 + 0.5 * i for i in range(s["nexp"])],
             "coefficients": [[0.25 * (j + 1)] * n for j, n in enumerate(s["coef"])]} for s in shells]}
    kw = {"name": "gen", "center_data": cd, "atom_map": list(case["atom_map"])}
    if case["nbf"] is not None:
        kw["nbf"] = case["nbf"]
    return kw


def run_basis(case):
    from qcelemental.models import BasisSet
    try:
        obj = BasisSet(**basis_kwargs(case))
    except Exception as e:
        return ["Err", ekind(e)], None
    return ["Ok", int(obj.nbf)], obj


def layout_array(case):
    """a float64 array of the given logical shape in a non-default memory layout"""
    shape = case["shape"]
    n = int(np.prod(shape))
    a = (np.arange(n, dtype=float) + 1).reshape(shape)
    if case["layout"] == "F":
        return np.asfortranarray(a)
    if case["layout"] == "strided":
        big = np.zeros(shape[:-1] + [2 * shape[-1]])
        big[..., ::2] = a
        return big[..., ::2]
    return a[::-1]


def run_layout(case):
    from qcelemental.models import AtomicResult
    fx = fixtures()
    a = layout_array(case)
    want = a.reshape(-1).tolist()
    try:
        obj = AtomicResult(molecule=fx["mol"], driver=case["driver"], model={"method": "UFF"}, success=True, properties={},
                           provenance={"creator": "verif"}, return_result=a)
    except Exception as e:
        return ["Err", ekind(e)], None
    r = obj.return_result
    return ["Ok", [list(r.shape), r.reshape(-1).tolist() == want]], obj


def oracle_layout(case, out, obj):
    n = int(np.prod(case["shape"]))
    acc, shp = rr_expect(case["driver"], ["arr", list(range(n)), case["shape"]])
    if not acc:
        return [] if out == ["Err", "Validation"] else [(f"non-fitting {case['layout']} array gave {out}", None)]
    if out[0] == "Err":
        return [(f"a {case['layout']}-layout array of fitting size {case['shape']} raised {out[1]} under driver {case['driver']}", None)]
    if out[1] != [shp, True]:
        return [(f"{case['layout']}-layout array {case['shape']} under driver {case['driver']} came back as {out[1]} (shape, data unchanged?)", None)]
    return []


RUN = {"layout": run_layout, "handover": run_handover, "atomic": run_atomic, "wfnprops": run_wfnprops, "props": run_props, "traj": run_traj, "basis": run_basis}

# ---------------------------------------------------------------------------------------------------------
# the property oracle (on the implementation's answers)


def implied_shape(name, size, nbf):
    """shape a wavefunction array must end with, or None if no size fits"""
    k = wfn_kind(name)
    if k == "mat":
        return [nbf, nbf] if size == nbf * nbf else None
    if k == "orb":
        return [nbf, size // nbf] if nbf > 0 and size % nbf == 0 else None
    if k == "vec":
        return [size]
    r = int(round(size ** 0.5))      # localized_fock is nmo x nmo: nmo is not given, but the array must be square
    return [r, r] if r * r == size else None


def oracle_wfn_part(case, out_wfn, restricted_dropped=True):
    """`out_wfn` is the canonical accepted wavefunction (or None). Returns list of (what, tag)."""
    bad = []
    win = dict((k, v) for k, v in case["wfn"]) if case["wfn"] is not None else None
    pw = case["pw"] if case["pw"] is not None else DEFAULTS["wavefunction"]
    if win is None or DOC_KEEP[pw] == "NONE":
        if out_wfn is not None:
            bad.append(("a wavefunction was kept although none was supplied / protocol is none", None))
        return bad
    if out_wfn is None:
        return [("the wavefunction was dropped although the protocol keeps part of it", None)]
    restricted = win["restricted"][1]
    avail = {k: v for k, v in win.items() if not (restricted and k.endswith("_b"))}
    if DOC_KEEP[pw] == "ALL":
        expect = set(avail)
    else:
        expect = {"restricted"} | ({"basis"} if "basis" in avail else set())
        for rk in DOC_KEEP[pw]:
            if rk in avail and avail[rk][0] == "str":
                expect |= {rk, avail[rk][1]}
    got = set(out_wfn)
    nonnull = lambda ks, d: {k for k in ks if d[k][0] != "none"}
    if nonnull(got, out_wfn) != nonnull(expect & set(avail), avail):
        bad.append((f"kept keys {sorted(got)} differ from what protocol {pw} allows {sorted(expect)}", None))
    if restricted and any(k.endswith("_b") for k in got):
        bad.append(("a beta quantity survived in a restricted wavefunction", None))
    nbf = win["basis"][1] if "basis" in win and win["basis"][0] == "basis" else None
    for k, v in out_wfn.items():
        src = win.get(k)
        if src is None:
            bad.append((f"key {k} appeared from nowhere", None))
            continue
        if v[0] == "arr":
            if src[0] != "arr" or v[1] != list(np.array(src[1]).reshape(-1)):
                bad.append((f"payload of {k} changed", None))
                continue
            if k in WFN_ARRAYS and nbf is not None:
                want = implied_shape(k, len(v[1]), nbf)
                if v[2] != want:
                    tag = "unvalidated" if k in UNVALIDATED_WFN else None
                    bad.append((f"{k} accepted with shape {v[2]}, implied shape is {want} (nbf={nbf})", tag))
        elif v[0] == "basis":
            want = basis_digest(basis_plain(src)) if src[0] == "basis" else None
            if src[0] != "basis" or v[1] != src[1] or v[3] != want:
                bad.append((f"basis changed: the result holds {v[3]} (its shells imply nbf={v[1]}), supplied was {want}", None))
        elif v[:2] != src[:2]:
            bad.append((f"value of {k} changed: {src} -> {v}", None))
    for k in PTRS:
        if k in out_wfn and out_wfn[k][0] == "str":
            tgt = out_wfn[k][1]
            if tgt not in out_wfn or out_wfn[tgt][0] == "none":
                bad.append((f"pointer {k} -> {tgt} kept without its target", None))
    return bad


def plain_wfn(case):
    """cases on which the acceptance side of the oracle is judged: pointers name array fields, no explicit None,
    no unknown key, basis and restricted present"""
    if case["wfn"] is None:
        return True
    win = dict((k, v) for k, v in case["wfn"])
    if "restricted" not in win or win["restricted"][0] != "bool" or "basis" not in win or win["basis"][0] != "basis":
        return False
    for k, v in win.items():
        if v[0] == "none":
            return False
        if k in PTRS:
            if v[0] != "str" or v[1] not in WFN_ARRAYS:
                return False
        elif k in WFN_ARRAYS:
            if v[0] != "arr":
                return False
        elif k not in ("basis", "restricted"):
            return False
    return True


def should_accept_wfn(case):
    """acceptance according to the property (plain cases only): True / False / 'dangling' (pointer to an array that is
    not there: must be rejected)"""
    if case["wfn"] is None:
        return True
    win = dict((k, v) for k, v in case["wfn"])
    pw = case["pw"] if case["pw"] is not None else DEFAULTS["wavefunction"]
    restricted = win["restricted"][1]
    avail = {k: v for k, v in win.items() if not (restricted and k.endswith("_b"))}
    if DOC_KEEP[pw] == "NONE":
        return True
    if DOC_KEEP[pw] == "ALL":
        kept = dict(avail)
    else:
        kept = {k: avail[k] for k in ("restricted", "basis")}
        for rk in DOC_KEEP[pw]:
            if rk in avail:
                tgt = avail[rk][1]
                if tgt not in avail:
                    return "dangling"
                kept[rk] = avail[rk]
                kept[tgt] = avail[tgt]
    nbf = win["basis"][1]
    for k, v in kept.items():
        if k in PTRS and v[1] not in kept:
            return False
        if k in WFN_ARRAYS and k not in UNVALIDATED_WFN and implied_shape(k, len(v[1]), nbf) is None:
            return False
    return True


def dangling(case):
    """a pointer selected by a filtering protocol names something that is not in the wavefunction (after the restricted filter)"""
    if case["wfn"] is None:
        return False
    win = dict((k, v) for k, v in case["wfn"])
    pw = case["pw"] if case["pw"] is not None else DEFAULTS["wavefunction"]
    if "restricted" not in win or win["restricted"][0] != "bool" or not isinstance(DOC_KEEP.get(pw), list):
        return False
    avail = {k: v for k, v in win.items() if not (win["restricted"][1] and k.endswith("_b"))}
    return any(rk in avail and avail[rk][0] == "str" and avail[rk][1] not in avail for rk in DOC_KEEP[pw])


def rr_expect(driver, rr):
    """(accept, shape-or-None) for return_result"""
    if rr[0] == "float":
        data, shape = [rr[1]], []
    else:
        data, shape = rr[1], rr[2]
    n = len(data)
    if driver == "gradient":
        return (n % 3 == 0, [n // 3, 3])
    if driver == "hessian":
        r = int(round(n ** 0.5))
        while r * r > n:
            r -= 1
        while (r + 1) * (r + 1) <= n:
            r += 1
        return (r * r == n, [r, r])
    return (True, shape)


def oracle_atomic(case, out, obj):
    bad = []
    pw_ok = (case["pw"] is None or case["pw"] in WFN_PROTOS) and (case["pnative"] is None or case["pnative"] in NATIVE)
    plain = plain_wfn(case)
    acc_rr, shp_rr = rr_expect(case["driver"], case["rr"])
    if not pw_ok:
        # an invalid protocol value is outside the property's quantifier: it only has to be refused
        return [] if out[0] == "Err" else [("accepted although the protocols are not valid", None)]
    if out[0] == "Err":
        if out[1] != "Validation":
            bad.append((f"raised {out[1]} instead of a validation error", None))
        elif pw_ok and plain and acc_rr and should_accept_wfn(case) is True:
            bad.append(("a valid result was rejected", None))
        return bad
    o = out[1]
    if plain and should_accept_wfn(case) is not True:
        bad.append(("accepted although a kept wavefunction array does not fit / a kept pointer has no target", None))
    if case["wfn"] is not None and "restricted" in dict(case["wfn"]) and dict(case["wfn"])["restricted"][0] == "bool":
        bad.extend(oracle_wfn_part(case, o["wfn"]))
    elif o["wfn"] is not None and case["wfn"] is None:
        bad.append(("a wavefunction appeared from nowhere", None))
    # return_result
    if not acc_rr:
        bad.append((f"return_result of size that does not fit driver {case['driver']} was accepted", None))
    else:
        rr = case["rr"]
        if case["driver"] in ("gradient", "hessian"):
            data = [rr[1]] if rr[0] == "float" else rr[1]
            if o["rr"] != ["arr", list(data), shp_rr]:
                bad.append((f"return_result is {o['rr']}, expected data {data} in shape {shp_rr}", None))
        else:
            want = ["float", rr[1]] if rr[0] == "float" else (["float", rr[1][0]] if rr[2] == [] else ["arr", rr[1], rr[2]])
            if o["rr"] != want:
                bad.append((f"return_result changed under driver {case['driver']}: {o['rr']}", None))
    # stdout
    keep = case["pstdout"] if case["pstdout"] is not None else DEFAULTS["stdout"]
    if o["stdout"] != (case["stdout"] if keep else None):
        bad.append((f"stdout is {o['stdout']!r} under protocol stdout={keep}", None))
    # native files
    pol = case["pnative"] if case["pnative"] is not None else DEFAULTS["native_files"]
    given = dict(case["native"]) if case["native"] is not None else {}
    if pol == "all":
        want = given
    elif pol == "none":
        want = {}
    else:
        want = {"input": given["input"]} if given.get("input") is not None else None
    if want is None:
        if {k: v for k, v in o["native"].items() if v is not None} != {}:
            bad.append((f"native_files is {o['native']} under policy input", None))
    elif o["native"] != want:
        bad.append((f"native_files is {o['native']} under policy {pol}, expected {want}", None))
    if not bad or all(t for _, t in bad):
        from qcelemental.models import AtomicResult
        r = revalidate(AtomicResult, obj, canon_atomic)
        if r:
            tag = None
            if case["native"] is None and pol == "input" and o["native"] == {} and r.startswith("re-validation changed"):
                # is the native_files default the only thing that moved?
                again = canon_atomic(AtomicResult(**obj.dict()))
                if dict(again, native={}) == o and again["native"] == {"input": None}:
                    tag = "native-default"
            bad.append((r, tag))
    return bad


def oracle_wfnprops(case, out, obj):
    bad = []
    # WavefunctionProperties itself does not drop beta quantities (AtomicResult does): judge as unrestricted/all
    c2 = dict(case, pw="all", wfn=[[k, (["bool", False] if (k == "restricted" and v[0] == "bool") else v)] for k, v in case["wfn"]])
    if out[0] == "Err":
        if out[1] != "Validation":
            bad.append((f"raised {out[1]} instead of a validation error", None))
        elif plain_wfn(c2) and should_accept_wfn(c2) is True:
            bad.append(("a valid wavefunction was rejected", None))
        return bad
    if plain_wfn(c2) and should_accept_wfn(c2) is not True:
        bad.append(("accepted although an array does not fit / a pointer has no target", None))
    win = dict((k, v) for k, v in case["wfn"])
    if "restricted" in win and win["restricted"][0] == "bool":
        o2 = dict(out[1])
        o2["restricted"] = ["bool", False]
        bad.extend(oracle_wfn_part(c2, o2))
    if not bad or all(t for _, t in bad):
        from qcelemental.models.results import WavefunctionProperties
        r = revalidate(WavefunctionProperties, obj, lambda x: canon_wfn(x.dict()))
        if r:
            bad.append((r, None))
    return bad


def prop_shape(kind, natom):
    if kind == "dip":
        return [3]
    if kind == "quad":
        return [3, 3]
    if natom is None:
        return None
    return [natom, 3] if kind == "grad" else [3 * natom, 3 * natom]


def oracle_props(case, out, obj):
    bad = []
    natom = case["natom"]
    if natom is not None and natom < 0:
        return bad if out[0] == "Ok" or out[1] == "Validation" else [(f"raised {out[1]}", None)]
    fits = True
    for k, v in case["fields"]:
        want = prop_shape(PROP_ARRAYS[k], natom)
        if want is None or len(v[1]) != int(np.prod(want)):
            if k not in UNVALIDATED_PROP:
                fits = False
    if out[0] == "Err":
        if out[1] != "Validation":
            bad.append((f"raised {out[1]} instead of a validation error", None))
        elif fits:
            bad.append(("valid properties were rejected", None))
        return bad
    if not fits:
        bad.append(("accepted although an array does not fit the implied shape", None))
    for (k, v), (k2, o) in zip(case["fields"], out[1]):
        want = prop_shape(PROP_ARRAYS[k], natom)
        if o[1] != list(np.array(v[1]).reshape(-1)):
            bad.append((f"data of {k} changed", None))
        elif want is not None and o[2] != want:
            bad.append((f"{k} accepted with shape {o[2]}, implied shape is {want}", "unvalidated" if k in UNVALIDATED_PROP else None))
    if not bad or all(t for _, t in bad):
        from qcelemental.models import AtomicResultProperties
        r = revalidate(AtomicResultProperties, obj, lambda x: sorted((k, canon_arr(v) if isinstance(v, np.ndarray) else v) for k, v in x.dict().items()))
        if r:
            bad.append((r, None))
    return bad


def traj_expect(policy, ids):
    if policy == "all":
        return list(ids)
    if policy == "none":
        return []
    if policy == "final":
        return list(ids[-1:])
    # initial_and_final: first and last evaluation (a single evaluation is both)
    return [ids[0], ids[-1]] if ids else []


def oracle_traj(case, out, obj):
    bad = []
    pol = case["policy"] if case["policy"] is not None else DEFAULTS["trajectory"]
    if pol not in TRAJ:
        return [] if out == ["Err", "Validation"] else [(f"invalid policy gave {out}", None)]
    if out[0] == "Err":
        return [(f"raised {out[1]} on a valid trajectory/policy", None)]
    if out[1] != traj_expect(pol, case["ids"]):
        bad.append((f"trajectory kept {out[1]} under policy {pol}, expected {traj_expect(pol, case['ids'])} "
                    "(negative = an element was altered)", None))
    if not bad:
        from qcelemental.models import OptimizationResult
        r = revalidate(OptimizationResult, obj, lambda x: [canon_atomic(t) for t in x.trajectory])
        if r:
            bad.append((r, None))
    return bad


def nfunc(s):
    return sum((2 * L + 1) if s["sph"] else ((L + 1) * (L + 2)) // 2 for L in s["am"])


def basis_valid_structure(case):
    keys = [k for k, _ in case["centers"]]
    for _, shells in case["centers"]:
        if not shells:
            return False
        for s in shells:
            if not s["am"] or any(L < 0 for L in s["am"]) or s["nexp"] < 1 or not s["coef"] or any(n < 1 for n in s["coef"]):
                return False
            if any(n != s["nexp"] for n in s["coef"]):
                return False
            if len(s["am"]) > 1 and len(s["am"]) != len(s["coef"]):
                return False
    return all(a in keys for a in case["atom_map"])


def oracle_basis(case, out, obj):
    bad = []
    ok = basis_valid_structure(case)
    if not ok:
        # malformed shells / unknown centers are outside the property's quantifier: they only have to be refused
        return bad if out[0] == "Err" else [("structurally invalid basis set accepted", None)]
    if out[0] == "Err" and out[1] != "Validation":
        return [(f"raised {out[1]} instead of a validation error", None)]
    cc = {k: sum(nfunc(s) for s in shells) for k, shells in case["centers"]}
    count = sum(cc[a] for a in case["atom_map"])
    if out[0] == "Err":
        if case["nbf"] is None or case["nbf"] == count:
            bad.append((f"valid basis set (nbf {case['nbf']}, shells imply {count}) rejected", None))
        return bad
    if case["nbf"] is not None and case["nbf"] != count:
        bad.append((f"supplied nbf {case['nbf']} accepted although the shells imply {count}", None))
    if out[1] != count:
        bad.append((f"stored nbf {out[1]} differs from the count implied by the shells {count}", None))
    if any(int(obj.center_data[k].electron_shells[j].nfunctions()) != nfunc(s)
           for k, shells in case["centers"] for j, s in enumerate(shells)):
        bad.append(("ElectronShell.nfunctions differs from 2L+1 / (L+1)(L+2)/2", None))
    if not bad:
        from qcelemental.models import BasisSet
        r = revalidate(BasisSet, obj, lambda x: x.dict())
        if r:
            bad.append((r, None))
    return bad


ORACLE = {"layout": oracle_layout, "handover": oracle_handover, "atomic": oracle_atomic, "wfnprops": oracle_wfnprops, "props": oracle_props, "traj": oracle_traj, "basis": oracle_basis}

# ---------------------------------------------------------------------------------------------------------
# Gallina terms


def t_arr(spec):
    data = list(np.array(spec[1]).reshape(-1)) if len(spec) > 3 else spec[1]
    return "{| dat := %s; shp := %s |}" % (clist([int(x) for x in data], cz), clist(spec[2], cz))


def t_wval(v):
    t = v[0]
    if t == "none":
        return "WNone"
    if t == "bool":
        return f"(WBool {cbool(v[1])})"
    if t == "basis":
        return f"(WBasis {cz(v[1])})"
    if t == "str":
        return f"(WStr {cstr(v[1])})"
    return f"(WArr {t_arr(v)})"


def t_wdict(items):
    return clist([f"({cstr(k)}, {t_wval(v)})" for k, v in items])


def t_rval(rr):
    return f"(RFloat {cz(rr[1])})" if rr[0] == "float" else f"(RArr {t_arr(rr)})"


def t_ndict(d):
    return clist([f"({cstr(k)}, {copt(v, cstr)})" for k, v in d.items()])


EK = {"Validation": "Validation", "ValueError": "PyValueError", "IndexError": "PyIndexError", "TypeError": "PyTypeError",
      "KeyError": "PyKeyError", "AttributeError": "PyAttributeError"}


def t_out(out, okf):
    if out[0] == "Err":
        return f"(Err {EK.get(out[1], 'PyAssertion')})"
    return f"(Ok {okf(out[1])})"


def case_term(stream, case, out):
    if stream == "atomic":
        i = ("{| a_driver := %s; a_pw := %s; a_pstdout := %s; a_pnative := %s; a_wfn := %s; a_rr := %s; a_stdout := %s; "
             "a_native := %s |}") % (cstr(case["driver"]), copt(case["pw"], cstr), copt(case["pstdout"], cbool),
                                     copt(case["pnative"], cstr), copt(case["wfn"], t_wdict), t_rval(case["rr"]),
                                     copt(case["stdout"], cstr), copt(case["native"], t_ndict))
        okf = lambda o: "{| o_wfn := %s; o_rr := %s; o_stdout := %s; o_native := %s |}" % (
            copt(o["wfn"], lambda w: t_wdict(w.items())), t_rval(o["rr"]), copt(o["stdout"], cstr), t_ndict(o["native"]))
        return f"CAtomic {i} {t_out(out, okf)}"
    if stream == "wfnprops":
        return f"CWfnProps {t_wdict(case['wfn'])} {t_out(out, lambda w: t_wdict(w.items()))}"
    if stream == "props":
        fl = lambda fs: clist([f"({cstr(k)}, {t_arr(v)})" for k, v in fs])
        return f"CProps {copt(case['natom'], cz)} {fl(case['fields'])} {t_out(out, fl)}"
    if stream == "traj":
        return f"CTraj {copt(case['policy'], cstr)} {clist(case['ids'], cz)} {t_out(out, lambda l: clist(l, cz))}"
    raise KeyError(stream)


def basis_term(case, out):
    sh = lambda s: "{| sh_am := %s; sh_spherical := %s; sh_nexp := %s; sh_coef := %s |}" % (
        clist(s["am"], cz), cbool(s["sph"]), cz(s["nexp"]), clist(s["coef"], cz))
    b = "{| b_centers := %s; b_atom_map := %s; b_nbf := %s |}" % (
        clist([f"({cstr(k)}, {clist(shells, sh)})" for k, shells in case["centers"]]), clist(case["atom_map"], cstr),
        copt(case["nbf"], cz))
    return f"({b}, {t_out(out, cz)})"


# ---------------------------------------------------------------------------------------------------------
# generators

def gen_array(rng, ident, size_fit, fit_shape, wrong_p=0.12):
    """an array spec whose element values carry its identity; form is flat / shaped / list / other-shaped / wrong-sized"""
    r = rng.random()
    size = size_fit
    if r < wrong_p:
        size = max(0, size_fit + rng.choice([-1, 1, 2, 3]))
        shape = [size]
    elif r < 0.45:
        shape = [size]
    elif r < 0.8:
        shape = list(fit_shape)
    else:
        divs = [d for d in range(1, size + 1) if size % d == 0] or [1]
        d = rng.choice(divs)
        shape = [d, size // d] if size else [0, rng.choice([1, 3])]
    data = [ident * 100 + i for i in range(size)]
    # a nested list cannot carry a shape with a zero extent
    return ["arr", data, shape, rng.choice(ARRAY_FORMS) if size > 0 else rng.choice(["nd", "nd", "F", "i8", "be"])]


def gen_wfn(rng, weird=0.2, forms=None):
    nbf = rng.choice([1, 2, 2, 3, 3, 4, 6])
    nmo = rng.randint(1, nbf)
    restricted = rng.random() < 0.5
    form = rng.choice(forms or ["obj", "obj", "obj", "dict", "dict"] + BASIS_FORMS[2:])
    items = [["basis", ["basis", nbf] if form == "obj" else ["basis", nbf, form]], ["restricted", ["bool", restricted]]]
    present = []
    dens = rng.choice([0.15, 0.4, 0.8])
    for ident, name in enumerate(WFN_ARRAYS, 1):
        if rng.random() < dens:
            k = wfn_kind(name)
            fit = {"mat": [nbf, nbf], "orb": [nbf, nmo], "vec": [nmo], "momo": [nmo, nmo]}[k]
            wp = 0.04 if name not in UNVALIDATED_WFN else 0.01
            a = gen_array(rng, ident, int(np.prod(fit)), fit, wrong_p=wp)
            if name in UNVALIDATED_WFN and rng.random() < 0.9:
                a[2] = fit if len(a[1]) == int(np.prod(fit)) else a[2]
            items.append([name, a])
            present.append(name)
    pd = rng.choice([0.2, 0.5, 0.9])
    odd = rng.random() < weird
    for p in PTRS:
        if rng.random() < pd:
            base = p[:-2]
            safe = rng.random() < 0.9        # mostly avoid targets the restricted filter removes
            pres = [n for n in present if not (safe and restricted and n.endswith("_b"))]
            cands = [n for n in pres if base in n and (n.endswith(p[-2:]) or rng.random() < 0.15)]
            r = rng.random()
            if odd and r < 0.25:
                tgt = rng.choice(WFN_ARRAYS)                  # possibly absent, possibly a beta array
            elif odd and r < 0.35:
                tgt = rng.choice(["basis", "restricted", "foo", rng.choice(PTRS), ""])
            elif cands:
                tgt = rng.choice(cands) if rng.random() < 0.3 else (f"scf_{p}" if f"scf_{p}" in pres else rng.choice(cands))
            elif pres:
                tgt = rng.choice(pres)
            else:
                continue
            items.append([p, ["str", tgt]])
    if odd:
        r = rng.random()
        if r < 0.1:
            items = [it for it in items if it[0] != "basis"]
        elif r < 0.2:
            items = [it for it in items if it[0] != "restricted"]
        elif r < 0.3:
            items.append(["foo", ["arr", [7], [1], "nd"]])
        elif r < 0.45:
            items.append([rng.choice(WFN_ARRAYS + PTRS), ["none"]])
            seen, uniq = set(), []
            for it in reversed(items):
                if it[0] not in seen:
                    seen.add(it[0])
                    uniq.append(it)
            items = list(reversed(uniq))
        elif r < 0.5:
            items[1] = ["restricted", ["none"]]
    rng.shuffle(items)
    return items


def gen_rr(rng, driver):
    r = rng.random()
    if r < 0.2:
        return ["float", rng.randint(-5, 9)]
    if r < 0.25:
        return ["arr", [rng.randint(-5, 9)], [], "nd"]
    n = rng.choice([0, 1, 2, 3, 4, 5, 6, 8, 9, 12, 15, 16, 18, 24, 25, 27, 35, 36, 37, 48, 49, 64, 81])
    if driver == "gradient" and rng.random() < 0.6:
        n = 3 * rng.randint(0, 6)
    if driver == "hessian" and rng.random() < 0.6:
        n = (3 * rng.randint(0, 3)) ** 2 if rng.random() < 0.7 else rng.randint(0, 9) ** 2
    fit = [n // 3, 3] if (driver == "gradient" and n % 3 == 0) else [int(n ** 0.5)] * 2 if int(n ** 0.5) ** 2 == n else [n]
    return gen_array(rng, 50 + rng.randint(0, 40), n, fit, wrong_p=0.0)


def gen_atomic(rng, k=None, weird=0.2):
    combos = list(itertools.product([None] + WFN_PROTOS, [None, True, False], [None] + NATIVE, DRIVERS))
    pw, ps, pn, driver = combos[k % len(combos)] if k is not None else rng.choice(combos)
    case = {"driver": driver, "pw": pw, "pstdout": ps, "pnative": pn}
    case["wfn"] = gen_wfn(rng, weird) if rng.random() < 0.9 else None
    case["rr"] = gen_rr(rng, driver)
    case["stdout"] = rng.choice([None, "", "I ran.", "line1\nline2"])
    nf = rng.random()
    case["native"] = None if nf < 0.15 else {} if nf < 0.25 else dict(
        (k2, rng.choice(["text of " + k2, "", None]) if rng.random() < 0.15 else "text of " + k2)
        for k2 in rng.sample(["input", "output.dat", "gradient.out", "inp"], rng.randint(1, 3)))
    if rng.random() < 0.02:
        case[rng.choice(["pw", "pnative"])] = "bogus"
    return case


def gen_handover(rng, k=None):
    """an atomic case (always with a wavefunction, beta quantities and pointers to them present more often than not) whose
    wavefunction is handed to AtomicResult as a model: every protocol, restricted or not"""
    case = gen_atomic(rng, k, weird=0.1)
    while case["wfn"] is None:
        case["wfn"] = gen_wfn(rng, 0.1)
    case["as"] = rng.choice(["model", "model", "attrs"])
    return case


def gen_props(rng):
    natom = rng.choice([None, 0, 1, 2, 2, 3, 3, 4, -1]) if rng.random() < 0.9 else rng.choice([1, 2, 3])
    names = rng.sample(sorted(PROP_ARRAYS), rng.randint(1, 5))
    fields = []
    for ident, k in enumerate(names, 1):
        kind = PROP_ARRAYS[k]
        n = natom if natom is not None and natom >= 0 else rng.choice([1, 2])
        fit = prop_shape(kind, n)
        a = gen_array(rng, ident, int(np.prod(fit)), fit, wrong_p=0.1 if k not in UNVALIDATED_PROP else 0.02)
        if k in UNVALIDATED_PROP and rng.random() < 0.9 and len(a[1]) == 3:
            a[2] = [3]
        fields.append([k, a])
    return {"natom": natom, "fields": fields}


def gen_basis(rng):
    def shell(valid):
        fused = rng.random() < 0.35
        am = sorted(rng.sample(range(0, 6), rng.randint(2, 3))) if fused else [rng.randint(0, 6)]
        if rng.random() < 0.1:
            am = [rng.randint(0, 3)] * 2 if fused else am      # repeated L in a fused shell
        nexp = rng.randint(1, 4)
        rows = len(am) if fused else rng.randint(1, 3)
        coef = [nexp] * rows
        if not valid:
            r = rng.random()
            if r < 0.3:
                coef[rng.randrange(rows)] = nexp + rng.choice([-1, 1])
            elif r < 0.6 and fused:
                coef = coef + [nexp] if rng.random() < 0.5 else coef[:-1]
            elif r < 0.75:
                am = [-1] + am[1:]
            elif r < 0.82:
                am = []
            elif r < 0.9:
                nexp, coef = 0, [rng.choice([0, 1, 1])] * rows
            else:
                coef = []
        return {"am": am, "sph": rng.random() < 0.5, "nexp": nexp, "coef": coef}

    nc = rng.randint(1, 3)
    invalid = rng.random() < 0.15
    keys = rng.sample(["c1", "c2", "o_sto3g", "h", "x"], nc)
    centers = []
    for k in keys:
        ns = rng.randint(1, 3)
        centers.append([k, [shell(True) for _ in range(ns)]])
    if invalid and rng.random() < 0.8:
        c = rng.choice(centers)
        if rng.random() < 0.15:
            c[1] = []
        else:
            c[1][rng.randrange(len(c[1]))] = shell(False)
    amap = [rng.choice(keys) for _ in range(rng.randint(0, 5))]
    if invalid and rng.random() < 0.4:
        amap.insert(rng.randint(0, len(amap)), "unknown")
    case = {"centers": centers, "atom_map": amap, "nbf": None}
    r = rng.random()
    if r < 0.6:
        try:
            cc = {k: sum(nfunc(s) for s in sh) for k, sh in centers}
            count = sum(cc.get(a, 0) for a in amap)
        except Exception:
            count = 0
        case["nbf"] = count if r < 0.35 else max(0, count + rng.choice([-2, -1, 1, 2, 5]))
    return case


CORPUS = [
    # dangling pointer in a restricted wavefunction under a filtering protocol (raised KeyError before 09acef6)
    ("atomic", {"driver": "energy", "pw": "orbitals_and_eigenvalues", "pstdout": None, "pnative": None,
                "wfn": [["basis", ["basis", 2]], ["restricted", ["bool", True]], ["scf_orbitals_b", ["arr", [1, 2, 3, 4], [4], "nd"]],
                        ["orbitals_a", ["str", "scf_orbitals_b"]]], "rr": ["float", 5], "stdout": "I ran.", "native": None}),
    # the same, unrestricted: beta pointer and target kept
    ("atomic", {"driver": "energy", "pw": "orbitals_and_eigenvalues", "pstdout": None, "pnative": None,
                "wfn": [["basis", ["basis", 2]], ["restricted", ["bool", False]], ["scf_orbitals_b", ["arr", [1, 2, 3, 4], [4], "nd"]],
                        ["orbitals_b", ["str", "scf_orbitals_b"]], ["scf_fock_a", ["arr", [5, 6, 7, 8], [2, 2], "nd"]],
                        ["fock_a", ["str", "scf_fock_a"]], ["h_core_a", ["arr", [9, 9, 9, 9], [4, 1], "list"]]],
                "rr": ["float", 5], "stdout": "I ran.", "native": {"input": "geometry", "out": "o"}}),
    ("atomic", {"driver": "hessian", "pw": "all", "pstdout": False, "pnative": "input",
                "wfn": [["restricted", ["bool", True]], ["basis", ["basis", 3]], ["scf_eigenvalues_a", ["arr", [1, 2, 3, 4, 5, 6], [2, 3], "nd"]],
                        ["scf_eigenvalues_b", ["arr", [1, 2, 3], [3], "nd"]], ["eigenvalues_a", ["str", "scf_eigenvalues_a"]]],
                "rr": ["arr", list(range(36)), [36], "list"], "stdout": "x", "native": {"out": "o"}}),
    ("atomic", {"driver": "gradient", "pw": None, "pstdout": True, "pnative": "all", "wfn": None,
                "rr": ["arr", [1, 2, 3, 4, 5, 6, 7], [7], "nd"], "stdout": None, "native": {}}),
    # repaired by e040dda: must be rejected / reshaped now
    ("props", {"natom": 2, "fields": [["ccsdt_dipole_moment", ["arr", [1, 2, 3, 4], [4], "nd"]]]}),
    ("props", {"natom": None, "fields": [["ccsdtq_dipole_moment", ["arr", [1, 2, 3], [3, 1], "nd"]]]}),
    ("wfnprops", {"wfn": [["basis", ["basis", 2]], ["restricted", ["bool", False]], ["scf_coulomb_a", ["arr", [1, 2, 3], [3], "nd"]]]}),
    ("wfnprops", {"wfn": [["basis", ["basis", 2]], ["restricted", ["bool", False]], ["scf_exchange_b", ["arr", [1, 2, 3, 4], [4], "list"]],
                          ["localized_orbitals_a", ["arr", [1, 2, 3, 4, 5, 6], [6], "nd"]]]}),
    # still open (localized_fock_*: known finding C20-unvalidated-declared-shapes)
    ("wfnprops", {"wfn": [["basis", ["basis", 2]], ["restricted", ["bool", False]], ["localized_fock_a", ["arr", [1, 2, 3, 4], [4], "nd"]]]}),
    # repaired by d4f66cd: non-contiguous Hessian return_result
    ("layout", {"driver": "hessian", "layout": "F", "shape": [2, 8]}),
    ("layout", {"driver": "hessian", "layout": "strided", "shape": [16]}),
    ("props", {"natom": 2, "fields": [["return_gradient", ["arr", [1, 2, 3, 4, 5, 6], [6], "list"]],
                                      ["scf_total_hessian", ["arr", list(range(36)), [4, 9], "nd"]],
                                      ["scf_quadrupole_moment", ["arr", list(range(9)), [9], "nd"]]]}),
    ("props", {"natom": None, "fields": [["return_gradient", ["arr", [1, 2, 3], [3], "nd"]]]}),
    ("traj", {"policy": "final", "ids": []}),
    ("traj", {"policy": "initial_and_final", "ids": []}),
    ("traj", {"policy": "initial_and_final", "ids": [0]}),
    ("traj", {"policy": "initial_and_final", "ids": [2, 0, 1, 3]}),
    ("basis", {"centers": [["o", [{"am": [0], "sph": True, "nexp": 3, "coef": [3]}, {"am": [0, 1], "sph": False, "nexp": 3, "coef": [3, 3]},
                                  {"am": [0], "sph": False, "nexp": 3, "coef": [3, 3]}]],
                           ["h", [{"am": [0], "sph": True, "nexp": 3, "coef": [3]}]]], "atom_map": ["o", "h", "h"], "nbf": 8}),
    ("basis", {"centers": [["zr", [{"am": [2], "sph": True, "nexp": 3, "coef": [3, 3, 3]}, {"am": [3], "sph": False, "nexp": 1, "coef": [1]}]]],
               "atom_map": ["zr"], "nbf": 14}),
]


def gen_cases(ctx):
    """a generator: the thorough tier never holds all cases in memory"""
    rng = ctx.rng
    th = ctx.thorough
    yield from CORPUS
    n_combo = 6 * 3 * 4 * 4
    for rep in range(30 if th else 2):          # the full protocol product, several payloads each
        for k in range(n_combo):
            yield (("atomic", gen_atomic(rng, k)))
    for _ in range(15000 if th else 1000):
        yield (("atomic", gen_atomic(rng, None, weird=0.5)))
    for _ in range(8000 if th else 500):
        yield (("wfnprops", {"wfn": gen_wfn(rng, weird=0.4)}))
    # the wavefunction handed over as a WavefunctionProperties object / as another result's attributes (oracle only), full
    # protocol product first
    for k in range(n_combo * (4 if th else 1)):
        yield (("handover", gen_handover(rng, k)))
    for _ in range(4000 if th else 300):
        yield (("handover", gen_handover(rng)))
    for _ in range(30000 if th else 1500):
        yield (("props", gen_props(rng)))
    for pol in [None] + TRAJ + ["bogus"]:         # exhaustive over length 0..6 in original order, then permuted ids
        for n in range(0, 7):
            yield (("traj", {"policy": pol, "ids": list(range(n))}))
    for _ in range(600 if th else 60):
        n = rng.randint(0, 7)
        yield (("traj", {"policy": rng.choice(TRAJ), "ids": [rng.randint(0, 7) for _ in range(n)]}))
    for _ in range(30000 if th else 2000):
        yield (("basis", gen_basis(rng)))
    # memory layouts of return_result (oracle only: the model works on the logical element order)
    for driver in ("gradient", "hessian"):
        for layout in ("F", "strided", "reversed"):
            for shape in ([6], [2, 3], [3, 2], [9], [3, 3], [16], [4, 4], [2, 8], [8, 2], [36], [6, 6], [4, 9], [12, 3], [2, 2, 9], [7]):
                yield (("layout", {"driver": driver, "layout": layout, "shape": shape}))


# ---------------------------------------------------------------------------------------------------------

def supplied_specs(stream, case):
    """[(where, spec)] of every array the case hands to the constructor"""
    if stream in ("atomic", "handover"):
        return ([("return_result", case["rr"])] if case["rr"][0] == "arr" else []) + \
               [(k, v) for k, v in (case["wfn"] or []) if v[0] == "arr"]
    if stream == "wfnprops":
        return [(k, v) for k, v in case["wfn"] if v[0] == "arr"]
    if stream == "props":
        return [(k, v) for k, v in case["fields"]]
    return []


_SUPPLIED = []


def hand_over(spec):
    """to_np, remembering the object handed to the implementation (what it holds afterwards is judged by `supplied_intact`)"""
    v = to_np(spec)
    _SUPPLIED.append((spec, v))
    return v


def supplied_intact():
    """the caller's arrays / lists still hold the elements they were given with (their shape attribute is not judged: validation
    is documented to shape arrays, and does so in place for an ndarray that is already float64)"""
    bad = []
    for spec, v in _SUPPLIED:
        try:
            now = [float(x) for x in np.asarray(v).reshape(-1).tolist()]
        except Exception as e:
            now = f"{type(e).__name__}"
        if now != [float(x) for x in np.array(spec[1]).reshape(-1).tolist()]:
            bad.append((f"the caller's own {spec[3]} array {spec[1][:6]}.. was modified by the constructor: it now holds {str(now)[:80]}", None))
    return bad


def snapshot(stream, obj):
    """what an accepted object says, for 'later calls do not change earlier results'"""
    if stream in ("atomic", "handover", "layout"):
        return canon_atomic(obj) if stream != "layout" else obj.return_result.reshape(-1).tolist()
    if stream == "wfnprops":
        return canon_wfn(obj.dict())
    if stream == "props":
        return sorted((k, canon_arr(v) if isinstance(v, np.ndarray) else v) for k, v in obj.dict().items())
    if stream == "traj":
        return [canon_atomic(t) for t in obj.trajectory]
    return basis_digest(obj.dict())


class Watch:
    """accepted objects of earlier steps and what they said when they were built"""

    def __init__(self, keep=6):
        self.keep, self.items = keep, []

    def add(self, stream, obj):
        if obj is not None:
            self.items = (self.items + [(stream, obj, snapshot(stream, obj))])[-self.keep:]

    def changed(self):
        bad = []
        for k, (stream, obj, snap) in enumerate(self.items[:-1]):
            try:
                now = snapshot(stream, obj)
            except Exception as e:
                now = f"{type(e).__name__}: {e}"
            if now != snap:
                bad.append((f"the {stream} result built {len(self.items) - 1 - k} call(s) earlier changed when this one was built: "
                            f"{str(snap)[:300]} -> {str(now)[:300]}", None))
        return bad


def judge(stream, case, watch=None):
    if stream == "history":
        bad = run_history(case)
        return ["History", len(case)], [(w, None) for w in bad]
    del _SUPPLIED[:]
    out, obj = RUN[stream](case)
    bad = ORACLE[stream](case, out, obj)
    bad = bad + supplied_intact()
    del _SUPPLIED[:]
    if watch is not None:
        watch.add(stream, obj)
        bad = bad + watch.changed()
    return out, bad


# ---- history stream: calls that share whatever a too coarse cache would be keyed on (protocol, driver, field name, natom, basis /
# center name, trajectory policy) but differ in the payload, run back to back in one interpreter (see harness/histseq.py)

def gen_history(rng, n):
    steps = []
    while len(steps) < n:
        fam = rng.choice(["atomic", "atomic", "wfnprops", "props", "basis", "traj", "samebasis"])
        run = rng.randint(2, 4)
        if fam == "samebasis":
            # results whose basis sets share name, center key and atom_map and differ in the shells (hence in nbf or only in the
            # layout), supplied as plain data or as objects, directly or inside an AtomicResult under a retaining protocol
            for _ in range(run):
                w = gen_wfn(rng, weird=0.0, forms=["s0dict", "s1dict", "s0dict", "s1dict", "s0obj", "s1obj"])
                if rng.random() < 0.5:
                    steps.append({"stream": "wfnprops", "case": {"wfn": w}})
                else:
                    c = gen_atomic(rng, rng.randrange(6 * 3 * 4 * 4), weird=0.0)
                    c["pw"] = rng.choice(["all", "all", "orbitals_and_eigenvalues", "return_results"])
                    c["wfn"] = w
                    steps.append({"stream": "atomic", "case": c})
        elif fam == "atomic":
            k = rng.randrange(6 * 3 * 4 * 4)
            for _ in range(run):                       # same protocols and driver, different payloads / restricted flag / sizes
                c = gen_atomic(rng, k, weird=0.0)
                if rng.random() < 0.3:
                    c["wfn"] = None
                steps.append({"stream": "atomic", "case": c})
        elif fam == "wfnprops":
            for _ in range(run):                       # basis sets b1..b6 alternate; the same field names with other sizes
                steps.append({"stream": "wfnprops", "case": {"wfn": gen_wfn(rng, weird=0.0)}})
        elif fam == "props":
            names = rng.sample(sorted(PROP_ARRAYS), rng.randint(1, 3))
            for natom in rng.sample([1, 2, 3, 4], run):    # the same fields under another atom count
                fields = []
                for ident, kname in enumerate(names, 1):
                    fit = prop_shape(PROP_ARRAYS[kname], natom)
                    fields.append([kname, gen_array(rng, ident, int(np.prod(fit)), fit, wrong_p=0.0)])
                steps.append({"stream": "props", "case": {"natom": natom, "fields": fields}})
        elif fam == "basis":
            key = rng.choice(["c1", "o_sto3g"])
            for _ in range(run):                       # the same center key (and basis name) with other shells
                ns = rng.randint(1, 3)
                shells = [{"am": [rng.randint(0, 4)], "sph": rng.random() < 0.5, "nexp": 1, "coef": [1]} for _ in range(ns)]
                amap = [key] * rng.randint(1, 3)
                count = sum(nfunc(sh) for sh in shells) * len(amap)
                steps.append({"stream": "basis", "case": {"centers": [[key, shells]], "atom_map": amap,
                                                          "nbf": rng.choice([None, count, count])}})
        else:
            ids = [rng.randint(0, 5) for _ in range(rng.randint(0, 5))]
            for pol in rng.sample(TRAJ, min(run, 4)):      # the same evaluations under another policy, then a shorter trajectory
                steps.append({"stream": "traj", "case": {"policy": pol, "ids": ids}})
                if rng.random() < 0.5:
                    steps.append({"stream": "traj", "case": {"policy": pol, "ids": ids[:rng.randint(0, len(ids))]}})
    return steps[:n]


def run_history(steps):
    """run the steps in order; the oracle's complaints (outside the known findings) about the LAST one"""
    warnings.filterwarnings("ignore", category=DeprecationWarning)
    bad, watch = [], Watch(keep=len(steps))
    for st in steps:
        out, bad = judge(st["stream"], st["case"], watch)
    return [f"{w} [observed {out}]" for w, t in bad if t is None]


def smaller(stream, case):
    """candidate reductions of a case (fewer fields first, then simpler values)"""
    import copy
    out = []
    if stream in ("atomic", "handover", "wfnprops") and case.get("wfn"):
        core = [it for it in case["wfn"] if it[0] in ("basis", "restricted")]
        if len(core) < len(case["wfn"]):               # the big jumps first
            c = dict(copy.deepcopy(case), wfn=copy.deepcopy(core))
            if stream in ("atomic", "handover"):
                out.append(dict(c, rr=["float", 0], driver="energy", native=None, stdout=None, pstdout=None, pnative=None))
            out.append(c)
        for i in range(len(case["wfn"])):
            if case["wfn"][i][0] not in ("basis", "restricted"):
                c = copy.deepcopy(case)
                del c["wfn"][i]
                out.append(c)
    if stream in ("atomic", "handover"):
        for key, val in ((("wfn", None),) if stream == "atomic" else ()) + (("native", None), ("stdout", None), ("pnative", None), ("pstdout", None), ("pw", None)):
            if case.get(key) is not None:
                out.append(dict(copy.deepcopy(case), **{key: val}))
        if case["rr"] != ["float", 0]:
            out.append(dict(copy.deepcopy(case), rr=["float", 0]))
            if case["rr"][0] == "arr" and len(case["rr"][1]) > 0:
                n = len(case["rr"][1])
                for m in (0, 1, 3, 4, 9):
                    if m < n:
                        out.append(dict(copy.deepcopy(case), rr=["arr", list(range(m)), [m], "nd"]))
        if case["driver"] != "energy":
            out.append(dict(copy.deepcopy(case), driver="energy"))
    if stream == "props":
        for i in range(len(case["fields"])):
            if len(case["fields"]) > 1:
                c = copy.deepcopy(case)
                del c["fields"][i]
                out.append(c)
    if stream == "basis":
        for i in range(len(case["atom_map"])):
            c = copy.deepcopy(case)
            del c["atom_map"][i]
            out.append(c)
        for i in range(len(case["centers"])):
            if len(case["centers"]) > 1 and case["centers"][i][0] not in case["atom_map"]:
                c = copy.deepcopy(case)
                del c["centers"][i]
                out.append(c)
            for j in range(len(case["centers"][i][1])):
                if len(case["centers"][i][1]) > 1:
                    c = copy.deepcopy(case)
                    del c["centers"][i][1][j]
                    out.append(c)
        if case["nbf"] is not None:
            out.append(dict(copy.deepcopy(case), nbf=None))
    if stream == "traj" and case["ids"]:
        out.append(dict(case, ids=case["ids"][:-1]))
        out.append(dict(case, ids=case["ids"][1:]))
    return out


def shrink_failure(f, budget=400):
    """greedy minimisation of a failing case: keep a reduction iff the oracle still reports the same kind of failure"""
    stream, case = f["case"]["stream"], f["case"]["input"]
    sig = (f["what"][:24], f.get("tag"))
    best, best_out, best_what = case, f["observed"], f["what"]
    progress = True
    while progress and budget > 0:
        progress = False
        for cand in smaller(stream, best):
            budget -= 1
            if budget <= 0:
                break
            try:
                out, bad = judge(stream, cand)
            except Exception:
                continue
            hit = [w for w, t in bad if (w[:24], t) == sig]
            if hit:
                best, best_out, best_what, progress = cand, out, hit[0], True
                break
    return dict(f, case={"stream": stream, "input": best}, observed=best_out, what=best_what, shrunk=(best != case))


def shrink_history(hist, budget=45):
    """fewer steps, then smaller steps, as long as the last step still fails when the history runs in a FRESH interpreter"""
    from .. import histseq
    fails = lambda h: bool(histseq.fresh_run("c20", h, timeout=120))
    i = 0
    while i < len(hist) - 1 and budget > 0 and len(hist) <= 10:
        cand = hist[:i] + hist[i + 1:]
        budget -= 1
        if fails(cand):
            hist = cand
        else:
            i += 1
    for j in range(len(hist) - 1, -1, -1):
        progress = True
        while progress and budget > 0:
            progress = False
            for c in smaller(hist[j]["stream"], hist[j]["case"]):
                if budget <= 0:
                    break
                budget -= 1
                cand = hist[:j] + [{"stream": hist[j]["stream"], "case": c}] + hist[j + 1:]
                if fails(cand):
                    hist, progress = cand, True
                    break
    return hist


def history_failures(rng, n, corr=None):
    """run a history stream in this interpreter; every failing step (at most 3) becomes a failure whose case is the shortest
    history that reproduces it in a fresh interpreter"""
    from .. import histseq
    try:
        fixtures()
    except Exception:
        # a fixture basis set was refused: report it as what it is, a failing case of the basis stream
        out_f = []
        shared = [{"centers": [["sh", sh]], "atom_map": ["sh"], "nbf": nbf} for nbf, vs in SHARED_BASIS.items() for sh in vs]
        for case in list(FIXTURE_BASIS.values()) + shared:
            out, bad = judge("basis", case)
            out_f.extend({"stream": "oracle-basis", "case": {"stream": "basis", "input": case}, "what": w, "observed": out, "tag": t}
                         for w, t in bad)
        return out_f
    hsteps = gen_history(rng, n)
    out_f = []
    watch = Watch()
    for j, st in enumerate(hsteps):
        try:
            out, bad = judge(st["stream"], st["case"], watch)
        except Exception as e:
            if corr is not None:
                corr.errors.append(f"harness error on history step {st}: {type(e).__name__}: {e}")
            continue
        if corr is not None:
            corr.count("history")
            corr.hit("history_" + st["stream"])
        bad = [(w, t) for w, t in bad if t is None]
        if bad and len(out_f) < 3:
            hist, complaints, reproduced = histseq.minimal_history("c20", hsteps[:j + 1])
            if reproduced and not out_f:
                try:
                    hist = shrink_history(hist)
                    complaints = histseq.fresh_run("c20", hist) or complaints
                except Exception as e:
                    if corr is not None:
                        corr.notes.append(f"shrinking a history failed: {type(e).__name__}: {e}")
            first = complaints[0] if reproduced and complaints else bad[0][0]
            what = (f"after {len(hist) - 1} earlier call(s) in the same interpreter: " if len(hist) > 1 else "") + first
            if not reproduced and corr is not None:
                corr.notes.append("a history-stream failure did not reproduce in a fresh interpreter with the whole history")
            out_f.append({"stream": "oracle-history", "case": {"stream": "history", "input": hist}, "what": what,
                          "observed": out, "tag": None, "shrunk": reproduced})
    return out_f


def correspond(ctx):
    warnings.filterwarnings("ignore", category=DeprecationWarning)
    corr = Corr()
    corr.rule = ("full product of 6 wavefunction-protocol settings (5 + default) x 3 stdout x 4 native-file x 4 drivers with random "
                 "wavefunction payloads/pointers and flat/shaped/list/wrong-sized arrays; WavefunctionProperties and "
                 "AtomicResultProperties directly; the wavefunction handed to AtomicResult as a WavefunctionProperties object or as another "
                 "result's attributes under every protocol (oracle only); arrays as float64/float32/int32/int64/big-endian, C/Fortran/strided or nested lists; the "
                 "wavefunction basis as a BasisSet object or as plain data, from a family with distinct names and from one sharing "
                 "name, center key and atom_map across function counts and shell layouts; trajectories of length 0..7 under every "
                 "policy; random basis sets (fused and general contractions, nbf right/wrong/absent); a history stream (runs of "
                 "calls sharing protocol / driver / field names / natom / center key / basis name+atom_map / policy but not the "
                 "payload, in one interpreter; every step also checks that the caller's arrays still hold their elements and that "
                 "the results of the preceding steps still read as when they were built; failing histories minimised in fresh "
                 "interpreters, fewer and smaller steps). Non-trivial = the implementation accepted the input (an object "
                 "was built and re-validated); distinct = distinct inputs")
    terms, bterms, meta, bmeta = [], [], [], []
    ntag = {}
    total = 0

    def flush():
        """evaluate the model on the buffered cases and drop them"""
        nonlocal terms, bterms, meta, bmeta
        if terms:
            try:
                bad, errors = retry.eval_bad_indices("C20", REQ, "", "check_case", terms, shard=250, ty="c20case", log=ctx.log)
            except Exception:               # keep the oracle verdicts collected so far
                import traceback
                bad, errors = [], [(0, "model evaluation crashed: " + traceback.format_exc()[-1500:])]
            corr.errors.extend(f"shard {k}: {e}" for k, e in errors)
            for b in bad[:8]:
                stream, case, out = meta[b]
                got, _ = coqrun.eval_terms("C20", REQ, "", [
                    f"match {terms[b]} with CAtomic i _ => Some (inl (atomic_result i)) | CWfnProps w _ => Some (inr (inl (wfn_validate w))) "
                    f"| CProps n f _ => Some (inr (inr (inl (props_fields n f)))) | CTraj p v _ => Some (inr (inr (inr (traj_protocol p v)))) end"])
                corr.disagreements.append({"stream": stream, "case": {"stream": stream, "input": case}, "impl": out, "model": got})
        if bterms:
            try:
                bad2, errors2 = retry.eval_bad_indices("C20b", REQ, "", "check_basis", bterms, shard=600, ty="basis_in * outcome Z", log=ctx.log)
            except Exception:
                import traceback
                bad2, errors2 = [], [(0, "model evaluation crashed: " + traceback.format_exc()[-1500:])]
            corr.errors.extend(f"basis shard {k}: {e}" for k, e in errors2)
            for b in bad2[:8]:
                stream, case, out = bmeta[b]
                got, _ = coqrun.eval_terms("C20b", REQ, "", [f"basis_validate (fst {bterms[b]})"])
                corr.disagreements.append({"stream": stream, "case": {"stream": stream, "input": case}, "impl": out, "model": got})
        terms, bterms, meta, bmeta = [], [], [], []

    # history stream first (so that the recorded history is everything this interpreter did to the result models before)
    from .. import histseq
    hfails = history_failures(ctx.rng, 1500 if ctx.thorough else 300, corr)
    nfail = len(hfails)
    corr.failures.extend(hfails)
    for stream, case in gen_cases(ctx):
        try:
            out, bad = judge(stream, case)
        except Exception as e:                      # harness problem, not a finding
            corr.errors.append(f"harness error on {stream} case {case}: {type(e).__name__}: {e}")
            continue
        total += 1
        corr.count(stream)
        corr.hit(f"{stream}_" + (out[0] if out[0] == "Ok" else "Err_" + out[1]))
        if stream == "atomic":
            corr.hit("wfn_protocol_" + str(case["pw"]))
            corr.hit("native_policy_" + str(case["pnative"]) + ("_supplied" if case["native"] is not None else "_absent"))
            corr.hit("stdout_protocol_" + str(case["pstdout"]))
            corr.hit("driver_" + case["driver"] + "_" + out[0])
            if out[0] == "Ok" and out[1]["wfn"] is not None:
                corr.hit("wfn_kept_nonempty")
                if case["wfn"] is not None and dict(case["wfn"]).get("restricted") == ["bool", True]:
                    corr.hit("wfn_kept_restricted")
        elif stream == "traj":
            corr.hit(f"traj_policy_{case['policy']}_len{min(len(case['ids']), 3)}")
        elif stream == "basis":
            corr.hit("basis_nbf_" + ("absent" if case["nbf"] is None else "supplied") + "_" + out[0])
        elif stream == "props":
            corr.hit("props_natom_" + ("none" if case["natom"] is None else "given") + "_" + out[0])
        if out[0] == "Ok":
            corr.nontriv([stream, case])
            if total == 2 or ctx.rng.random() < 0.001:
                corr.sample({"stream": stream, "input": case, "output": out})
        for what, tag in bad:
            if tag is not None:                     # known-finding symptoms: keep a bounded number of each, count all
                ntag[tag] = ntag.get(tag, 0) + 1
                if ntag[tag] > 300:
                    continue
            corr.failures.append({"stream": "oracle-" + stream, "case": {"stream": stream, "input": case}, "what": what,
                                  "observed": out, "tag": tag})
        if stream in ("layout", "handover"):
            continue
        if stream == "basis":
            bterms.append(basis_term(case, out))
            bmeta.append((stream, case, out))
        else:
            terms.append(case_term(stream, case, out))
            meta.append((stream, case, out))
        if len(terms) + len(bterms) >= 8000:
            ctx.log(f"{total} cases through the implementation so far; evaluating the model on a block")
            flush()
    ctx.log(f"{total} cases through the implementation; evaluating the model on the last block")
    flush()
    # minimise the first unknown failure of each stream and report it first (the replay is written from the first one)
    firsts, seen_streams = [], set()
    for f in corr.failures:
        if f.get("tag") is None and f["stream"] not in seen_streams:
            seen_streams.add(f["stream"])
            try:
                firsts.append(shrink_failure(f))
            except Exception as e:
                corr.notes.append(f"shrinking failed: {type(e).__name__}: {e}")
    corr.failures[:0] = firsts
    for tag, n in ntag.items():
        corr.notes.append(f"{n} symptom(s) of known-finding tag `{tag}` seen this run (at most 300 kept)")
    # smallest failing case first within each stream (the replay file is written from the first one)
    import json as _json
    corr.failures.sort(key=lambda f: (f["stream"], not f.get("shrunk"), len(_json.dumps(f.get("case"), default=str))))
    if nfail:
        # state left behind by earlier calls also corrupts the single-case streams; a single case that does not fail in a fresh
        # interpreter is represented by the (reproducible) history failure and dropped
        drop = set()
        for f in corr.failures:
            st = f["stream"]
            if st in drop or st == "oracle-history" or f.get("tag") is not None or st + "!" in drop:
                continue
            got = histseq.fresh_run("c20", [{"stream": f["case"]["stream"], "case": f["case"]["input"]}])
            drop.add(st if got == [] else st + "!")          # "!": reproduces on its own, keep the stream
        dropped = [f for f in corr.failures if f["stream"] in drop and f.get("tag") is None]
        if dropped:
            corr.notes.append(f"{len(dropped)} single-case failure(s) of stream(s) {sorted(drop - {d for d in drop if d.endswith('!')})} "
                              "do not fail in a fresh interpreter (state-dependent): represented by the history failure")
            corr.failures = [f for f in corr.failures if f not in dropped]
    corr.exhaustive = False
    return corr


def search(ctx, corr, reasons):
    """All cases were already judged by the oracle inside correspond; add the disagreeing cases (their oracle verdicts are
    already in corr.failures if any) and a fresh targeted sample with a different seed."""
    import random
    rng = random.Random(ctx.seed * 7919 + 20)
    found = [] if any(f.get("stream") == "oracle-history" for f in corr.failures) else history_failures(rng, 300)
    state_dependent = bool(found) or any(f.get("stream") == "oracle-history" for f in corr.failures)
    for _ in range(1500):
        stream = rng.choice(["atomic", "atomic", "props", "basis", "traj", "handover"])
        case = {"atomic": lambda: gen_atomic(rng, None, 0.3), "handover": lambda: gen_handover(rng), "props": lambda: gen_props(rng), "basis": lambda: gen_basis(rng),
                "traj": lambda: {"policy": rng.choice(TRAJ), "ids": list(range(rng.randint(0, 5)))}}[stream]()
        try:
            out, bad = judge(stream, case)
        except Exception:
            continue
        for what, tag in bad:
            found.append({"stream": "search-" + stream, "case": {"stream": stream, "input": case}, "what": what, "observed": out,
                          "tag": tag})
    if state_dependent:
        # single cases that do not fail in a fresh interpreter are represented by the history failure
        from .. import histseq
        keep, verdict = [], {}
        for f in found:
            st = f["stream"]
            if st != "oracle-history" and f.get("tag") is None:
                if st not in verdict:
                    verdict[st] = histseq.fresh_run("c20", [{"stream": f["case"]["stream"], "case": f["case"]["input"]}]) != []
                if not verdict[st]:
                    continue
            keep.append(f)
        found = keep
    firsts, seen = [], set()
    for f in found:
        if f.get("tag") is None and f["stream"] not in seen and f["stream"] != "oracle-history":
            seen.add(f["stream"])
            try:
                firsts.append(shrink_failure(f))
            except Exception:
                pass
    return firsts + found


def replay(ctx, rp):
    warnings.filterwarnings("ignore", category=DeprecationWarning)
    stream, case = rp["case"]["stream"], rp["case"]["input"]
    out, bad = judge(stream, case)
    bad = [(w, t) for w, t in bad]
    return {"stream": stream, "input": case, "implementation": out, "oracle": [w for w, _ in bad],
            "known_tags": [t for _, t in bad], "fails": bool(bad)}


KNOWN = {

    # narrow: only "native_files {} becomes {'input': None}" when native_files was not supplied under policy `input`
    "C20-native-input-default-not-idempotent": lambda f: f.get("tag") == "native-default" and "re-validation changed" in f.get("what", ""),

    # narrow: only "accepted with shape ... implied shape is ..." on localized_fock_a/_b (declared nmo x nmo, no validator)
    "C20-unvalidated-declared-shapes": lambda f: f.get("tag") == "unvalidated" and " accepted with shape " in f.get("what", "")
    and f["what"].split(" ")[0] in (UNVALIDATED_WFN | UNVALIDATED_PROP),
}

TECHNIQUE = ("Coq proof over Gallina models that interpret protocol/field tables regenerated from the source by a fail-closed "
             "translator + differential correspondence and an independent property oracle on the implementation")
DESIGN_REF = "DESIGN.md §6 C20"
LEVEL_TEXT = (
    "Machine-checked (Coq 8.16.1) theorems about Model/Results.v + Model/Basis.v, which interpret protocol/field tables regenerated "
    "from results.py / procedures.py / basis.py on every run (Gen/KeepLists.v). For EVERY wavefunction dictionary, protocol setting "
    "(supplied or default), trajectory, array and basis set. Retention: C20_wfn_kept_exactly (filter: result = exactly {restricted, "
    "basis} + documented pointers present + their targets, or everything minus *_b when restricted under `all`; payloads unchanged), "
    "C20_wfn_dropped_only_by_none, C20_wfn_fails_closed, C20_atomic_wfn_kept_exactly (the same through the PUBLIC constructor: protocol "
    "filter composed with the field validators), C20_atomic_result_is_its_stages (AtomicResult accepted iff protocols valid and the "
    "four governed fields pass; error classes), C20_atomic_other_fields, C20_stdout_native_protocols, C20_trajectory_spec, "
    "C20_keep_lists_are_documented (generated tables = documentation). Shapes: C20_shapes_accepted_iff_size_fits (numpy reshape incl. one "
    "unknown dimension), C20_shapes_flat_shaped_idempotent, C20_return_result_by_driver, C20_property_arrays + "
    "C20_properties_whole_object (nat x 3, 3nat x 3nat, 3, 3x3; whole object = field-wise), C20_wfn_arrays_shaped_or_rejected (every "
    "array field of the generated WavefunctionProperties table: accepted => supplied elements in the rule's shape for the object's own "
    "nbf, e.g. nbf x nbf iff size = nbf^2; misfit => validation error), C20_wfn_validation_keeps_payload, C20_declared_shapes_enforced, "
    "C20_wfn_accepted_iff (WavefunctionProperties accepted IFF no unknown key, basis/restricted well-typed, every ruled array fits the "
    "rule for the object's own nbf, every pointer names an earlier-declared field present and not None), C20_wfn_rejects_bad_field (one "
    "bad field => validation error). "
    "Basis sets: C20_nbf_spec, C20_nbf_count_formulas, C20_basis_accepted_iff (accepted iff structurally valid, nbf absent or = count). "
    "Re-validation is the identity: C20_wfn_protocol_idempotent, C20_wfn_validation_idempotent, C20_wfn_stage_idempotent, "
    "C20_trajectory_idempotent_total (no IndexError), C20_basis_revalidation, C20_atomic_revalidation (whole AtomicResult). Two "
    "statements of the property are false of the code and are proved in refuted form with witnesses replayed on the implementation: "
    "C20_declared_shapes_enforced_refuted (localized_fock_a/_b only), C20_revalidation_identity_refuted (native_files default under "
    "policy input). The models are tied to the code by the fail-closed translator and by exact differential execution over the full "
    "product of protocols x drivers x payload subsets / pointers x flat/shaped/list/wrong-sized arrays, WavefunctionProperties / "
    "AtomicResultProperties directly, trajectories of length 0..7 under every policy, random basis sets (fused/general contractions, "
    "nbf right/wrong/absent), arrays in seven element types / memory layouts, the basis as object or plain data with shared or "
    "distinct names, with the property oracle (hand-written documentation mirror) and Model(**obj.dict()) re-validation "
    "evaluated on every accepted object, and call histories in one interpreter (no answer depends on earlier calls, the caller's "
    "arrays and earlier results are left alone).")
LEVEL_NOTE = (
    "Clause map: (1) shapes -> C20_shapes_accepted_iff_size_fits, C20_shapes_flat_shaped_idempotent, C20_property_arrays, "
    "C20_properties_whole_object, C20_wfn_arrays_shaped_or_rejected, C20_wfn_accepted_iff, C20_wfn_rejects_bad_field, "
    "C20_return_result_by_driver, C20_atomic_result_is_its_stages [full; "
    "localized_fock_a/_b refuted = known finding]; (2) nbf -> C20_nbf_spec, C20_nbf_count_formulas, C20_basis_accepted_iff [full, "
    "distinct center keys]; (3) retention -> C20_wfn_kept_exactly, C20_atomic_wfn_kept_exactly, C20_atomic_other_fields, "
    "C20_stdout_native_protocols, C20_trajectory_spec, C20_keep_lists_are_documented [full]; (4) kept unchanged -> "
    "C20_wfn_validation_keeps_payload + the payload conjuncts of (3) [full]; (5) re-validation -> the idempotence theorems, "
    "C20_atomic_revalidation [full outside the refuted native_files-default case = known finding]. Only correspondence/oracle: "
    "memory layouts and element types of supplied arrays, the basis kept unchanged (object or plain data), independence from the "
    "call history (no shared state, caller's arrays and earlier results untouched), pydantic plumbing, OptimizationResult fields "
    "other than `trajectory`. "
    "Trusted: Coq kernel + vm_compute; the translator harness/translate/keeplists.py (refuses on any statement of the validators it "
    "neither translates nor recognises); the hand-written models; pydantic.v1 plumbing, numpy asarray/reshape/shape assignment, "
    "int(size**0.5) (modelled as Z.sqrt) are modelled, not verified; the harness. Out of the model: dict-valued return_result, non-str "
    "pointer values. No axioms (all theorems closed under the global context).")
