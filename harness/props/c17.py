"""C17 — radii lookups: translators, correspondence of Model/Radii.v with qcelemental.covalentradii / vdwradii
(get, the constructed tables, Datum.to_units), and the property oracle evaluated directly on the implementation."""
import math
import time
from decimal import Decimal
from fractions import Fraction

import numpy as np

from .. import coqrun
from ..core import Corr
from ..coqrun import cstr, clist, cbool, cq
from ..translate import ptable, srd144, periodgroup, radii, codata, radiiglue, radiiinit
from . import c01

PID = "C17"
ALLOWED_AXIOMS = set()
REQ = ["QV.Common.Outcome", "QV.Common.PyAscii", "QV.Model.PeriodicTable", "QV.Model.Radii"]
REQU = REQ + ["QV.Model.RadiiUnits"]
EXTRA_TARGETS = ["Model/Radii.vo", "Model/RadiiUnits.vo"]

TRUSTED = [
    "translators harness/translate/radii.py (both radii data modules and the `aliases` literal of CovalentRadii.__init__ -> Gen/Radii.v, "
    "values as verbatim decimal strings), ptable.py, srd144.py, periodgroup.py",
    "translator harness/translate/radiiglue.py (the bodies of CovalentRadii.get, VanderWaalsRadii.get and Datum.to_units -> Gen/RadiiGlue.v) and the "
    "combinators of coq/Model/RadiiGlue.v + Model/PeriodicTableGlue.v as the meaning of the Python constructs used; the hand-written [get] of "
    "coq/Model/Radii.v is PROVED equal to both generated get methods (C17_generated_get_is_model)",
    "translator harness/translate/radiiinit.py (the table construction of CovalentRadii.__init__ / VanderWaalsRadii.__init__: empty ordered dict, "
    "the context guard, the row loop and the alias loop with which component goes into which Datum slot -> Gen/RadiiInit.v) and the combinators of "
    "coq/Model/RadiiInit.v (`d[k] = v` as dict_set) as the meaning of those constructs; the hand-written tables cov_table / vdw_table of "
    "coq/Model/Radii.v are PROVED lookup-equal to the generated ones (C17_generated_init_is_model) and additionally tied by differential execution of "
    "the constructed dictionaries entry by entry (this file)",
    "default unit (Bohr): the factor is DERIVED in the model: 1 / bohr2angstroms, bohr2angstroms = the alias expression of context.py "
    "(Gen/Aliases.v) over the shipped CODATA table of the default context (Gen/Codata2014.v / 2018; default year translated from context.py); "
    "trusted there: that pint defines bohr as <'bohr radius' value> metre and angstrom as 1e-10 metre (read in ureg.py, not translated)",
    "other units (pm, nm, m, explicit angstrom): the factor stays an INPUT of the model (constants.conversion_factor as reported, pint, C03); "
    "the oracle sanity-checks it (angstrom->angstrom = 1 exactly, pm/nm/m powers of ten, 1e-12 relative)",
    "float arithmetic: the model is exact (Q); the implementation's factor*float(data) is compared to it within 2^-51 relative (two roundings) and, "
    "in the oracle, bit-exactly against the same IEEE product recomputed from the source string",
    "pydantic Datum construction/validation is not modelled beyond the four fields label, units, data, comment",
    "Datum.to_units on ARRAY payloads is outside the Gallina model: judged by the Python oracle alone (exact rational product element by element "
    "within 2^-51 / 2^-22 relative for 8- / 4-byte results — at most two roundings of 2^-53 / 2^-24 each, margin >= 2 —, result type, bit-exact IEEE "
    "product recomputed with numpy, repeatability, payload untouched and unshared); numpy's promotion of integer/boolean arrays to float64 and "
    "its keeping float32 / complex64 under multiplication by a Python float is pinned behaviour",
]
ASSUMPTIONS = [
    "identifiers are Python int (not bool) or ASCII str; units are length units known to the registry",
]

UNITS = ["bohr", "angstrom", "pm", "nm", "m"]
EK = {"NotAnElementError": "NotAnElement", "DataUnavailableError": "DataUnavailable", "KeyError": "PyKeyError",
      "ValueError": "PyValueError", "TypeError": "PyTypeError", "AttributeError": "PyAttributeError",
      "AssertionError": "PyAssertion", "IndexError": "PyIndexError"}


def translate(ctx):
    ptable.generate(ctx.repo)
    srd144.generate(ctx.repo)
    periodgroup.generate(ctx.repo)
    radii.generate(ctx.repo)
    radiiinit.generate(ctx.repo)  # Gen/RadiiInit.v: the table construction of both __init__ methods as translated from the source
    radiiglue.generate(ctx.repo)  # Gen/RadiiGlue.v: both get methods and Datum.to_units as translated from the source
    codata.generate(ctx.repo)     # Gen/Codata2014.v, Codata2018.v, Aliases.v (shared with C02/C03): the Bohr radius and the alias expression


# ------------------------------------------------------------------------------------------------
def _objs():
    import qcelemental
    return qcelemental.covalentradii, qcelemental.vdwradii


_FACT = {}


def factor(u_from, u_to):
    import qcelemental
    key = (u_from, u_to)
    if key not in _FACT:
        _FACT[key] = qcelemental.constants.conversion_factor(u_from, u_to)
    return _FACT[key]


class Sentinel(float):
    """a float subclass instance: identity shows that the caller's fallback is returned untouched"""


def fallbacks():
    """fresh fallback objects: truthy and falsy, both signs of zero, int and float, negative, huge (nan is out of scope)"""
    return [Sentinel(4.25), 0.0, -0.0, 0, 2.5, -1.5, 1e308, 7, Sentinel(0.0)]


def same_fallback(r, missing):
    """'returns exactly the caller's fallback': the very object, hence same type, value and sign of zero"""
    return r is missing and type(r) is type(missing) and repr(r) == repr(missing)


def enc_missing(missing):
    if missing is None:
        return None, None
    if isinstance(missing, Sentinel):
        return float(missing), "sentinel"
    return missing, type(missing).__name__     # JSON keeps 0 / 0.0 / -0.0 apart


def dec_missing(case):
    v, kind = case.get("missing"), case.get("missing_kind")
    if v is None:
        return None
    if kind == "sentinel" or kind is None:
        return Sentinel(v)
    return int(v) if kind == "int" else float(v)


_CALLS = {True: [], False: []}   # every get() issued on the module singletons in this process, in order, per radius set (complete calls)


def impl_get(cov, x, missing, rt, units, obj=None):
    if obj is None:
        c, v = _objs()
        obj = c if cov else v
        mv, mk = enc_missing(missing)
        _CALLS[cov].append({"atom": x, "missing": mv, "missing_kind": mk, "return_tuple": rt, "units": units})
    try:
        return ("Ok", obj.get(x, return_tuple=rt, units=units, missing=missing))
    except Exception as e:  # noqa: BLE001
        return ("Err", type(e).__name__)


def replay_history(cov, hist, obj=None):
    """re-issue earlier calls (their own answers are not judged): complete calls as recorded, or bare identifiers (float
    history-makers of the periodic table) as get(h)"""
    for h in hist or []:
        if isinstance(h, dict):
            impl_get(cov, h["atom"], dec_missing(h), h["return_tuple"], h["units"], obj)
        else:
            impl_get(cov, h, None, False, "bohr", obj)


def dependent_history(rs, cov, x, missing, rt, units, upto, base=()):
    """A call failed on the singleton.  Find the earlier calls of this process (of the first `upto` logged ones) it needs in order
    to fail again in a FRESH process: candidates from narrow to wide — none; the calls whose identifier has the same text up to
    blanks / case / sign; those naming the same element; the last 300 calls; every call so far — each tried on a freshly
    constructed table object exactly as a replay would issue them (fallback objects rebuilt from their recorded value).
    Returns (history, reproduced?)."""
    log = _CALLS[cov][:upto]
    base = list(base)
    nx = c01.norm_id(x)

    def ekey(y):
        try:
            e = rs.expect(cov, y)
        except Exception:  # noqa: BLE001
            return None
        return e[1] if len(e) > 1 else None
    kx = ekey(x)
    same_text = [h for h in log if c01.norm_id(h["atom"]) == nx]
    same_elem = [h for h in log if c01.norm_id(h["atom"]) == nx or (kx is not None and not isinstance(h["atom"], float) and ekey(h["atom"]) == kx)] \
        if kx is not None else same_text
    cands = [base, base + same_text, base + same_elem, base + log[-300:], base + log]
    for hist in cands:
        if _judge_fresh(rs, cov, x, missing, rt, units, hist):
            # shrink: drop chunks of the history as long as the call still fails on a fresh object (bounded number of trials)
            trials, n = 0, 2
            while len(hist) > len(base) and trials < 60 and len(hist) <= 2000:
                size = max(1, (len(hist) - len(base)) // n)
                for i in range(len(base), len(hist), size):
                    cut = hist[:i] + hist[i + size:]
                    trials += 1
                    if _judge_fresh(rs, cov, x, missing, rt, units, cut):
                        hist, n = cut, max(n - 1, 2)
                        break
                    if trials >= 60:
                        break
                else:
                    if size == 1:
                        break
                    n = min(2 * n, len(hist) - len(base))
            return hist, True
    return base + same_elem + log[-40:], False


def _judge_fresh(rs, cov, x, missing, rt, units, hist):
    """does the call fail the oracle on a fresh object after `hist`, with the fallback rebuilt as a replay rebuilds it?"""
    single = _objs()[0 if cov else 1]
    try:
        obj = type(single)(single.name)
        replay_history(cov, hist, obj)
        mv, mk = enc_missing(missing)
        m2 = dec_missing({"missing": mv, "missing_kind": mk})
        out = impl_get(cov, x, m2, rt, units, obj)
        return bool(oracle(rs, cov, x, m2, rt, units, out))
    except Exception:  # noqa: BLE001
        return False


def dec_tuple(d):
    sign, digits, exp = d.as_tuple()
    coef = int("".join(map(str, digits)) or "0")
    return (-coef if sign else coef, exp)


# ------------------------------------------------------------------------------------------------
class RSpec:
    """What the source tables say, independent of the constructor code: per table, label -> (value string, comment);
    a bare element that has special-label variants  E_xxx  in the source table means the LARGEST of them (whatever the
    constructor's aliases literal says, and whether or not the source table also carries a row for the bare symbol)."""

    def __init__(self, repo):
        d = radii.load(repo)
        self.units = {True: d["cov"]["units"], False: d["vdw"]["units"]}
        self.rows = {True: {}, False: {}}
        for l, v, c in d["cov"]["rows"]:
            self.rows[True][l] = (v, c)
        for l, v in d["vdw"]["rows"]:
            self.rows[False][l] = (v, "")
        self.pt = c01.Spec(repo)
        self.variants = {True: {}, False: {}}    # per table: element symbol -> its special labels E_xxx of the source table
        for cov in (True, False):
            for l in self.rows[cov]:
                e = l.split("_", 1)[0]
                if "_" in l and e in self.pt.E:
                    self.variants[cov].setdefault(e, []).append(l)
        # the variant carrying the largest value (ties: the same value, any of them)
        self.generic = {cov: {e: max(ls, key=lambda l: (Decimal(self.rows[cov][l][0]), l)) for e, ls in self.variants[cov].items()}
                        for cov in (True, False)}
        self.aliases = d["aliases"]

    def expect(self, cov, x):
        """('notanelement',) | ('nodata', E) | ('entry', key, label, value string, comment or None)"""
        rows, generic = self.rows[cov], self.generic[cov]
        if isinstance(x, str) and x in generic:
            return ("entry", x, x, rows[generic[x]][0], None)
        if isinstance(x, str) and x in rows:
            v, c = rows[x]
            return ("entry", x, x, v, c)
        e = self.pt.expect(x)
        if e is None:
            return ("notanelement",)
        E = e[1]["E"]
        if E in generic:
            return ("entry", E, E, rows[generic[E]][0], None)
        if E in rows:
            v, c = rows[E]
            return ("entry", E, E, v, c)
        return ("nodata", E)


def variant_relation(rs, cov, key, rt, units, out):
    """'the bare element means the largest variant', on the IMPLEMENTATION's answers alone: the answer for an element that has
    special labels E_xxx must be the largest of the answers for those labels (same return form and unit)."""
    labels = rs.variants[cov].get(key)
    if not labels or out[0] != "Ok":
        return None
    vals = {}
    for l in labels:
        o = impl_get(cov, l, None, rt, units)
        if o[0] != "Ok":
            return f"special label {l}: raised {o[1]}"
        vals[l] = o[1].data if rt else o[1]
    try:
        big = max(vals.values())
        mine = out[1].data if rt else out[1]
        ok = (mine == big)
    except Exception as e:  # noqa: BLE001
        return f"bare {key} / its variants are not comparable: {e!r}"
    return None if ok else f"bare {key} gives {mine!r}, but the largest of its variants {vals!r} is {big!r}"


def oracle(rs, cov, x, missing, rt, units, out):
    exp = rs.expect(cov, x)
    if exp[0] == "notanelement":
        return None if out == ("Err", "NotAnElementError") else f"non-atom identifier gave {out!r} instead of NotAnElementError"
    if exp[0] == "nodata":
        if missing is not None and not rt:
            return None if (out[0] == "Ok" and same_fallback(out[1], missing)) else \
                f"valid element {exp[1]} without radius: expected exactly the caller's fallback {missing!r} back, got {out!r}"
        return None if out == ("Err", "DataUnavailableError") else f"valid element {exp[1]} without radius: expected DataUnavailableError, got {out!r}"
    _, key, label, vstr, comment = exp
    if out[0] != "Ok":
        return f"tabulated radius {key}: raised {out[1]}"
    r = out[1]
    native = rs.units[cov]
    if rt:
        ok = (type(r).__name__ == "Datum" and r.label == label and r.units == native and isinstance(r.data, Decimal)
              and r.data.as_tuple() == Decimal(vstr).as_tuple() and (comment is None or r.comment == comment))
        return variant_relation(rs, cov, key, rt, units, out) if ok else f"Datum form is not (label {label}, {native}, Decimal({vstr})): {r!r}"
    if missing is not None and r is missing:
        return f"tabulated radius {key}: returned the fallback"
    f = factor(native, units)
    want = f * float(Decimal(vstr))
    if not isinstance(r, float) or r.hex() != want.hex():
        return f"value {r!r} is not factor({native}->{units})={f!r} times tabulated {vstr} (= {want!r})"
    if units == native and r.hex() != float(vstr).hex():
        return f"native unit does not return the tabulated number exactly: {r!r} vs {vstr}"
    return variant_relation(rs, cov, key, rt, units, out)


def factor_sanity():
    import qcelemental
    bad = []
    b2a = qcelemental.constants.bohr2angstroms
    want = {"angstrom": 1.0, "bohr": 1.0 / b2a, "pm": 100.0, "nm": 0.1, "m": 1e-10}
    for u, w in want.items():
        f = factor("angstrom", u)
        if u == "angstrom":
            if f != 1.0:
                bad.append(f"conversion_factor(angstrom, angstrom) = {f!r}, not exactly 1")
        elif not (isinstance(f, float) and abs(f / w - 1.0) < 1e-12):
            bad.append(f"conversion_factor(angstrom, {u}) = {f!r}, expected {w!r}")
    return bad


# ------------------------------------------------------------------------------------------------
# history: get() resolves through the module-level periodic table; no call may leave state behind.  Float identifiers are
# outside the model: issued as history-makers only, their own answers are not judged.

def _case(cov, x, missing, rt, units, hist=None):
    mv, mk = enc_missing(missing)
    c = {"table": "covalent" if cov else "vdw", "atom": x, "missing": mv, "missing_kind": mk, "return_tuple": rt, "units": units}
    if hist is not None:
        c["history"] = hist
    return c


def run_sequences(ctx, rs, corr):
    groups = c01.collision_groups(ctx, rs.pt)
    for g in groups:
        perm = list(g)
        ctx.rng.shuffle(perm)
        for seq in (perm, perm[::-1]):
            for i, x in enumerate(seq):
                for cov in (True, False):
                    out = impl_get(cov, x, None, False, "bohr")
                    corr.count("history-sequences")
                    if isinstance(x, float):
                        c01._ISSUED_FLOATS.append(x)
                        continue
                    bad = oracle(rs, cov, x, None, False, "bohr", out)
                    if bad:
                        corr.failures.append({"stream": "history", "case": _case(cov, x, None, False, "bohr", seq[:i]),
                                              "what": bad + "  [after the earlier calls listed in case.history]", "observed": repr(out)})
    return groups


def run_history_replay(ctx, rs, corr, memo, idents, fallback):
    import qcelemental
    rng = ctx.rng
    makers = list(c01.FLOAT_MAKERS) + [float(z) for z in rng.sample(range(0, 118), 25)] + list(range(0, 118, 9)) + ["kr84", "KR", "Hydrogen", "d", " 1 ", "+1"]
    for m in makers:
        impl_get(True, m, None, False, "bohr")
        impl_get(False, m, fallback, False, "angstrom")
        for f in (qcelemental.periodictable.to_E, qcelemental.periodictable.to_Z):
            try:
                f(m)
            except Exception:  # noqa: BLE001
                pass
        if isinstance(m, float):
            c01._ISSUED_FLOATS.append(m)
        corr.count("history-makers")
    targets = [x for x in c01.CORPUS_INVALID + c01.CORPUS_INTFORMS if not (isinstance(x, str) and len(x) > 100)]
    for m in makers:
        if isinstance(m, float):
            t = str(m)
            targets += [t, " " + t, t + " ", "+" + t, str(int(m)) + ".", str(int(m)) + ".00"]
    earlier = [x for _s, x in idents]
    rng.shuffle(earlier)
    ndep = 0
    targets += earlier if ctx.thorough else earlier[:1200]
    for x in targets:
        if isinstance(x, float):
            continue
        for cov in (True, False):
            for missing, rt, units in ((None, False, "bohr"), (fallback, False, "angstrom"), (None, True, "bohr")):
                upto = len(_CALLS[cov])
                out = impl_get(cov, x, missing, rt, units)
                corr.count("history-replay")
                bad = oracle(rs, cov, x, missing, rt, units, out)
                first = memo.get((cov, type(x).__name__, x, enc_missing(missing), rt, units))
                if not bad and first is not None and first != repr(out):
                    bad = f"the same call was answered differently later in the run (state kept between calls): first {first}, now {out!r}"
                if bad:
                    # the earlier calls the failure needs (complete calls, tried on a fresh object as a replay issues them); failing
                    # that, the earlier identifiers with the same text up to blanks / case / sign and the history-makers
                    case = _case(cov, x, missing, rt, units)
                    if ndep < 10:
                        ndep += 1
                        case["history"], case["history_reproduces"] = dependent_history(rs, cov, x, missing, rt, units, upto, c01.collide_history(x))
                    else:
                        case["history"] = [h for h in _CALLS[cov][:upto] if c01.norm_id(h["atom"]) == c01.norm_id(x)][-60:]
                    corr.failures.append({"stream": "history", "case": case,
                                          "what": bad + "  [after the earlier calls listed in case.history]", "observed": repr(out)})


# ------------------------------------------------------------------------------------------------
def rexp_term(out, missing):
    if out[0] == "Err":
        return f"(EErr {EK.get(out[1], 'PyAssertion')})"
    r = out[1]
    if missing is not None and r is missing:
        return "EMissing"
    if type(r).__name__ == "Datum":
        if not (isinstance(r.label, str) and isinstance(r.units, str) and isinstance(r.data, Decimal) and r.data.is_finite()
                and isinstance(r.comment, str) and (r.label + r.units + r.comment).isascii()):
            return None
        c, e = dec_tuple(r.data)
        return f"(EDatum {cstr(r.label)} {cstr(r.units)} ({c01.czb(c)}, {c01.czb(e)}) {cstr(r.comment)})"
    if isinstance(r, float) and math.isfinite(r):
        return f"(EValue {cq(Fraction(r))})"
    return None


def identifiers(ctx, rs):
    rng = ctx.rng
    out = []
    by_el = {}
    for k, rec in rs.pt.species.items():
        by_el.setdefault(rec["E"], []).append(k)
    for z, e, n in rs.pt.elements:
        forms = [z, str(z), e, n]
        labs = sorted(l for l in by_el.get(e, []) if l != e)
        if labs:
            forms.append(rng.choice(labs))
            if ctx.thorough:
                forms.append(rng.choice(labs))
        for f in forms:
            if isinstance(f, int):
                out.append(("elements", f))
                continue
            vs = [f.lower(), f.upper(), f.capitalize()]
            if ctx.thorough:
                vs.append("".join(ch.upper() if rng.random() < 0.5 else ch.lower() for ch in f))
            for v in dict.fromkeys(vs):
                out.append(("elements", v))
    for cov in (True, False):
        for l in rs.rows[cov]:
            out.append(("labels", l))
            if "_" in l:
                out.extend([("labels-wrongcase", l.lower()), ("labels-wrongcase", l.upper()), ("labels-wrongcase", l.capitalize()),
                            ("labels-wrongcase", l + " "), ("labels-wrongcase", l.replace("_", ""))])
    for x in [-1, 118, 200, 10 ** 20, "", "q", "zz", "84kr", "kr200", "1.0", "c_", "_sp3", "C_sp4", "Mn_", "og", "hydrogens", " h", "h "]:
        out.append(("invalid", x))
    for x in c01.gen_invalid(rng, rs.pt, 300 if ctx.thorough else 100):
        out.append(("invalid", x))
    seen, res = set(), []
    for s, x in out:
        k = (type(x).__name__, x)
        if k not in seen:
            seen.add(k)
            res.append((s, x))
    return res


def correspond(ctx):
    corr = Corr()
    corr.rule = ("exhaustive: every element of the periodic table (tabulated or not) x {int Z, str Z, symbol, name, a nuclide label} x letter "
                 "cases, every source-table label (+ wrong-case spellings), invalid identifiers; each x units {bohr, angstrom, pm, nm, m} x "
                 "missing {None, float} x return_tuple, for both radius sets; HISTORY streams (colliding identifiers incl. float history-makers in both "
                 "orders before anything else, then after float/int/string history-makers the invalid stream and a shuffled sample of earlier calls "
                 "re-issued, judged by the oracle and compared with the first answer); the constructed dictionaries entry by entry; Datum.to_units "
                 "over unit pairs and float/Decimal payloads and array payloads of every numeric dtype (bool, int8..uint64, big-endian, float32/64, "
                 "complex64/128) x {0-d, 1-d, 2-d, empty, Fortran, strided, transposed, read-only}; bare element = largest variant also on the implementation's "
                 "own answers. non-trivial = the call returned a radius (number or Datum); distinct = distinct calls")
    try:
        rs = RSpec(ctx.repo)
    except Exception as e:
        corr.errors.append(f"cannot read the radii source tables: {e!r}")
        return corr
    for msg in factor_sanity():
        corr.failures.append({"stream": "oracle", "case": {"kind": "factor"}, "what": msg, "observed": msg})
    idents = identifiers(ctx, rs)
    # history first: related identifiers (int, float, digit/decimal/blank strings, labels spelt validly and invalidly) in both orders
    groups = run_sequences(ctx, rs, corr)
    ctx.log(f"history sequences: {corr.streams.get('history-sequences', 0)} get() calls over {len(groups)} groups x 2 orders; {len(corr.failures)} failures")
    have = {(type(x).__name__, x) for _s, x in idents}
    for g in groups:  # the members also go through the model below
        for x in g:
            if not isinstance(x, float) and (type(x).__name__, x) not in have:
                have.add((type(x).__name__, x))
                idents.append(("history-members", x))
    memo = {}
    terms, meta = [], []
    fallback = Sentinel(4.25)
    nident = 0
    plan = []   # (stream, identifier, covalent?, [(missing, return_tuple, units)])
    for stream, x in idents:
        for cov in (True, False):
            fbs = fallbacks()
            combos = [(None, False, u) for u in UNITS] + [(fbs[(j + nident) % len(fbs)], False, u) for j, u in enumerate(UNITS)] + \
                     [(None, True, "bohr"), (fallback, True, "angstrom"), (0.0, True, "bohr")]
            if not ctx.thorough:  # quick tier: two fallbacks (one of them falsy: 0.0 / -0.0 / 0 in turn) with two of the five units
                combos = [(None, False, u) for u in UNITS] + [(fallback, False, "bohr"), (fbs[1 + nident % 3], False, "pm"),
                                                              (None, True, "bohr"), (fbs[nident % len(fbs)], True, "angstrom")]
            nident += 1
            if stream == "history-members":
                combos = [(None, False, "bohr"), (fallback, False, "angstrom"), (None, True, "bohr")]
            if nident % 2:
                # every other identifier: the option combinations in a random order (Datum before number, fallback before
                # no-fallback, one unit before another): an answer must not depend on the options of an earlier call
                ctx.rng.shuffle(combos)
                corr.hit("options_in_random_order")
            plan.append((stream, x, cov, combos))
    # every fallback value (truthy, falsy, both zeros, int/float, negative, huge) for every element, tabulated or not,
    # both radius sets, return_tuple on and off
    for z, e, n in rs.pt.elements:
        for x in ([e, z, n.lower()] if ctx.thorough else [e] + ([z] if z % 4 == 0 else [])):
            for cov in (True, False):
                plan.append(("fallbacks", x, cov, [(fb, rt, "bohr") for fb in fallbacks() for rt in (False, True)]))
    ndep = 0    # failures whose dependence on earlier calls has been worked out (the first ones; the rest carry no history)
    for stream, x, cov, combos in plan:
        for missing, rt, units in combos:
            upto = len(_CALLS[cov])
            out = impl_get(cov, x, missing, rt, units)
            memo[(cov, type(x).__name__, x, enc_missing(missing), rt, units)] = repr(out)
            corr.count(stream)
            if missing is not None and not missing:
                corr.hit("falsy_fallback_given")
            if out[0] == "Ok" and out[1] is not missing:
                corr.nontriv([stream, cov, repr(x), rt, units, missing is not None])
                corr.hit("datum" if rt else "value")
            elif out[0] == "Ok":
                corr.hit("fallback")
            else:
                corr.hit("raised_" + out[1])
            exp = rs.expect(cov, x)     # which branch of the model's get answers this call
            if exp[0] == "entry":
                corr.hit("model_ident_exact_key" if isinstance(x, str) and x == exp[1] else "model_ident_via_to_E")
                if "_" in exp[1]:
                    corr.hit("model_special_label")
                elif exp[4] is None:
                    corr.hit("model_generic_alias_entry")
                corr.hit("model_return_datum" if rt else "model_return_number")
            elif exp[0] == "nodata":
                corr.hit("model_nodata_fallback" if (missing is not None and not rt) else "model_nodata_raise")
            else:
                corr.hit("model_not_an_element")
            bad = oracle(rs, cov, x, missing, rt, units, out)
            case = _case(cov, x, missing, rt, units, c01.collide_history(x))
            if bad:
                if ndep < 25:
                    # which earlier calls does the failure need?  tried on fresh objects the way a replay would issue them
                    ndep += 1
                    case["history"], case["history_reproduces"] = dependent_history(rs, cov, x, missing, rt, units, upto, c01.collide_history(x))
                corr.failures.append({"stream": "oracle", "case": case, "what": bad, "observed": repr(out)})
            if isinstance(x, str) and not x.isascii():
                continue
            want = rexp_term(out, missing)
            if want is None:
                if not bad:
                    corr.failures.append({"stream": "oracle", "case": case, "what": "non-canonical result type", "observed": repr(out)})
                continue
            f = factor(rs.units[cov], units)
            terms.append(f"({cbool(cov)}, {c01.cval(x)}, {cbool(missing is not None)}, {cbool(rt)}, {cq(Fraction(f))}, {want})")
            meta.append((stream, case, out))
            if ctx.rng.random() < 0.00015:
                corr.sample({"case": case, "implementation": repr(out)})
    corr.sample({"case": {"table": "covalent", "atom": "c", "units": "bohr"}, "implementation": repr(impl_get(True, "c", None, False, "bohr"))})
    nf = len(corr.failures)
    run_history_replay(ctx, rs, corr, memo, idents, fallback)
    # per stream the first failure becomes the replay file: prefer one whose recorded history was seen to reproduce on a fresh object
    corr.failures.sort(key=lambda d: {True: 0, None: 1, False: 2}[d["case"].get("history_reproduces") if isinstance(d.get("case"), dict) else None])
    ctx.log(f"history replay: {corr.streams.get('history-replay', 0)} get() calls re-issued after {corr.streams.get('history-makers', 0)} "
            f"history-makers; {len(corr.failures) - nf} failures")
    ctx.log(f"{len(terms)} get() calls through the implementation and the oracle ({len(corr.failures)} oracle failures); evaluating the model")
    bad, errors = c01.eval_cases("C17", REQ, "check_get", terms, max(300, len(terms) // 48 + 1), "bool * pyval * bool * bool * Q * rexp")
    corr.errors.extend(f"shard {k}: {e}" for k, e in errors)
    for b in bad[:8]:
        stream, case, out = meta[b]
        corr.disagreements.append({"stream": stream, "case": case, "impl": repr(out), "model": "check_get = false: " + terms[b][:300]})
    if len(bad) > 8:
        corr.notes.append(f"{len(bad)} model/implementation disagreements in total")

    # the default call get(atom) (Bohr) against the CODATA-tied model: tabulated / bohr2angstroms, exact rationals
    import qcelemental
    year = radii.load(ctx.repo)["codata_year"]
    try:
        shipped = {r[0]: r[3] for r in codata.read_shipped(ctx.repo, year)["rows"]}
        b2a = Fraction(Decimal(shipped["bohr radius"])) * 10 ** 10
    except Exception as e:  # noqa: BLE001
        corr.errors.append(f"cannot read the CODATA {year} table: {e!r}")
        b2a = None
    bterms, bmeta = [], []
    cobj, vobj = _objs()
    done = set()
    for stream, x, cov, _combos in plan:
        k = (cov, type(x).__name__, x)
        if k in done or stream == "fallbacks" or (isinstance(x, str) and not x.isascii()):
            continue
        done.add(k)
        try:
            out = ("Ok", (cobj if cov else vobj).get(x))
        except Exception as e:  # noqa: BLE001
            out = ("Err", type(e).__name__)
        corr.count("default-bohr")
        case = _case(cov, x, None, False, "bohr", c01.collide_history(x))
        exp = rs.expect(cov, x)
        if b2a is not None and exp[0] == "entry":
            want = Fraction(Decimal(exp[3])) / b2a
            if not (out[0] == "Ok" and isinstance(out[1], float) and abs(Fraction(out[1]) - want) <= want * Fraction(1, 2 ** 50)):
                if oracle(rs, cov, x, None, False, "bohr", out) and not _judge_fresh(rs, cov, x, None, False, "bohr", case["history"]):
                    case["history"], case["history_reproduces"] = dependent_history(rs, cov, x, None, False, "bohr", len(_CALLS[cov]), c01.collide_history(x))
                corr.failures.append({"stream": "oracle", "case": case, "observed": repr(out),
                                      "what": f"default result {out!r} is not tabulated {exp[3]} / bohr2angstroms (CODATA{year} Bohr radius x 1e10) = {float(want)!r} within 2^-50"})
        if out[0] == "Ok" and isinstance(out[1], float) and math.isfinite(out[1]):
            bterms.append(f"({cbool(cov)}, {c01.cval(x)}, (Ok {cq(Fraction(out[1]))}))")
        elif out[0] == "Err":
            bterms.append(f"({cbool(cov)}, {c01.cval(x)}, (Err {EK.get(out[1], 'PyAssertion')}))")
        else:
            continue
        bmeta.append((case, out))
    bad, errors = c01.eval_cases("C17bohr", REQU, "check_bohr", bterms, max(200, len(bterms) // 16 + 1), "bool * pyval * outcome Q")
    corr.errors.extend(f"default-bohr shard {k}: {e}" for k, e in errors)
    for b in bad[:5]:
        corr.disagreements.append({"stream": "default-bohr", "case": bmeta[b][0], "impl": repr(bmeta[b][1]),
                                   "model": "not within 2^-50 of tabulated / bohr2angstroms: " + bterms[b][:200]})
    # the singleton's CODATA set and its bohr2angstroms float
    cname, cb2a = qcelemental.constants.name, qcelemental.constants.bohr2angstroms
    corr.count("bohr2angstroms")
    if cname != f"CODATA{year}" or not isinstance(cb2a, float) or (b2a is not None and Fraction(cb2a) != Fraction(float(b2a))):
        corr.failures.append({"stream": "oracle", "case": {"kind": "factor"}, "observed": [cname, repr(cb2a)],
                              "what": f"constants is {cname} with bohr2angstroms {cb2a!r}; expected CODATA{year} and the double nearest to Bohr radius x 1e10"})
    if isinstance(cb2a, float) and cname.startswith("CODATA") and cname[6:].isdigit():
        m, e = c01.fdecomp(cb2a)
        bad, errors = c01.eval_cases("C17b2a", REQU, "check_b2a", [f"({c01.czb(int(cname[6:]))}, ({c01.czb(m)}, {c01.czb(e)}))"], 10, "Z * (Z * Z)")
        corr.errors.extend(f"b2a shard {k}: {e}" for k, e in errors)
        if bad:
            corr.disagreements.append({"stream": "bohr2angstroms", "case": {"kind": "factor"}, "impl": [cname, repr(cb2a)],
                                       "model": "context year / nearest double of the model's bohr2angstroms differ"})

    # the constructed dictionaries, entry by entry, and their key sets
    c, v = _objs()
    eterms, emeta, kterms = [], [], []
    for cov, dct in ((True, c.cr), (False, v.vdwr)):
        kterms.append(f"({cbool(cov)}, {clist(list(dct.keys()), cstr)})")
        for k, dat in dct.items():
            corr.count("table-entries")
            cc, ee = dec_tuple(dat.data)
            eterms.append(f"({cbool(cov)}, {cstr(k)}, {cstr(dat.label)}, {cstr(dat.units)}, ({c01.czb(cc)}, {c01.czb(ee)}), {cstr(dat.comment)})")
            emeta.append((cov, k))
            exp = rs.expect(cov, k)
            if exp[0] != "entry" or Decimal(exp[3]).as_tuple() != dat.data.as_tuple() or dat.units != rs.units[cov]:
                corr.failures.append({"stream": "oracle", "case": {"table": "covalent" if cov else "vdw", "atom": k, "missing": None,
                                                                   "return_tuple": True, "units": "angstrom"},
                                      "what": f"constructed entry {k} = {dat!r} is not the source value {exp!r}", "observed": repr(dat)})
    bad, errors = c01.eval_cases("C17tab", REQ, "check_entry", eterms, 200, "bool * string * string * string * (Z * Z) * string")
    corr.errors.extend(f"table shard {k}: {e}" for k, e in errors)
    for b in bad[:5]:
        corr.disagreements.append({"stream": "table-entries", "case": {"table": emeta[b][0], "key": emeta[b][1]}, "impl": eterms[b], "model": "differs"})
    bad, errors = c01.eval_cases("C17keys", REQ, "check_keys", kterms, 10, "bool * list string")
    corr.errors.extend(f"keys shard {k}: {e}" for k, e in errors)
    corr.count("table-keys", len(kterms))
    for b in bad:
        corr.disagreements.append({"stream": "table-keys", "case": {"table": b}, "impl": kterms[b][:400], "model": "key sets differ"})

    # Datum.to_units
    from qcelemental import Datum
    uterms = []
    units_pairs = [(a, b) for a in UNITS for b in UNITS] + [("hartree", "eV"), ("eV", "hartree"), ("kcal/mol", "kJ/mol"), ("hartree", "kcal/mol")]
    payloads = [0.0, 1.0, -2.5, 0.31, 1.0e-7, 123456.789, Decimal("0.76"), Decimal("1.61"), Decimal("-3"), Decimal("12.5000")]
    for _ in range(40 if ctx.thorough else 10):
        payloads.append(ctx.rng.uniform(-1e3, 1e3))
        payloads.append(Decimal(str(round(ctx.rng.uniform(0, 5), 3))))
    for a, b in units_pairs:
        f = factor(a, b)
        for p in payloads:
            corr.count("to_units")
            r = safe_to_units(a, p, b)
            want = f * float(p)
            case = {"kind": "to_units", "from": a, "to": b, "payload": repr(p)}
            if not isinstance(r, float) or r.hex() != want.hex():
                corr.failures.append({"stream": "oracle", "case": case, "what": f"to_units gave {r!r}, not conversion_factor*float(data) = {want!r}", "observed": repr(r)})
            elif a == b and r.hex() != float(p).hex():
                corr.failures.append({"stream": "oracle", "case": case, "what": f"same-unit to_units changed the value: {r!r}", "observed": repr(r)})
            if isinstance(r, float) and math.isfinite(r):
                uterms.append(f"({cq(Fraction(f))}, {cq(Fraction(p))}, {cq(Fraction(r))})")
        arr = np.array([[0.5, -1.25, 3.0], [ctx.rng.uniform(-9, 9), 0.0, 1e-3]])
        r = safe_to_units(a, arr, b)
        corr.count("to_units")
        if not (isinstance(r, np.ndarray) and r.shape == arr.shape and np.array_equal(r, f * arr)):
            corr.failures.append({"stream": "oracle", "case": {"kind": "to_units", "from": a, "to": b, "payload": arr.tolist()},
                                  "what": "array payload is not scaled elementwise by the factor", "observed": repr(r)})
        for p in [arr.copy(), np.array([1.0, 2.0, 4.0]), payloads[3], payloads[6], payloads[-1], payloads[-2]]:
            corr.count("to_units-repeat")
            msg = to_units_repeat(a, b, p)
            if msg:
                corr.failures.append({"stream": "oracle", "case": {"kind": "to_units_repeat", "from": a, "to": b,
                                                                   "payload": p.tolist() if isinstance(p, np.ndarray) else repr(p)},
                                      "what": msg, "observed": msg})
        r0 = safe_to_units(a, arr)
        if not (isinstance(r0, np.ndarray) and np.array_equal(r0, arr)):
            corr.failures.append({"stream": "oracle", "case": {"kind": "to_units", "from": a, "to": None, "payload": arr.tolist()},
                                  "what": "to_units() without target changed the data", "observed": repr(r0)})
    # array payloads of every numeric dtype / shape / memory layout (outside the Gallina model; oracle only)
    t0 = time.time()
    descs = array_payloads(ctx.rng)
    nfa, afail = 0, []
    for j, (a, b) in enumerate(units_pairs):
        # every (dtype, layout) with the length-unit pairs that change the unit; a rotating fifth of them with the others
        for i, desc in enumerate(descs):
            if not (ctx.thorough or (a != b and a in UNITS) or (i + j) % 5 == 0):
                continue
            corr.count("to_units-arrays")
            corr.hit("array_payload_kind_" + np.dtype(desc["dtype"]).kind)
            msg = array_to_units_check(a, b, desc)
            if msg:
                nfa += 1
                afail.append({"stream": "oracle", "case": dict(desc, kind="to_units_array", **{"from": a, "to": b}), "what": msg, "observed": msg})
    # wrong numbers before wrong result types, integer payloads before the other kinds, small payloads first
    afail.sort(key=lambda d: (0 if ": element " in d["what"] else 1, "iufcb".index(np.dtype(d["case"]["dtype"]).kind), len(d["case"]["values"]) or 99))
    corr.failures.extend(afail[:40])
    ctx.log(f"to_units on array payloads: {corr.streams.get('to_units-arrays', 0)} conversions over {len(descs)} (dtype, shape, layout) payloads "
            f"in {time.time() - t0:.1f}s; {nfa} failures")
    bad, errors = c01.eval_cases("C17units", REQ, "check_to_units", uterms, 500, "Q * Q * Q")
    corr.errors.extend(f"to_units shard {k}: {e}" for k, e in errors)
    for b in bad[:5]:
        corr.disagreements.append({"stream": "to_units", "case": {"term": uterms[b]}, "impl": uterms[b], "model": "not within tolerance of factor*data"})
    corr.exhaustive = False
    corr.notes.append('elements, alias forms, labels, units, missing and return_tuple are enumerated exhaustively; nuclide labels per element, mixed-case spellings and invalid identifiers are sampled')
    return corr


# ------------------------------------------------------------------------------------------------
# Datum.to_units on array payloads (outside the Gallina model: oracle only).  Every numeric dtype kind and width, both byte
# orders, 0-d .. 2-d, empty, Fortran-ordered, strided, transposed and read-only arrays.
ARRAY_DTYPES = ["?", "i1", "u1", "i2", "u2", "i4", "u4", "i8", "u8", ">i2", ">i4", ">u8", "f4", ">f4", "f8", ">f8", "c8", "c16", ">c16"]
ARRAY_LAYOUTS = [("0d", ()), ("C", (1,)), ("C", (4,)), ("C", (2, 3)), ("F", (3, 2)), ("strided", (5,)), ("strided", (2, 2)),
                 ("transposed", (2, 3)), ("readonly", (3,)), ("C", (0,)), ("C", (0, 3)), ("F", (2, 0))]
# relative error allowed against the exact rational product: the factor is rounded to the result's precision (float32 results
# only) and the product is rounded once; int -> float64 conversion of a 64-bit integer is one more rounding.  Each rounding
# is at most 2^-24 (float32) resp. 2^-53 (float64) relative; the bounds below leave a factor >= 2 of margin.
ARRAY_TOL = {4: Fraction(1, 2 ** 22), 8: Fraction(1, 2 ** 51)}


def array_values(rng, dtype, n):
    """n Python scalars representable exactly in `dtype` (complex as [re, im]); radii-like numbers, the extremes of the
    integer types, both signs, zeros; float magnitudes kept far from under/overflow for every factor used"""
    dt = np.dtype(dtype)
    k = dt.kind
    if k == "b":
        return [int(rng.random() < 0.6) for _ in range(n)]
    if k in "iu":
        info = np.iinfo(dt)
        pool = [31, 76, 152, 203, 1, 0, 120, 7, info.max, info.min, info.max - 1, info.max // 3]
        pool += [-31, -1, -152] if k == "i" else [2, 99]
        pool = [v for v in pool if info.min <= v <= info.max]
        return [pool[(j + rng.randrange(3)) % len(pool)] if j < 4 else rng.choice(pool + [rng.randrange(max(info.min, -10 ** 6), min(info.max, 10 ** 6) + 1)])
                for j in range(n)]

    def fl():
        v = rng.choice([0.31, 0.76, 1.52, 2.03, -1.25, 0.0, -0.0, 123456.789, 1.0e-7, rng.uniform(-1e3, 1e3), rng.uniform(-9, 9) * 10.0 ** rng.randrange(-9, 9)])
        return float(np.dtype(dt.str[1:] if k == "f" else ("f4" if dt.itemsize == 8 else "f8")).type(v))   # exactly representable in the dtype
    if k == "f":
        return [fl() for _ in range(n)]
    return [[fl(), fl()] for _ in range(n)]


def build_array(desc):
    """the array a case describes: dtype string (byte order included), shape, layout, flat values in C order"""
    dt = np.dtype(desc["dtype"])
    shape = tuple(desc["shape"])
    vals = desc["values"]
    if dt.kind == "c":
        vals = [complex(re, im) for re, im in vals]
    base = np.array(vals, dtype=dt).reshape(shape)
    lay = desc["layout"]
    if lay == "0d" or lay == "C":
        arr = base
    elif lay == "F":
        arr = np.asfortranarray(base)
    elif lay == "strided":                       # every other element along the last axis of a wider buffer
        big = np.zeros(shape[:-1] + (2 * shape[-1],), dtype=dt)
        big[..., ::2] = base
        arr = big[..., ::2]
    elif lay == "transposed":
        arr = np.ascontiguousarray(base.T).T
    elif lay == "readonly":
        arr = base.copy()
        arr.setflags(write=False)
    else:
        raise ValueError(f"unknown layout {lay!r}")
    assert arr.shape == shape and arr.dtype == dt
    return arr


def array_payloads(rng, dtypes=None):
    out = []
    for dtype in (dtypes or ARRAY_DTYPES):
        for lay, shape in ARRAY_LAYOUTS:
            n = int(np.prod(shape)) if shape else 1
            out.append({"dtype": dtype, "shape": list(shape), "layout": lay, "values": array_values(rng, dtype, n)})
    return out


def _items(a):
    """exact Python scalars of an array / numpy scalar, in C order, complex split into two floats"""
    a = np.asarray(a)
    flat = [x.item() for x in a.reshape(-1)] if a.ndim else [a.item()]
    out = []
    for v in flat:
        out.extend([v.real, v.imag] if isinstance(v, complex) else [v])
    return out


def _same_bits(x, y):
    x, y = np.asarray(x), np.asarray(y)
    if x.shape != y.shape or x.dtype.kind != y.dtype.kind or x.dtype.itemsize != y.dtype.itemsize:
        return False
    nat = x.dtype.newbyteorder("=")
    return np.ascontiguousarray(x.astype(nat)).tobytes() == np.ascontiguousarray(y.astype(nat)).tobytes()


def array_to_units_check(a, b, desc):
    try:
        return _array_to_units_check(a, b, desc)
    except Exception as e:  # noqa: BLE001 - an exception from Datum / to_units is itself the finding
        return f"Datum construction / to_units raised {type(e).__name__}: {e}"


def _array_to_units_check(a, b, desc):
    """Datum('x', a, <array>).to_units(b) against (1) the exact rational product factor x element, element by element, within
    the rounding of the result's precision, (2) the result type the payload calls for (integers and booleans are promoted to
    float64, float32/64 and complex64/128 keep their precision), (3) the identical IEEE product recomputed here, bit for bit;
    the conversion is repeated (same answer), to_units() in the own unit returns the numbers unchanged, and afterwards the
    payload / the Datum's data are untouched and share no memory with the results.  Returns None or a description."""
    from qcelemental import Datum
    p = build_array(desc)
    keep = build_array(desc)
    kept_bytes = np.ascontiguousarray(keep).tobytes()
    f = factor(a, b)
    d = Datum("x", a, p)
    k, size = p.dtype.kind, p.dtype.itemsize
    want_kind = "c" if k == "c" else "f"
    want_size = size if k in "fc" else 8
    comp = want_size // 2 if want_kind == "c" else want_size      # bytes per real component
    tol = ARRAY_TOL[comp]
    exact_in = [Fraction(v) for v in _items(keep)]
    results = []
    for rep in range(2):
        r = d.to_units(b)
        results.append(r)
        ra = np.asarray(r)
        if not isinstance(r, (np.ndarray, np.generic)):
            return f"conversion #{rep + 1}: result is a {type(r).__name__}, not an array"
        if ra.shape != p.shape:
            return f"conversion #{rep + 1}: shape {ra.shape}, payload has {p.shape}"
        got = _items(ra)
        if not all(math.isfinite(g) for g in got):
            return f"conversion #{rep + 1}: non-finite result {got[:6]}"
        for j, (g, x) in enumerate(zip(got, exact_in)):
            ex = Fraction(f) * x
            if abs(Fraction(g) - ex) > tol * abs(ex):
                return (f"conversion #{rep + 1}: element {j} is {g!r}, but factor({a}->{b}) = {f!r} times the payload's {float(x)!r} is "
                        f"{float(ex)!r} (beyond {float(tol):.1e} relative)")
        if ra.dtype.kind != want_kind or ra.dtype.itemsize != want_size:
            return (f"conversion #{rep + 1}: result dtype {ra.dtype}, expected a {'complex' if want_kind == 'c' else 'float'} of {want_size} bytes "
                    f"for a {p.dtype} payload (values {_items(ra)[:6]})")
        if not _same_bits(r, f * keep):
            return f"conversion #{rep + 1}: result {got[:6]} is not the IEEE product factor * data = {_items(f * keep)[:6]}"
        if a == b and got != [float(v) for v in _items(keep)]:
            return f"conversion #{rep + 1}: same-unit conversion changed the numbers: {got[:6]}"
    r0 = d.to_units()
    if np.shape(r0) != p.shape or _items(r0) != [float(v) for v in _items(keep)]:
        return f"to_units() in the Datum's own unit changed the numbers: {_items(r0)[:6]} vs {_items(keep)[:6]}"
    for name, arr in (("the caller's array", p), ("the Datum's data", d.data)):
        if not isinstance(arr, np.ndarray) or arr.dtype != keep.dtype or arr.shape != keep.shape or np.ascontiguousarray(arr).tobytes() != kept_bytes:
            return f"after the conversions {name} changed: {arr!r}"
    for r in results + [r0]:
        if isinstance(r, np.ndarray) and r.size and (np.shares_memory(r, p) or any(r is q for q in results + [r0] if q is not r)):
            return "to_units returned memory shared with the payload (later writes would change the Datum)"
    return None


def to_units_repeat(a, b, p):
    try:
        return _to_units_repeat(a, b, p)
    except Exception as e:  # noqa: BLE001 - an exception from to_units is itself the finding
        return f"Datum construction / to_units raised {type(e).__name__}: {e}"


def safe_to_units(a, p, b=None):
    """Datum('x', a, p).to_units(b); an exception becomes a value that compares unequal to everything expected"""
    from qcelemental import Datum
    try:
        d = Datum("x", a, p)
        return d.to_units(b) if b is not None else d.to_units()
    except Exception as e:  # noqa: BLE001
        return RuntimeError(f"raised {type(e).__name__}: {e}")


def _to_units_repeat(a, b, p):
    """One Datum converted several times (history): every conversion must give the same answer as the first, the
    Datum's own data and the caller's payload object must be unchanged afterwards.  Returns None or a description."""
    from qcelemental import Datum
    is_arr = isinstance(p, np.ndarray)
    keep = p.copy() if is_arr else p
    d = Datum("x", a, p)
    f, fback = factor(a, b), factor(a, a)
    want = f * (keep if is_arr else float(keep))

    def same(r, w):
        if is_arr:
            return isinstance(r, np.ndarray) and r.shape == w.shape and np.array_equal(r, w)
        return isinstance(r, float) and r.hex() == float(w).hex()

    for k in range(3):
        r = d.to_units(b)
        if not same(r, want):
            return f"conversion #{k + 1} of the same Datum gave {r!r}, expected factor*data = {want!r}"
        r0 = d.to_units()
        if not same(r0, fback * (keep if is_arr else float(keep))):
            return f"after {k + 1} conversion(s) to_units() in the Datum's own unit gives {r0!r}, data was {keep!r}"
        if is_arr:
            if not np.array_equal(d.data, keep) or not np.array_equal(p, keep):
                return f"after {k + 1} conversion(s) the Datum's data / the caller's array changed to {d.data!r}"
            if r is d.data or r is p:
                return "to_units returned the Datum's own array object (later writes would change the Datum)"
        elif type(d.data) is not type(keep) or d.data != keep or repr(d.data) != repr(keep):
            return f"after {k + 1} conversion(s) the Datum's data changed to {d.data!r}"
    return None


def _run_case(rs, case):
    if case.get("kind") == "factor":
        msgs = factor_sanity()
        return {"oracle": msgs[0] if msgs else None, "implementation": msgs}
    if case.get("kind") == "to_units_array":
        msg = array_to_units_check(case["from"], case["to"], case)
        return {"oracle": msg, "implementation": msg}
    if case.get("kind") == "to_units_repeat":
        p = case["payload"]
        if isinstance(p, str):
            p = Decimal(p[len("Decimal('"):-2]) if p.startswith("Decimal('") else float(p)
        elif isinstance(p, list):
            p = np.array(p)
        msg = to_units_repeat(case["from"], case["to"], p)
        return {"oracle": msg, "implementation": msg}
    if case.get("kind") == "to_units":
        from qcelemental import Datum
        p = case["payload"]
        if isinstance(p, str):
            p = Decimal(p[len("Decimal('"):-2]) if p.startswith("Decimal('") else float(p)
        elif isinstance(p, list):
            p = np.array(p)
        r = safe_to_units(case["from"], p, case["to"])
        f = factor(case["from"], case["to"] or case["from"])
        want = f * (p if isinstance(p, np.ndarray) else float(p))
        ok = np.array_equal(r, want) if isinstance(p, np.ndarray) else (isinstance(r, float) and r.hex() == want.hex())
        return {"oracle": None if ok else f"to_units gave {r!r}, expected {want!r}", "implementation": repr(r)}
    cov = case["table"] == "covalent"
    missing = dec_missing(case)
    replay_history(cov, case.get("history"))   # earlier calls (complete, or bare history-makers): their own answers are not judged
    out = impl_get(cov, case["atom"], missing, case["return_tuple"], case["units"])
    return {"oracle": oracle(rs, cov, case["atom"], missing, case["return_tuple"], case["units"], out), "implementation": repr(out)}


def search(ctx, corr, reasons):
    found = []
    try:
        rs = RSpec(ctx.repo)
    except Exception:
        return found
    cases = [d["case"] for d in corr.disagreements if isinstance(d.get("case"), dict) and "atom" in d["case"]]
    for z, e, n in rs.pt.elements:
        for x in (z, str(z), e, e.lower(), e.upper(), n, n.lower(), n.upper()):
            for cov in (True, False):
                for units in UNITS:
                    cases.append({"table": "covalent" if cov else "vdw", "atom": x, "missing": None, "return_tuple": False, "units": units})
                cases.append({"table": "covalent" if cov else "vdw", "atom": x, "missing": 4.25, "return_tuple": False, "units": "bohr"})
                for mv, mk in ((0.0, "float"), (-0.0, "float"), (0, "int")):
                    cases.append({"table": "covalent" if cov else "vdw", "atom": x, "missing": mv, "missing_kind": mk,
                                  "return_tuple": False, "units": "bohr"})
                cases.append({"table": "covalent" if cov else "vdw", "atom": x, "missing": None, "return_tuple": True, "units": "bohr"})
    for case in cases:
        cov = case.get("table") == "covalent"
        upto = len(_CALLS[cov])
        r = _run_case(rs, case)
        if r["oracle"]:
            if "atom" in case and len(found) < 3:
                m = dec_missing(case)
                if not _judge_fresh(rs, cov, case["atom"], m, case["return_tuple"], case["units"], case.get("history") or []):
                    case = dict(case)
                    case["history"], case["history_reproduces"] = dependent_history(rs, cov, case["atom"], m, case["return_tuple"], case["units"], upto,
                                                                                    c01.collide_history(case["atom"]))
            found.append({"stream": "search", "case": case, "what": r["oracle"], "observed": r["implementation"]})
            if len(found) >= 5:
                break
    return found


def replay(ctx, rp):
    rs = RSpec(ctx.repo)
    r = _run_case(rs, rp["case"])
    return {"case": rp["case"], "implementation": r["implementation"], "oracle": r["oracle"], "fails": bool(r["oracle"])}


KNOWN = {}

TECHNIQUE = ("Coq proof over an executable Gallina model of both radii tables and get() on top of the C01 periodic-table model (unbounded over "
             "identifiers, fallbacks and factors; whole-table facts by vm_compute over the regenerated tables) + exhaustive differential correspondence")
DESIGN_REF = "DESIGN.md §6 C17"
LEVEL_TEXT = (
    "Machine-checked (Coq 8.16.1) theorems about Model/Radii.v over tables regenerated from /repo on every run: C17_radius_by_element (ANY identifier "
    "whose element symbol is e gets exactly the answer of e — every fallback, return form, factor, both sets) and C17_alias_invariant_radius (every "
    "periodic-table row x int/digit string/symbol/name x any letter case, via C01's lemmas); C17_special_labels_own_entry / C17_vdw_rows_own_entry "
    "(every source row returns its own Datum and factor x value); C17_bare_element_is_largest_variant (C, Mn, Fe, Co); C17_bohr2angstroms_from_codata and "
    "C17_default_is_tabulated_over_bohr2angstroms (the default result is the tabulated Angstrom decimal divided by Bohr radius x 10^10 of the "
    "default CODATA set, as exact rationals, for ALL identifiers; the implementation's float is within 2^-50 relative of it); units: "
    "C17_value_is_tabulated_times_factor, C17_native_unit_exact, C17_linear_in_factor, C17_all_entries_native_unit, C17_datum_carries_source_value "
    "(exact rational arithmetic, the factor being the one the implementation reports); C17_missing_contract (non-atom -> NotAnElementError; atom "
    "without entry -> exactly the caller's fallback, parametrically in its type, or DataUnavailableError; atom with entry never the fallback) and "
    "C17_fails_closed. Wave 3: C17_generated_get_is_model, C17_generated_to_units (both get methods and Datum.to_units TRANSLATED from the source on "
    "every run equal the hand model for all tables, identifiers, fallbacks, return forms, factors; default unit bohr), C17_public_missing_contract "
    "(the contract on the generated entry points), C17_tabulated_value_by_any_name (any name of the element -> the source row's Datum and factor x "
    "value, both sets), C17_untabulated_element_contract (every periodic-table row without entry x alias forms x cases), C17_non_atom_rejected, "
    "C17_special_labels_are_variants, C17_special_label_wrong_case_rejected. Wave 4: C17_generated_init_is_model (the table construction of both "
    "__init__ methods, TRANSLATED on every run, is lookup-equal to the hand-written tables for ANY source tables and list-equal on the shipped ones; translated "
    "__init__ + translated get = model), C17_item_assignment_loop (d[k] = v in a loop = last assignment wins, all rows/keys/values), "
    "C17_every_variant_bounded_by_its_bare_element (every special label E_xxx has a bare entry E with a value >= its own). Tied to the implementation by exhaustive differential execution of get() (all elements x alias forms x cases x 5 units x "
    "missing x return_tuple x both sets, all labels, invalid names), of the constructed dictionaries entry by entry, and of Datum.to_units; the "
    "property oracle (source tables read independently, largest variant recomputed, bit-exact IEEE product) runs on the implementation's answers.")
LEVEL_NOTE = (
    "Clause map (full version at the top of coq/Props/C17.v): (a) any name -> tabulated value of the element: C17_radius_by_element, "
    "C17_alias_invariant_radius, C17_tabulated_value_by_any_name; (b) special labels / largest variant: C17_special_labels_own_entry, "
    "C17_bare_element_is_largest_variant, C17_every_variant_bounded_by_its_bare_element, C17_special_labels_are_variants, "
    "C17_special_label_wrong_case_rejected; (c) units: "
    "C17_default_is_tabulated_over_bohr2angstroms, C17_bohr2angstroms_from_codata, C17_native_unit_exact, C17_linear_in_factor, "
    "C17_datum_carries_source_value; (d) missing contract: C17_missing_contract, C17_untabulated_element_contract, C17_non_atom_rejected, "
    "C17_public_missing_contract, C17_fails_closed; (e) public entry points = model: C17_generated_get_is_model, C17_generated_to_units, "
    "C17_generated_init_is_model, C17_item_assignment_loop. OUT OF THE MODEL (oracle only): Datum.to_units on array payloads (every numeric dtype / shape / "
    "memory layout; exact rational product, result type, bit-exact product, repeatability, no aliasing). ONLY "
    "correspondence/oracle: float rounding of scalar Datum.to_units, absence of state between calls (history streams), pydantic "
    "construction, unit factors other than Angstrom->Bohr. "
    "Trusted: Coq kernel + vm_compute; the fail-closed translators; the combinator reading of the Python constructs of get/to_units "
    "(Model/RadiiGlue.v, Model/RadiiInit.v); the C01 model it builds on; the hand-written tables of __init__ are proved equal to the translated construction. The unit factor is an input (pint/CODATA conversion is C03's subject): theorems are relative to it and the oracle sanity-checks the "
    "five factors used. Floating point: the model is exact; implementation floats are compared within 2^-51 relative and bit-exactly in the Python "
    "oracle. Datum validation (pydantic) and array payloads are covered by the oracle only. No axioms (all theorems closed under the global context).")
