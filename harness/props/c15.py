"""C15 — fragment extraction and composition bookkeeping.

Correspondence of Model/Fragment.v + Model/Formula.v with Molecule.get_fragment / nelectrons /
nuclear_repulsion_energy / get_molecular_formula and molutil.molecular_formula_from_symbols, and the property
oracle (conservation predicates) evaluated directly on the implementation."""
import contextlib
import io
import itertools
import math
import random
from fractions import Fraction

import numpy as np

from .. import coqrun
from ..core import Corr
from ..coqrun import cz, cnat, cstr, clist, copt, cbool
from ..translate import fragglue

PID = "C15"
ALLOWED_AXIOMS = set()
EXTRA_TARGETS = ["Model/Fragment.vo", "Model/Formula.vo"]
REQ = ["QV.Common.Outcome", "QV.Model.ChgMult", "QV.Model.Fragment"]
REQF = ["QV.Common.Outcome", "QV.Model.Formula"]


OMIT = "omit"        # an optional argument that the call does not pass (JSON-able, so that a replay can redo the call)


def translate(ctx):
    fragglue.generate(ctx.repo)


# ------------------------------------------------------------------------------------------------
# the implementation

def _mm():
    import qcelemental.models.molecule as mm
    return mm


class _CtorTap:
    """Stands in for the module-level name `Molecule` inside qcelemental.models.molecule while get_fragment runs,
    to observe the keyword arguments it hands to the constructor."""

    def __init__(self, real_cls):
        self.real_cls = real_cls
        self.calls = []

    def __call__(self, *a, **kw):
        self.calls.append(dict(kw))
        return self.real_cls(*a, **kw)

    def __getattr__(self, name):
        return getattr(self.real_cls, name)


@contextlib.contextmanager
def ctor_tapped():
    mm = _mm()
    tap = _CtorTap(mm.Molecule)
    old = mm.Molecule
    mm.Molecule = tap
    try:
        yield tap
    finally:
        mm.Molecule = old


def ekind(e):
    from qcelemental.exceptions import ValidationError
    if isinstance(e, ValidationError):
        return "Validation"
    return {"TypeError": "PyTypeError", "IndexError": "PyIndexError", "ValueError": "PyValueError", "KeyError": "PyKeyError",
            "AssertionError": "PyAssertion", "AttributeError": "PyAttributeError"}.get(type(e).__name__, "Other:" + type(e).__name__)


def quiet(f, *a, **k):
    with contextlib.redirect_stdout(io.StringIO()):
        return f(*a, **k)


def build(spec):
    from qcelemental.models import Molecule
    return quiet(Molecule, **spec)


ARG_CONTAINERS = ["tuple", "nparray", "npints", "range", "npbool_flags"]


def _as_arg(x, container):
    """a non-empty index list in another container the call accepts as well (tuple / integer array / numpy integers / range)"""
    import copy
    if not isinstance(x, list) or not x or container in (None, "npbool_flags"):
        return copy.deepcopy(x)
    if container == "tuple":
        return tuple(x)
    if container == "nparray":
        return np.array(x, dtype=np.int64 if len(x) % 2 else np.int16)
    if container == "npints":
        return [np.int32(i) if k % 2 else np.int64(i) for k, i in enumerate(x)]
    if container == "range" and x == list(range(x[0], x[0] + len(x))):
        return range(x[0], x[0] + len(x))
    return tuple(x)


def _back(x):
    if isinstance(x, (tuple, range, np.ndarray)) or (isinstance(x, list) and any(isinstance(i, np.integer) for i in x)):
        return [int(i) for i in x]
    return x


def call_get_fragment(m, real, ghost, group, orient, container=None):
    """-> (constructor kwargs or None, molecule or None, exception kind or None, were the caller's lists left alone).
    ghost / group / orient may be OMIT (or None for group / orient): then the argument is not passed and the default applies.
    container: hand the index lists over as a tuple / numpy array / numpy integers / range, the flags as numpy booleans."""
    args = [_as_arg(real, container)]
    kwargs = {}
    if ghost != OMIT:
        kwargs["ghost"] = _as_arg(ghost, container)
    if container == "npbool_flags":
        orient = np.bool_(orient) if isinstance(orient, bool) else orient
        group = np.bool_(group) if isinstance(group, bool) else group
    if orient not in (OMIT, None):
        kwargs["orient"] = orient
    if group not in (OMIT, None):
        kwargs["group_fragments"] = group
    with ctor_tapped() as tap:
        try:
            sub = quiet(m.get_fragment, *args, **kwargs)
            err = None
        except Exception as e:
            sub, err = None, ekind(e)
    kw = tap.calls[0] if tap.calls else None
    untouched = _back(args[0]) == real and _back(kwargs.get("ghost", ghost)) == ghost
    return kw, sub, err, untouched


def cfsel(x):
    return f"(SInt {cnat(x)})" if isinstance(x, int) else f"(SList {clist(list(x), cnat)})"


# ------------------------------------------------------------------------------------------------
# rendering

def cqf(x):
    fr = Fraction(float(x))
    return f"(({fr.numerator})%Z # {fr.denominator})"


def as_int(x):
    if isinstance(x, (int, np.integer)) and not isinstance(x, bool):
        return int(x)
    x = float(x)
    if not x.is_integer():
        raise ValueError("fractional charge is outside the modelled domain")
    return int(x)


def catom(sym, Z, mass, xyz, real):
    return ("{| a_sym := %s; a_Z := %s; a_mass := %s; a_x := %s; a_y := %s; a_z := %s; a_real := %s |}" % (
        cstr(sym), cz(Z), cqf(mass), cqf(xyz[0]), cqf(xyz[1]), cqf(xyz[2]), cbool(bool(real))))


def cpmol_parts(symbols, masses, geom, real, frags, fc, fm, c, m):
    from qcelemental import periodictable
    geom = np.asarray(geom, dtype=float).reshape(-1, 3)
    atoms = [catom(str(s), periodictable.to_Z(str(s)), masses[i], geom[i], real[i]) for i, s in enumerate(symbols)]
    return ("{| p_atoms := %s; p_frags := %s; p_fc := %s; p_fm := %s; p_c := %s; p_m := %s |}" % (
        clist(atoms), clist(frags, lambda f: clist([int(i) for i in f], cnat)), clist([as_int(x) for x in fc], cz),
        clist([as_int(x) for x in fm], cz), cz(as_int(c)), cz(as_int(m))))


def cpmol(m):
    return cpmol_parts(m.symbols, m.masses, m.geometry, m.real, m.fragments, m.fragment_charges, m.fragment_multiplicities,
                       m.molecular_charge, m.molecular_multiplicity)


def ccdict(kw):
    from qcelemental import periodictable
    geom = np.asarray(kw["geometry"], dtype=float).reshape(-1, 3)
    syms = [str(s) for s in kw["symbols"]]
    atoms = [catom(s, periodictable.to_Z(s), kw["masses"][i], geom[i], kw["real"][i]) for i, s in enumerate(syms)]
    cm = None
    if "molecular_charge" in kw or "molecular_multiplicity" in kw:
        cm = f"({cz(as_int(kw['molecular_charge']))}, {cz(as_int(kw['molecular_multiplicity']))})"
    return ("{| d_atoms := %s; d_frags := %s; d_fc := %s; d_fm := %s; d_cm := %s |}" % (
        clist(atoms), clist(kw["fragments"], lambda f: clist([int(i) for i in f], cnat)),
        clist([as_int(x) for x in kw["fragment_charges"]], cz), clist([as_int(x) for x in kw["fragment_multiplicities"]], cz),
        "None" if cm is None else f"(Some {cm})"))


def cerr(kind):
    return f"(Err {kind})" if not kind.startswith("Other:") else "(Err PyAssertion)"


# ------------------------------------------------------------------------------------------------
# generators

SYMS = ["H", "He", "Li", "C", "N", "O", "F", "Ne", "Na", "Cl"]
ISOTOPE = {"H": 2.01410177812, "C": 13.00335483507, "O": 17.99915961286, "He": 3.0160293201, "Li": 6.0151228874}


def gen_parent(rng, nfr=None):
    """a specification for a validated parent with nfr fragments (contiguous, in order)"""
    nfr = nfr or rng.choice([1, 2, 2, 3, 3, 4, 5])
    sizes = [rng.choice([1, 1, 2, 3]) for _ in range(nfr)]
    nat = sum(sizes)
    syms = [rng.choice(SYMS) for _ in range(nat)]
    geom = []
    for i in range(nat):
        geom += [2.0 * (i % 3) + round(rng.uniform(-0.4, 0.4), rng.choice([1, 2, 3, 5])),
                 2.0 * ((i // 3) % 3) + round(rng.uniform(-0.4, 0.4), rng.choice([1, 2, 4])),
                 2.5 * (i // 9) + round(rng.uniform(-0.4, 0.4), rng.choice([0, 1, 3, 6]))]
    bounds = list(itertools.accumulate([0] + sizes))
    spec = {"symbols": syms, "geometry": geom, "fragments": [list(range(bounds[i], bounds[i + 1])) for i in range(nfr)]}
    r = rng.random()
    if r < 0.45:
        real = [rng.random() < 0.75 for _ in range(nat)]
        if not any(real):
            real[rng.randrange(nat)] = True
        spec["real"] = real
    if rng.random() < 0.35:
        from qcelemental import periodictable
        spec["masses"] = [ISOTOPE[s] if (s in ISOTOPE and rng.random() < 0.6) else periodictable.to_mass(s) for s in syms]
    if rng.random() < 0.6:
        spec["fragment_charges"] = [float(rng.choice([0, 0, 0, 1, -1, 2])) for _ in range(nfr)]
    if rng.random() < 0.3:
        spec["fragment_multiplicities"] = [rng.choice([None, None, 1, 2, 3]) for _ in range(nfr)]
        if all(x is None for x in spec["fragment_multiplicities"]):
            spec.pop("fragment_multiplicities")
    if nfr == 1 and rng.random() < 0.65:
        # a molecule of one fragment usually does not say so: the validated object then stores no fragment list at all
        # (the raw field is None; `fragments` answers [[0..n-1]]) and every call below runs against that state
        spec.pop("fragments")
    return spec


def subset_pairs(rng, nfr, limit):
    """ordered pairs (real, ghost) of disjoint subsets of range(nfr), each subset in some order"""
    out = []
    for assign in itertools.product([0, 1, 2], repeat=nfr):          # 0 absent, 1 real, 2 ghost
        real = [i for i, a in enumerate(assign) if a == 1]
        ghost = [i for i, a in enumerate(assign) if a == 2]
        if nfr <= 3:
            for pr in itertools.permutations(real):
                for pg in itertools.permutations(ghost):
                    out.append((list(pr), list(pg)))
        else:
            out.append((real, ghost))
            rr, gg = real[:], ghost[:]
            rng.shuffle(rr)
            rng.shuffle(gg)
            out.append((rr, gg))
    if len(out) > limit:
        keep = sorted(rng.sample(range(len(out)), limit))
        out = [out[k] for k in keep]
    return out


# ------------------------------------------------------------------------------------------------
# the property oracle on one extraction

def atoms_of(m):
    g = np.asarray(m.geometry, dtype=float).reshape(-1, 3)
    return [(str(m.symbols[i]), float(m.masses[i]), tuple(float(x) for x in g[i]), bool(m.real[i])) for i in range(len(m.symbols))]


def oracle_fragment(parent, real, ghost, group, orient, sub):
    """conservation predicates; returns None or a description. `real`/`ghost` are lists of valid, distinct, disjoint indices."""
    P = atoms_of(parent)
    S = atoms_of(sub)
    fr = [[int(i) for i in f] for f in parent.fragments]
    chosen = [(f, True) for f in real] + [(f, False) for f in ghost]
    if group:
        order = chosen
    else:
        order = sorted(chosen, key=lambda t: t[0])
    # expected atom list
    if group:
        exp = [(P[i][0], P[i][1], P[i][2], flag) for f, flag in order for i in fr[f]]
    else:
        flag_of = {f: flag for f, flag in chosen}
        at2fr = {i: f for f, idx in enumerate(fr) for i in idx}
        exp = [(P[i][0], P[i][1], P[i][2], flag_of[at2fr[i]]) for i in range(len(P)) if at2fr[i] in flag_of]
    if len(S) != len(exp):
        return f"sub-molecule has {len(S)} atoms, the chosen fragments have {len(exp)}"
    for k, (s, e) in enumerate(zip(S, exp)):
        if s[0] != e[0]:
            return f"atom {k}: symbol {s[0]} instead of {e[0]}"
        if abs(s[1] - e[1]) > 1e-9:
            return f"atom {k}: mass {s[1]} instead of {e[1]}"
        if s[3] != e[3]:
            return f"atom {k}: real flag {s[3]} instead of {e[3]}"
        if not orient and max(abs(a - b) for a, b in zip(s[2], e[2])) > 1.1e-8:
            return f"atom {k}: coordinates {s[2]} instead of {e[2]}"
    if orient:
        # rigid motion: all pair distances preserved
        for i in range(len(S)):
            for j in range(i):
                if abs(math.dist(S[i][2], S[j][2]) - math.dist(exp[i][2], exp[j][2])) > 1e-6:
                    return f"orient changed the distance between atoms {j} and {i}"
    # fragments of the sub-molecule hold exactly the parent's fragments' atoms
    sfr = [[int(i) for i in f] for f in sub.fragments]
    if len(sfr) != len(order):
        return f"{len(sfr)} fragments instead of {len(order)}"
    for k, (f, flag) in enumerate(order):
        got = [(S[i][0], S[i][1]) for i in sfr[k]]
        want = [(P[i][0], P[i][1]) for i in fr[f]]
        if got != want:
            return f"fragment {k} does not hold the atoms of the parent's fragment {f}"
        c, mlt = float(sub.fragment_charges[k]), sub.fragment_multiplicities[k]
        if flag:
            if c != float(parent.fragment_charges[f]) or mlt != parent.fragment_multiplicities[f]:
                return f"real fragment {k}: (charge, multiplicity) = ({c}, {mlt}) instead of the parent's"
        elif c != 0.0 or mlt != 1:
            return f"ghost fragment {k} is not neutral singlet: ({c}, {mlt})"
    if sorted(i for f in sfr for i in f) != list(range(len(S))):
        return "fragments of the sub-molecule do not partition its atoms"
    tot_c = sum(float(parent.fragment_charges[f]) for f in real)
    tot_m = sum(parent.fragment_multiplicities[f] - 1 for f in real) + 1
    if float(sub.molecular_charge) != tot_c:
        return f"total charge {sub.molecular_charge} is not the sum over the real fragments {tot_c}"
    if sub.molecular_multiplicity != tot_m:
        return f"total multiplicity {sub.molecular_multiplicity} is not the high-spin sum over the real fragments {tot_m}"
    return None


def oracle_electrons(m):
    from qcelemental import periodictable
    Z = [periodictable.to_Z(str(s)) for s in m.symbols]
    zeff = [z * int(bool(r)) for z, r in zip(Z, m.real)]
    if list(m.atomic_numbers) != Z:
        return "atomic_numbers differ from the symbols' atomic numbers"
    tot = m.nelectrons()
    if tot != sum(zeff) - float(m.molecular_charge) or not isinstance(tot, int):
        return f"nelectrons() = {tot!r}, real nuclear charge minus charge = {sum(zeff) - float(m.molecular_charge)}"
    per = []
    for k, f in enumerate(m.fragments):
        n = m.nelectrons(k)
        want = sum(zeff[int(i)] for i in f) - float(m.fragment_charges[k])
        if n != want:
            return f"nelectrons({k}) = {n}, expected {want}"
        per.append(n)
    if abs(float(m.molecular_charge) - sum(float(x) for x in m.fragment_charges)) < 1e-9 and sum(per) != tot:
        return f"fragment electron counts {per} do not add up to {tot}"
    return None


def nre_reference(atoms):
    """real nuclei only, exact pair sum in double precision from the positions"""
    e = 0.0
    for i in range(len(atoms)):
        for j in range(i):
            if atoms[i][1] and atoms[j][1]:
                e += atoms[i][0] * atoms[j][0] / math.dist(atoms[i][2], atoms[j][2])
    return e


def oracle_nre(m, rng):
    from qcelemental import periodictable
    from qcelemental.models import Molecule
    g = np.asarray(m.geometry, dtype=float).reshape(-1, 3)
    at = [(periodictable.to_Z(str(m.symbols[i])), bool(m.real[i]), tuple(g[i])) for i in range(len(m.symbols))]
    e = m.nuclear_repulsion_energy()
    ref = nre_reference(at)
    if not math.isfinite(e) or abs(e - ref) > 1e-9 * max(1.0, abs(ref)):
        return f"nuclear_repulsion_energy() = {e!r}, real-nuclei pair sum = {ref!r}"
    for k, f in enumerate(m.fragments):
        ek = m.nuclear_repulsion_energy(k)
        refk = nre_reference([at[int(i)] for i in f])
        if abs(ek - refk) > 1e-9 * max(1.0, abs(refk)):
            return f"nuclear_repulsion_energy({k}) = {ek!r}, expected {refk!r}"
    # rigid motion and atom reordering (within each fragment, so that the molecule stays valid)
    th, ph = rng.uniform(0, 6.28), rng.uniform(0, 6.28)
    Rz = np.array([[math.cos(th), -math.sin(th), 0], [math.sin(th), math.cos(th), 0], [0, 0, 1]])
    Rx = np.array([[1, 0, 0], [0, math.cos(ph), -math.sin(ph)], [0, math.sin(ph), math.cos(ph)]])
    sgn = rng.choice([1.0, -1.0])                       # improper rotations too
    g2 = (g @ (Rz @ Rx).T) * np.array([1.0, 1.0, sgn]) + np.array([rng.uniform(-3, 3) for _ in range(3)])
    perm = []
    for f in m.fragments:
        idx = [int(i) for i in f]
        rng.shuffle(idx)
        perm += idx
    d = m.dict()
    d.pop("connectivity", None)
    for key in ("symbols", "masses", "real", "atom_labels", "atomic_numbers", "mass_numbers"):
        if key in d:
            d[key] = [np.asarray(d[key]).tolist()[i] for i in perm]
    d["geometry"] = g2[perm].ravel().tolist()
    d.pop("validated", None)
    try:
        m2 = quiet(Molecule, **d)
    except Exception as ex:
        return None if ekind(ex) == "Validation" else f"moved / reordered copy could not be built: {ex!r}"
    e2 = m2.nuclear_repulsion_energy()
    if abs(e2 - e) > 1e-6 * max(1.0, abs(e)):
        return f"nuclear repulsion energy changed under rigid motion + atom reordering: {e!r} -> {e2!r}"
    return oracle_nre_far(m)


FAR_SHIFTS = [(2 ** 7, (1, -2, 3)), (2 ** 10, (-3, 1, 2)), (2 ** 14, (1, 3, -1)), (2 ** 17, (-1, 2, 1)), (2 ** 20, (1, -1, 1))]


def oracle_nre_far(m):
    """pure translations over many decades (1e2 .. 1e6 bohr). The coordinates are first snapped to multiples of 1/256 (8 decimals and
    dyadic: the constructor's rounding leaves them alone) and the shifts are integers, so every translated coordinate is exact in
    binary64 and all coordinate differences are the same numbers: the energy, whole and per fragment, must not move (the pairwise
    sum reproduces it bit for bit; 1e-10 relative is allowed)."""
    from qcelemental.models import Molecule
    g = np.asarray(m.geometry, dtype=float).reshape(-1, 3)
    g0 = np.round(g * 256.0) / 256.0
    # coincident nuclei after snapping: nothing to compare
    for i in range(len(g0)):
        for j in range(i):
            if float(np.max(np.abs(g0[i] - g0[j]))) == 0.0:
                return None
    base = m.dict()
    base.pop("validated", None)
    base.pop("connectivity", None)

    def at(geom):
        d = dict(base)
        d["geometry"] = geom.ravel().tolist()
        return quiet(Molecule, **d)
    try:
        m0 = at(g0)
    except Exception as ex:
        return None if ekind(ex) == "Validation" else f"copy on the 1/256 grid could not be built: {ex!r}"
    if not np.array_equal(np.asarray(m0.geometry, dtype=float).reshape(-1, 3), g0):
        return None
    nf = len(m0.fragments)
    e0 = [m0.nuclear_repulsion_energy()] + [m0.nuclear_repulsion_energy(k) for k in range(nf)]
    if not all(math.isfinite(x) for x in e0):
        return None
    for scale, mult in FAR_SHIFTS:
        shift = np.array([float(scale * c) for c in mult])
        try:
            mt = at(g0 + shift)
        except Exception as ex:
            return None if ekind(ex) == "Validation" else f"translated copy could not be built: {ex!r}"
        if not np.array_equal(np.asarray(mt.geometry, dtype=float).reshape(-1, 3), g0 + shift):
            continue
        et = [mt.nuclear_repulsion_energy()] + [mt.nuclear_repulsion_energy(k) for k in range(nf)]
        for which, (x0, xt) in enumerate(zip(e0, et)):
            if not math.isfinite(xt) or abs(xt - x0) > 1e-10 * max(1.0, abs(x0)):
                name = "nuclear_repulsion_energy()" if which == 0 else f"nuclear_repulsion_energy({which - 1})"
                return (f"{name} changed under a pure translation by {shift.tolist()} bohr (coordinates exact in binary64): "
                        f"{x0!r} -> {xt!r} (relative {abs(xt - x0) / max(1.0, abs(x0)):.2e})")
    return None


def oracle_formula(symbols, order, out):
    """counts and ordering, from the output string alone"""
    import re
    from collections import Counter
    want = Counter(s.title() for s in symbols)
    items = re.findall(r"([A-Z][a-z]*)(\d*)", out)
    if "".join(k + n for k, n in items) != out:
        return "formula is not a sequence of element symbols with counts"
    got = {}
    for k, n in items:
        if k in got:
            return f"element {k} appears twice"
        if n in ("0", "1") or n.startswith("0"):
            return f"count suffix {n!r} on {k}"
        got[k] = int(n) if n else 1
    if got != dict(want):
        return f"counts {got} differ from the symbols' counts {dict(want)}"
    keys = [k for k, _ in items]
    if order.lower() == "hill" and "C" in want:
        rest = keys[1:]
        if keys[0] != "C":
            return "Hill order: carbon is not first"
        if "H" in want:
            if len(keys) < 2 or keys[1] != "H":
                return "Hill order: hydrogen is not second"
            rest = keys[2:]
        if rest != sorted(rest):
            return "Hill order: the remaining elements are not alphabetical"
    elif keys != sorted(keys):
        return "elements are not in alphabetical order"
    return None


# ------------------------------------------------------------------------------------------------

def safely(oracle, *a):
    """an oracle that cannot even be evaluated on the result (index out of range, wrong shapes) has found a malformed result"""
    try:
        return oracle(*a)
    except Exception as e:
        return f"the result is malformed: evaluating the conservation predicates raised {e!r}"


def history_check(parent, selections):
    """the parent is a value: extracting fragments and asking for electron counts / energies / formulas leaves it as it was,
    and asking again gives the same answers"""
    def answers():
        out = [parent.get_hash(), repr(parent.dict()), parent.nelectrons(), parent.nuclear_repulsion_energy(), parent.get_molecular_formula()]
        for k in range(len(parent.fragments)):
            out += [parent.nelectrons(k), parent.nuclear_repulsion_energy(k)]
        return [repr(x) for x in out]            # repr: a NaN energy (coincident nuclei) must compare equal to itself
    before = answers()
    subs = []
    for real, ghost, group, orient in selections:
        kw, sub, err, _ = call_get_fragment(parent, real, ghost, group, orient)
        subs.append(None if sub is None else sub.get_hash())
    if answers() != before:
        return "the parent molecule (or what it answers) changed while fragments were extracted from it"
    # the sub-molecules are values of their own: writing into every array / list a sub-molecule hands out (properties, dict() values),
    # and into what the parent hands out for fields it does not store, must not reach the parent
    from .c11 import MUT_PROPS, _mutate_in_place
    stored = parent.dict()
    for real, ghost, group, orient in selections:
        kw, sub, err, _ = call_get_fragment(parent, real, ghost, group, orient)
        if sub is None:
            continue
        undos = []
        try:
            for k in (0, 1, 5):
                for nm in MUT_PROPS:
                    undos.append(_mutate_in_place(getattr(sub, nm), k))
            for nm, v in sorted(sub.dict().items()):
                if isinstance(v, (np.ndarray, list, dict)):
                    undos.append(_mutate_in_place(v, 2))
            for nm in MUT_PROPS:
                if nm not in stored:
                    undos.append(_mutate_in_place(getattr(parent, nm), 1))
            try:
                changed = answers() != before
            except Exception:
                changed = True                   # the parent no longer even answers
        finally:
            for u in reversed(undos):
                if u is not None:
                    u()
        if changed:
            return (f"the parent molecule (or what it answers) changed after the arrays handed out by get_fragment({real}, {ghost})'s result "
                    "(and by the parent's properties for fields it does not store) were modified in place")
    for (real, ghost, group, orient), h in zip(selections, subs):
        kw, sub, err, _ = call_get_fragment(parent, real, ghost, group, orient)
        if (None if sub is None else sub.get_hash()) != h:
            return f"get_fragment({real}, {ghost}) gave another molecule when asked again"
    return None


def has_ghost_in_real_selection(parent, real):
    return any(not bool(parent.real[int(i)]) for f in real for i in parent.fragments[f])


def correspond(ctx):
    from qcelemental.exceptions import ValidationError
    from qcelemental.models import Molecule
    from qcelemental.molutil import molecular_formula_from_symbols, order_molecular_formula
    corr = Corr()
    corr.rule = ("validated parents with 1-5 fragments (ghost atoms, charged / open-shell fragments, isotopic masses) and unvalidated "
                 "parents with non-contiguous fragments x ordered pairs of disjoint fragment subsets (+ overlapping, out-of-range and "
                 "empty selections) x group_fragments x orient; a case is non-trivial if get_fragment returned a molecule; formula: all "
                 "symbol multisets up to size 6 over a 12-element alphabet in both orders; distinct = distinct inputs")
    rng = ctx.rng
    nparents = 400 if ctx.thorough else 70
    per_parent = 60 if ctx.thorough else 20
    fterms, fmeta = [], []
    eterms, emeta = [], []
    nterms, nmeta = [], []
    mterms, mmeta = [], []
    dterms, dmeta = [], []

    # what has been asked of each live parent so far: a failure that a fresh parent does not reproduce is recorded together with
    # the earlier calls that set up the state (shortest failing suffix, found by re-running in a fresh interpreter)
    live = {}
    deferred = []
    nhist = [0]

    def ops_of(parent):
        e = live.get(id(parent))
        if e is None or e[0] is not parent:
            e = (parent, [])
            live[id(parent)] = e
        return e[1]

    def fail(stream, case, what, observed, before=None):
        f = {"stream": stream, "case": case, "what": what, "observed": observed}
        if not before or "parent" not in case:
            corr.failures.append(f)
            return
        try:
            fresh = _replay_case(dict(case), random.Random(0))
        except Exception:
            fresh = {"fails": True}
        if fresh.get("fails"):
            corr.failures.append(f)               # a fresh parent fails alike: the case stands on its own
            return
        corr.hit("failure_depends_on_earlier_calls")
        nhist[0] += 1
        if nhist[0] > 4:
            deferred.append(f)
            return
        from .. import histseq
        steps = [{"parent": case["parent"], "op": o} for o in before] + [{"parent": case["parent"], "case": case}]
        hist, complaints, reproduced = histseq.minimal_history("c15", steps)
        if reproduced:
            corr.failures.append({"stream": stream + ":after_calls", "case": dict(case, after_calls=[st["op"] for st in hist[:-1]]),
                                  "what": what + " [on a live parent, after the recorded earlier calls]", "observed": observed})
        else:
            deferred.append(f)

    def add_formula_checks(m, case, before=None):
        """Molecule.get_molecular_formula with and without its arguments"""
        syms = [str(x) for x in m.symbols]
        for order, chgmult in [(None, None), ("alphabetical", None), ("hill", None), (rng.choice(["Hill", "HILL", "Alphabetical"]), False),
                               (None, True), ("hill", True), ("bad", None)]:
            kwargs = {}
            if order is not None:
                kwargs["order"] = order
            if chgmult is not None:
                kwargs["chgmult"] = chgmult
            try:
                out = m.get_molecular_formula(**kwargs)
                res = f"(Ok {cstr(out)})"
            except Exception as e:
                out, res = None, cerr(ekind(e))
            corr.count("get_molecular_formula")
            corr.hit("get_molecular_formula:" + ("order_default" if order is None else "order_given") + ","
                     + ("chgmult_default" if chgmult is None else f"chgmult_{chgmult}") + "," + ("ok" if out is not None else "error"))
            fcase = dict(case, molecular_formula={"order": order, "chgmult": chgmult})
            bad = None
            if order == "bad":
                if out is not None:
                    bad = "get_molecular_formula accepted an unsupported order"
            elif out is None:
                bad = "get_molecular_formula raised for a supported order"
            elif not chgmult:
                bad = oracle_formula(syms, order or "alphabetical", out)
            else:
                core = out.split("^")[-1].rstrip("+-")
                bad = oracle_formula(syms, order or "alphabetical", core)
            if bad:
                fail("oracle:get_molecular_formula", fcase, bad, out, before)
            try:
                mterms.append(f"({clist(syms, cstr)}, {cz(as_int(m.molecular_charge))}, {cz(as_int(m.molecular_multiplicity))}, "
                              f"{copt(order, cstr)}, {copt(chgmult, cbool)}, {res})")
                mmeta.append(fcase)
            except ValueError:
                corr.hit("outside_model_domain")

    def add_molecule_checks(m, label, case, before=None):
        """before: the calls made earlier on the live parent this molecule is (or was extracted from)"""
        if before is None and label != "sub":
            before = list(ops_of(m))
            ops_of(m).append({"op": "checks"})
        add_formula_checks(m, case, before)
        part = sorted(int(i) for f in m.fragments for i in f) == list(range(len(m.symbols)))
        corr.hit("fragments_partition_the_atoms" if part else "fragments_do_not_partition_the_atoms")
        bad = safely(oracle_electrons, m)
        corr.count("oracle:electrons")
        if bad:
            fail("oracle:electrons", case, bad, {}, before)
        try:
            e = m.nuclear_repulsion_energy()
            finite = math.isfinite(e)
        except Exception:
            finite = False
        if finite:
            bad = safely(oracle_nre, m, rng)
            corr.count("oracle:nre")
            if bad:
                fail("oracle:nre", case, bad, {}, before)
        try:
            pm = cpmol(m)
        except ValueError:
            corr.hit("outside_model_domain")
            return
        nf = len(m.fragments)
        try:
            et = f"({pm}, {cz(m.nelectrons())}, {clist([m.nelectrons(k) for k in range(nf)], cz)})"
            nt = None
            if finite:
                nt = f"({pm}, {cqf(e)}, {clist([m.nuclear_repulsion_energy(k) for k in range(nf)], cqf)}, (1 # 1000000000))"
        except Exception as ex:
            fail("oracle:electrons", case, f"nelectrons / nuclear_repulsion_energy per fragment raised {ex!r} on a molecule that was returned", {}, before)
            return
        eterms.append(et)
        emeta.append(case)
        corr.count("electrons")
        if nt:
            nterms.append(nt)
            nmeta.append(case)
            corr.count("nre")

    def run_case(parent, pspec, real, ghost, group, orient, stream, validated_parent=True, container=None):
        """group / orient None and ghost OMIT: the argument is left to its default"""
        case = {"parent": pspec, "real": real, "ghost": ghost, "group_fragments": group, "orient": orient, "validated_parent": validated_parent}
        if container:
            case["container"] = container
            corr.hit("call_container:" + container)
        before = list(ops_of(parent))
        ops_of(parent).append({"op": "get_fragment", "real": real, "ghost": ghost, "group_fragments": group, "orient": orient, "container": container})
        kw, sub, err, untouched = call_get_fragment(parent, real, ghost, group, orient, container)
        corr.count(stream)
        corr.hit("get_fragment_" + ("ok" if err is None else err))
        corr.hit("call:" + ("real_int" if isinstance(real, int) else "real_list") + ","
                 + ("ghost_omitted" if ghost == OMIT else "ghost_None" if ghost is None else "ghost_int" if isinstance(ghost, int) else "ghost_list")
                 + "," + ("group_default" if group is None else f"group_{group}") + "," + ("orient_default" if orient is None else f"orient_{orient}"))
        if not untouched:
            fail("oracle:" + stream, case, "get_fragment modified the caller's real / ghost lists", {}, before)
        group_eff = True if group is None else group          # the documented defaults
        orient_eff = False if orient is None else orient
        rl = [real] if isinstance(real, int) else list(real)
        gl = [] if ghost in (None, OMIT) else ([ghost] if isinstance(ghost, int) else list(ghost))
        nfr = len(parent.fragments)
        regular = (len(set(rl)) == len(rl) and len(set(gl)) == len(gl) and not (set(rl) & set(gl))
                   and all(0 <= f < nfr for f in rl + gl) and (rl or gl))
        unghosted = regular and has_ghost_in_real_selection(parent, rl)
        if sub is not None:
            corr.nontriv(case)
            corr.hit("scope:real_selection_contains_parent_ghost_atoms" if unghosted else "scope:real_selection_all_real")
            if regular:
                bad = safely(oracle_fragment, parent, rl, gl, group_eff, orient_eff, sub)
                if bad:
                    fail("oracle:" + stream, case, bad, {"sub": sub.dict().__repr__()[:600]}, before)
            if rng.random() < 0.15:
                add_molecule_checks(sub, "sub", case, before)
        else:
            # the only documented refusals: overlapping / bad selections, and — when parent ghost atoms are made real — a
            # charge / multiplicity that no longer fits the electron count
            ok_refusal = (not regular) or (err == "Validation" and (unghosted or not validated_parent))
            if not ok_refusal:
                fail("oracle:" + stream, case, f"get_fragment raised {err} for a regular selection on a valid parent", {"error": err}, before)
        # the model, through the public entry point's argument glue
        if any(f < 0 for f in rl + gl):
            corr.hit("negative_index_outside_model")
            return
        try:
            pm = cpmol(parent)
            if kw is None:
                ed = cerr(err)
            else:
                if not isinstance(kw.get("orient"), (bool, np.bool_)):
                    fail("oracle:" + stream, case, "get_fragment did not hand a boolean `orient` to the constructor", {"orient": repr(kw.get("orient"))}, before)
                    return
                ed = f"(Ok ({ccdict(kw)}, {cbool(bool(kw['orient']))}))"
            if sub is not None:
                geom = kw["geometry"] if kw["orient"] else sub.geometry
                em = "(Ok %s)" % cpmol_parts(sub.symbols, sub.masses, geom, sub.real, sub.fragments, sub.fragment_charges,
                                             sub.fragment_multiplicities, sub.molecular_charge, sub.molecular_multiplicity)
            else:
                em = cerr(err)
        except ValueError:
            corr.hit("outside_model_domain")
            return
        except (KeyError, IndexError, TypeError) as ex:
            corr.disagreements.append({"stream": "get_fragment", "case": case, "impl": f"the constructor arguments cannot be read: {ex!r}; keys {sorted(kw or {})}",
                                       "model": "symbols, geometry, masses, real, fragments, fragment_charges, fragment_multiplicities (+ totals when grouped)"})
            return
        gsel = "None" if ghost in (None, OMIT) else f"(Some {cfsel(ghost)})"
        fterms.append(f"({pm}, {cfsel(real)}, {gsel}, {copt(orient, cbool)}, {copt(group, cbool)}, {ed}, {em})")
        fmeta.append(case)

    # corpus: the docstring-style cases and the edge cases found while building the check
    corpus_parent = {"symbols": ["He", "Ne", "H", "Li", "O"], "geometry": [0, 0, 0, 0, 0, 3, 2, 0, 0, 2, 2, 0.5, 0, 2, 2.25],
                     "fragments": [[0], [1, 2], [3, 4]], "fragment_charges": [0.0, 1.0, -1.0], "real": [True, False, True, True, True]}
    p0 = build(corpus_parent)
    for real, ghost in [([0], []), ([1], [0]), ([2, 0], [1]), ([], [1]), ([0], [0]), ([5], []), ([], []), (0, 2), ([1, 2], None), ([2], [1, 0])]:
        for group in (True, False):
            for orient in (False, True):
                run_case(p0, corpus_parent, real, ghost, group, orient, "corpus")
    # argument forms and defaults of the public call: bare indices (0 included), ghost absent / None, options left to their defaults
    for real, ghost in [(0, OMIT), (2, OMIT), ([1], 0), (1, 0), ([2, 0], OMIT), ([0], 2), (2, [0, 1]), ([1, 2], 0), ([2, 1], None)]:
        for group, orient in [(None, None), (None, False), (True, None), (False, None), (None, True)]:
            run_case(p0, corpus_parent, real, ghost, group, orient, "corpus_call_forms")
    add_molecule_checks(p0, "corpus", {"parent": corpus_parent})
    # parents whose overall multiplicity is below the high-spin combination of their open-shell fragments
    for lowspin in ({"symbols": ["Li", "Li"], "geometry": [0, 0, 0, 0, 0, 5], "fragments": [[0], [1]], "fragment_charges": [0.0, 0.0],
                     "fragment_multiplicities": [2, 2], "molecular_multiplicity": 1},
                    {"symbols": ["Li", "Na", "N"], "geometry": [0, 0, 0, 0, 0, 5, 0, 5, 0], "fragments": [[0], [1], [2]],
                     "fragment_charges": [0.0, 1.0, 0.0], "fragment_multiplicities": [2, 1, 4], "molecular_charge": 1.0, "molecular_multiplicity": 3}):
        pl = build(lowspin)
        nl = len(pl.fragments)
        for sel in itertools.permutations(range(nl)):
            for group in (True, False, None):
                run_case(pl, lowspin, list(sel), OMIT, group, False, "corpus_low_spin")
        for sel in itertools.combinations(range(nl), nl - 1):
            run_case(pl, lowspin, list(sel), [i for i in range(nl) if i not in sel], True, False, "corpus_low_spin")
        add_molecule_checks(pl, "corpus", {"parent": lowspin})

    # parents of exactly one fragment that do not list it (nothing stored in the raw fragment fields): every selection incl.
    # ghost-only, every argument form, both paths, orient
    for single in ({"symbols": ["O", "H", "H"], "geometry": [0, 0, 0, 0, 1.5, 1.1, 0, -1.5, 1.1]},
                   {"symbols": ["He", "Li"], "geometry": [0, 0, 0, 0, 0, 4.5], "real": [False, True]},
                   {"symbols": ["N"], "geometry": [0.25, 0, 0], "molecular_charge": 1.0, "molecular_multiplicity": 3}):
        ps = build(single)
        corr.hit("single_fragment_parent_fragments_" + ("not_stored" if ps.__dict__.get("fragments_") is None else "stored"))
        for real, ghost in [([0], []), ([], [0]), (0, OMIT), ([0], OMIT), ([0], None), ([], 0), ([0], [0]), ([1], []), ([], [1]), ([], [])]:
            for group in (True, False, None):
                for orient in (False, True):
                    run_case(ps, single, real, ghost, group, orient, "corpus_single_fragment")
        add_molecule_checks(ps, "corpus", {"parent": single})

    nb = 0
    attempts = 0
    while nb < nparents and attempts < nparents * 8:
        attempts += 1
        spec = gen_parent(rng)
        try:
            parent = build(spec)
        except ValidationError:
            corr.hit("parent_rejected_Validation")
            continue
        # couple the open-shell fragments to less than high spin (an overall multiplicity the fragments do not add up to)
        hs = sum(int(x) - 1 for x in parent.fragment_multiplicities) + 1
        if hs >= 3 and rng.random() < 0.6:
            low = dict(spec, fragment_charges=[float(x) for x in parent.fragment_charges],
                       fragment_multiplicities=[int(x) for x in parent.fragment_multiplicities],
                       molecular_multiplicity=rng.choice(list(range(hs - 2, 0, -2))))
            try:
                parent, spec = build(low), low
                corr.hit("parent_below_high_spin")
            except ValidationError:
                corr.hit("parent_below_high_spin_rejected")
        nb += 1
        nfr = len(parent.fragments)
        corr.hit(f"parent_nfr_{nfr}")
        if parent.__dict__.get("fragments_") is None:
            corr.hit("parent_fragments_not_stored")
        if not all(bool(x) for x in parent.real):
            corr.hit("parent_with_ghost_atoms")
        if nb <= 2:
            corr.sample({"parent": spec})
        add_molecule_checks(parent, "parent", {"parent": spec})
        pairs = subset_pairs(rng, nfr, per_parent)
        sels = [[r, g, rng.choice([None, True, False]), False] for r, g in pairs[:5]]
        # ... and the selection of everything in the parent's order (the sub-molecule that could be the parent itself)
        sels.append([list(range(nfr)), OMIT if rng.random() < 0.5 else [], rng.choice([None, True, False]), False])
        bad = safely(history_check, parent, sels)
        corr.count("oracle:history")
        if bad:
            corr.failures.append({"stream": "oracle:history", "case": {"parent": spec, "history": sels}, "what": bad, "observed": {}})
        for real, ghost in pairs:
            group = rng.random() < 0.5
            orient = rng.random() < 0.25
            run_case(parent, spec, real, ghost, group, orient, "subsets")
            if rng.random() < 0.25:
                run_case(parent, spec, real, ghost, not group, False, "subsets")
            if rng.random() < 0.3:
                # the same selection in another argument form, options left to their defaults
                r2 = real[0] if len(real) == 1 and rng.random() < 0.7 else real
                g2 = OMIT if not ghost else (ghost[0] if len(ghost) == 1 and rng.random() < 0.7 else ghost)
                if not real:
                    g2 = ghost
                run_case(parent, spec, r2, g2, rng.choice([None, None, True, False]), rng.choice([None, None, False, True]), "call_forms")
            if rng.random() < 0.2:
                # the same selection handed over in another container (tuple / integer array / numpy integers / range / numpy booleans)
                run_case(parent, spec, real, ghost if ghost or rng.random() < 0.5 else OMIT, rng.choice([True, False]), rng.random() < 0.2,
                         "call_containers", container=rng.choice(ARG_CONTAINERS))
        # every fragment kept real, in the parent's order and in another one, both paths (the sub-molecule of everything: its
        # totals are still formed from the fragments)
        allr = list(range(nfr))
        perm = allr[:]
        rng.shuffle(perm)
        for sel_all in ([allr] if perm == allr else [allr, perm]):
            for group in (True, False, None):
                run_case(parent, spec, sel_all, rng.choice([OMIT, None, []]), group, False, "all_real")
        # irregular selections
        run_case(parent, spec, [0], [0], rng.random() < 0.5, False, "irregular")
        run_case(parent, spec, [nfr + rng.randrange(3)], [], rng.random() < 0.5, False, "irregular")
        run_case(parent, spec, [], [], rng.random() < 0.5, False, "irregular")
        run_case(parent, spec, rng.randrange(nfr), None, rng.random() < 0.5, False, "irregular")
        if nfr > 1:
            a, b = rng.sample(range(nfr), 2)
            run_case(parent, spec, a, b, None, None, "call_forms")
            run_case(parent, spec, [a], b, rng.choice([None, False]), None, "call_forms")

    # unvalidated parents with non-contiguous fragments (the index remap of the order-preserving path)
    nnc = 120 if ctx.thorough else 20
    done = 0
    tries = 0
    while done < nnc and tries < nnc * 10:
        tries += 1
        spec = gen_parent(rng, nfr=rng.choice([2, 3]))
        try:
            base = build(spec)
        except ValidationError:
            continue
        nat = len(base.symbols)
        if nat < 3:
            continue
        perm = list(range(nat))
        rng.shuffle(perm)
        inv = {old: new for new, old in enumerate(perm)}
        g = np.asarray(base.geometry).reshape(-1, 3)
        ncspec = {"symbols": [str(base.symbols[i]) for i in perm], "geometry": g[perm].ravel().tolist(),
                  "masses": [float(base.masses[i]) for i in perm], "real": [bool(base.real[i]) for i in perm],
                  "fragments": [[inv[int(i)] for i in f] for f in base.fragments],
                  "fragment_charges": [float(x) for x in base.fragment_charges],
                  "fragment_multiplicities": [int(x) for x in base.fragment_multiplicities],
                  "molecular_charge": float(base.molecular_charge), "molecular_multiplicity": int(base.molecular_multiplicity),
                  "validate": False}
        try:
            parent = quiet(Molecule, **ncspec)
        except Exception:
            continue
        done += 1
        corr.hit("noncontiguous_parent")
        nfr = len(parent.fragments)
        for real, ghost in subset_pairs(rng, nfr, 10):
            run_case(parent, ncspec, real, ghost, rng.random() < 0.5, False, "noncontiguous", validated_parent=False)
        add_molecule_checks(parent, "noncontiguous", {"parent": ncspec})

    ctx.log(f"{nb} validated + {done} non-contiguous parents; {len(fterms)} extractions, {len(eterms)} electron counts, {len(nterms)} repulsion energies for the model")

    # formulas: every multiset up to size 6 over a 12-element alphabet, both orders (+ case variants, bad order names)
    alphabet = ["H", "C", "N", "O", "He", "Cl", "Ca", "Co", "Cu", "Hf", "B", "Br"]
    maxk = 6 if ctx.thorough else 4
    gterms, gmeta = [], []
    hterms, hmeta = [], []
    for text in ["", "C2x3", "C12x3H2", "Cx2", "h2", "2C", "CO2h", "C007", "C0H", "HHH", "ClCl2Cl", "C-2", "A1b2C3", " C"]:
        for o2 in ("alphabetical", "hill", "Hill", "bad"):
            try:
                res = f"(Ok {cstr(order_molecular_formula(text, order=o2))})"
            except Exception as e:
                res = cerr(ekind(e))
            hterms.append(f"({cstr(text)}, {cstr(o2)}, {res})")
            hmeta.append({"formula": text, "order": o2})
            corr.count("order_formula")
    for k in range(0, maxk + 1):
        for combo in itertools.combinations_with_replacement(alphabet, k):
            syms = list(combo)
            rng.shuffle(syms)
            if rng.random() < 0.2:
                syms = [rng.choice([s.lower(), s.upper(), s]) for s in syms]
            for order in ("alphabetical", "hill"):
                o = order if rng.random() < 0.9 else rng.choice([order.upper(), order.title()])
                out = molecular_formula_from_symbols(syms, order=o)
                corr.count("formula")
                corr.nontriv(["formula", sorted(syms), order])
                bad = oracle_formula(syms, o, out)
                if not bad and out and order_molecular_formula(out, order=o) != out:
                    bad = "order_molecular_formula does not reproduce the formula it is given"
                if bad:
                    corr.failures.append({"stream": "oracle:formula", "case": {"symbols": syms, "order": o}, "what": bad, "observed": out})
                gterms.append(f"({clist(syms, cstr)}, {cstr(o)}, (Ok {cstr(out)}))")
                gmeta.append({"symbols": syms, "order": o})
                if order == "alphabetical" and rng.random() < 0.3:
                    # both functions called without `order`: the documented default is alphabetical
                    d1 = molecular_formula_from_symbols(syms)
                    d2 = order_molecular_formula(d1) if d1 else d1
                    corr.count("formula_default_order")
                    if d1 != molecular_formula_from_symbols(syms, order="alphabetical") or d2 != d1:
                        corr.failures.append({"stream": "oracle:formula", "case": {"symbols": syms, "order": None},
                                              "what": "the formula without an `order` argument is not the alphabetical one", "observed": [d1, d2]})
                    if d1:
                        dterms.append(f"({clist(syms, cstr)}, {cstr(d1)}, {cstr(d2)})")
                        dmeta.append({"symbols": syms, "order": None})
                if rng.random() < 0.35:
                    o2 = rng.choice(["alphabetical", "hill"])
                    re_out = order_molecular_formula(out, order=o2)
                    corr.count("order_formula")
                    if re_out != molecular_formula_from_symbols(syms, order=o2):
                        corr.failures.append({"stream": "oracle:formula", "case": {"symbols": syms, "order": o, "reorder": o2},
                                              "what": "order_molecular_formula of a formula differs from the formula of the symbols in that order", "observed": re_out})
                    hterms.append(f"({cstr(out)}, {cstr(o2)}, (Ok {cstr(re_out)}))")
                    hmeta.append({"formula": out, "order": o2})
    # element counts of two and more digits, zero digits included (10, 20, 100, 101, 110 ...): written whole, read back whole,
    # through molecular_formula_from_symbols, order_molecular_formula (both orders) and Molecule.get_molecular_formula
    big = [[("C", 10), ("H", 22)], [("C", 20), ("H", 42)], [("C", 60)], [("He", 101), ("Ne", 3)], [("H", 100)], [("Cl", 110), ("C", 1)],
           [("C", 10), ("H", 10), ("N", 10), ("O", 10)], [("Ca", 30), ("Co", 105), ("H", 2)]]
    for _ in range(16 if ctx.thorough else 6):
        els = rng.sample(alphabet, rng.choice([1, 2, 2, 3]))
        big.append([(el, rng.choice([10, 20, 30, 40, 50, 70, 90, 100, 101, 102, 109, 110, 120, rng.randint(10, 130)]) if j == 0 or rng.random() < 0.5
                     else rng.randint(1, 9)) for j, el in enumerate(els)])
    for comp in big:
        syms = [el for el, n in comp for _i in range(n)]
        rng.shuffle(syms)
        for order in ("alphabetical", "hill"):
            out = molecular_formula_from_symbols(syms, order=order)
            corr.count("formula_big_counts")
            corr.nontriv(["formula", sorted(comp), order])
            bad = oracle_formula(syms, order, out)
            if bad:
                corr.failures.append({"stream": "oracle:formula_big_counts", "case": {"symbols": syms, "order": order}, "what": bad, "observed": out})
            gterms.append(f"({clist(syms, cstr)}, {cstr(order)}, (Ok {cstr(out)}))")
            gmeta.append({"symbols": syms, "order": order})
            for o2 in ("alphabetical", "hill"):
                want = molecular_formula_from_symbols(syms, order=o2)
                corr.count("order_formula_big_counts")
                try:
                    re_out = order_molecular_formula(out, order=o2)
                    res, bad = f"(Ok {cstr(re_out)})", None
                    if re_out != want:
                        bad = f"order_molecular_formula of {out!r} in {o2} order is {re_out!r}, the formula of the same symbols is {want!r}"
                except Exception as e:
                    re_out, res = ekind(e), cerr(ekind(e))
                    bad = f"order_molecular_formula refused the written formula {out!r}: {e!r}"
                if bad:
                    corr.failures.append({"stream": "oracle:formula_big_counts", "case": {"symbols": syms, "order": order, "reorder": o2},
                                          "what": bad, "observed": re_out})
                hterms.append(f"({cstr(out)}, {cstr(o2)}, {res})")
                hmeta.append({"formula": out, "order": o2})
    for comp in big[:5]:
        syms = [el for el, n in comp for _i in range(n)]
        bspec = {"symbols": syms, "geometry": [c for i in range(len(syms)) for c in (2.5 * (i % 5), 2.5 * ((i // 5) % 5), 2.5 * (i // 25))]}
        try:
            bm = build(bspec)
        except ValidationError:
            corr.hit("big_count_molecule_rejected")
            continue
        corr.hit("big_count_molecule")
        add_formula_checks(bm, {"parent": bspec})

    for o in ("Hill ", "iupac", ""):
        try:
            molecular_formula_from_symbols(["H"], order=o)
            res = "(Ok \"\"%string)"
        except Exception as e:
            res = cerr(ekind(e))
        gterms.append(f"({clist(['H'], cstr)}, {cstr(o)}, {res})")
        gmeta.append({"symbols": ["H"], "order": o})
        corr.count("formula")

    def run(tag, req, fn, terms, meta, ty, shard, stream, show):
        bad, errors = coqrun.eval_bad_indices(tag, req, "", fn, terms, shard=shard, ty=ty)
        corr.errors.extend(f"{tag} shard {k}: {e}" for k, e in errors)
        for b in bad[:5]:
            got = None
            if show:
                got, _ = coqrun.eval_terms(tag, req, "", [show(terms[b])])
            corr.disagreements.append({"stream": stream, "case": meta[b], "impl": terms[b][-1500:], "model": got})

    run("C15frag", REQ, "check_fragment_pub", fterms, fmeta,
        "pmol * fsel * option fsel * option bool * option bool * outcome (cdict * bool) * outcome pmol", 150, "get_fragment",
        lambda t: f"let '(p, r, g, o, b, _, _) := {t} in (get_fragment_pub p r g o b, sub_molecule_pub p r g b)")
    run("C15molf", REQF, "check_mol_formula", mterms, mmeta, "list string * Z * Z * option string * option bool * outcome string", 600, "get_molecular_formula",
        lambda t: f"let '(s, c, m, o, b, _) := {t} in mol_formula s c m o b")
    run("C15dflt", REQF, "check_default_order", dterms, dmeta, "list string * string * string", 1500, "formula_default_order", None)
    run("C15elec", REQ, "check_electrons", eterms, emeta, "pmol * Z * list Z", 300, "nelectrons",
        lambda t: f"let '(p, _, _) := {t} in (nelectrons p, map (nelectrons_frag p) (seq 0 (List.length (p_frags p))))")
    run("C15nre", REQ, "check_nre", nterms, nmeta, "pmol * Q * list Q * Q", 150, "nre", None)
    run("C15form", REQF, "check_formula", gterms, gmeta, "list string * string * outcome string", 1500, "formula",
        lambda t: f"let '(s, o, _) := {t} in formula_from_symbols s o")
    run("C15ord", REQF, "check_order_formula", hterms, hmeta, "string * string * outcome string", 1500, "order_formula",
        lambda t: f"let '(s, o, _) := {t} in order_formula s o")
    corr.exhaustive = False
    if deferred:
        corr.hit("history_dependent_failures_not_minimised", len(deferred))
        if not corr.failures:
            corr.failures.extend(deferred)        # nothing reproducible was found: still report them
    return corr


def search(ctx, corr, reasons):
    return []


def _apply_op(parent, o):
    """one earlier call on a live parent (results and refusals are not looked at)"""
    try:
        if o.get("op") == "checks":
            safely(oracle_electrons, parent)
            parent.nuclear_repulsion_energy()
            parent.get_molecular_formula()
        else:
            call_get_fragment(parent, o["real"], o["ghost"], o["group_fragments"], o["orient"], o.get("container"))
    except Exception:
        pass


def run_history(steps):
    """harness/histseq.py: steps {"parent": spec, "op": call} ..., last {"parent": spec, "case": case}; all on ONE live parent built
    from the first step's spec; returns the oracle's complaints about the last step"""
    from qcelemental.models import Molecule
    parent = quiet(Molecule, **dict(steps[0]["parent"]))
    for st in steps[:-1]:
        _apply_op(parent, st["op"])
    last = steps[-1]
    if "case" not in last:
        _apply_op(parent, last["op"])
        return []
    r = _replay_case(dict(last["case"], after_calls=[]), random.Random(0), live_parent=parent)
    return [str(r.get("oracle") or "fails")] if r.get("fails") else []


def replay(ctx, rp):
    return _replay_case(rp["case"], ctx.rng)


def _replay_case(case, rng, live_parent=None):
    """re-run one recorded case; everything is judged anew by the oracles (nothing recorded is used as the expected value).
    case["after_calls"]: earlier calls to make on the same live parent first."""
    from qcelemental.models import Molecule
    from qcelemental.molutil import molecular_formula_from_symbols
    if "formula" in case:
        from qcelemental.molutil import order_molecular_formula
        try:
            out = order_molecular_formula(case["formula"], order=case["order"])
        except Exception as e:
            out = ekind(e)
        return {"input": case, "implementation": out, "fails": False}
    if "symbols" in case and "order" in case:
        if case["order"] is None:
            out = molecular_formula_from_symbols(case["symbols"])
            bad = None if out == molecular_formula_from_symbols(case["symbols"], order="alphabetical") else "default order is not alphabetical"
            bad = bad or oracle_formula(case["symbols"], "alphabetical", out)
            return {"input": case, "implementation": out, "oracle": bad, "fails": bool(bad)}
        out = molecular_formula_from_symbols(case["symbols"], order=case["order"])
        bad = oracle_formula(case["symbols"], case["order"], out)
        if not bad and case.get("reorder"):
            from qcelemental.molutil import order_molecular_formula
            want = molecular_formula_from_symbols(case["symbols"], order=case["reorder"])
            try:
                re_out = order_molecular_formula(out, order=case["reorder"])
                if re_out != want:
                    bad = f"order_molecular_formula of {out!r} gives {re_out!r}, the formula of the same symbols is {want!r}"
            except Exception as e:
                bad = f"order_molecular_formula refused the written formula {out!r}: {e!r}"
        return {"input": case, "implementation": out, "oracle": bad, "fails": bool(bad)}
    pspec = dict(case["parent"])
    parent = live_parent if live_parent is not None else quiet(Molecule, **pspec)
    for o in case.get("after_calls") or []:
        _apply_op(parent, o)
    target = parent
    sub = None
    if "history" in case:
        bad = safely(history_check, parent, case["history"])
        return {"input": case, "oracle": bad, "fails": bool(bad)}
    if "real" in case:
        kw, sub, err, untouched = call_get_fragment(parent, case["real"], case["ghost"], case["group_fragments"], case["orient"], case.get("container"))
        if not untouched:
            return {"input": case, "oracle": "get_fragment modified the caller's lists", "fails": True}
        if sub is None:
            rl = [case["real"]] if isinstance(case["real"], int) else list(case["real"])
            gl = [] if case["ghost"] in (None, OMIT) else ([case["ghost"]] if isinstance(case["ghost"], int) else list(case["ghost"]))
            nfr = len(parent.fragments)
            regular = (len(set(rl)) == len(rl) and len(set(gl)) == len(gl) and not (set(rl) & set(gl))
                       and all(0 <= f < nfr for f in rl + gl) and bool(rl or gl))
            unghosted = regular and has_ghost_in_real_selection(parent, rl)
            ok_refusal = (not regular) or (err == "Validation" and (unghosted or not case.get("validated_parent", True)))
            bad = None if ok_refusal else f"get_fragment raised {err} for a regular selection on a valid parent"
            return {"input": case, "implementation": {"error": err}, "oracle": bad, "fails": bool(bad)}
        target = sub
    if "molecular_formula" in case:
        mf = case["molecular_formula"]
        kwargs = {k: v for k, v in (("order", mf["order"]), ("chgmult", mf["chgmult"])) if v is not None}
        try:
            out = target.get_molecular_formula(**kwargs)
        except Exception as e:
            return {"input": case, "implementation": ekind(e), "fails": mf["order"] != "bad"}
        if mf["order"] == "bad":
            return {"input": case, "implementation": out, "fails": True}
        core = out.split("^")[-1].rstrip("+-") if mf["chgmult"] else out
        bad = oracle_formula([str(x) for x in target.symbols], mf["order"] or "alphabetical", core)
        return {"input": case, "implementation": out, "oracle": bad, "fails": bool(bad)}
    if sub is None:
        bad = safely(oracle_electrons, parent) or safely(oracle_nre, parent, rng)
        return {"input": case, "oracle": bad, "fails": bool(bad)}
    rl = [case["real"]] if isinstance(case["real"], int) else list(case["real"])
    gl = [] if case["ghost"] in (None, OMIT) else ([case["ghost"]] if isinstance(case["ghost"], int) else list(case["ghost"]))
    group_eff = True if case["group_fragments"] is None else case["group_fragments"]
    orient_eff = False if case["orient"] is None else case["orient"]
    bad = safely(oracle_fragment, parent, rl, gl, group_eff, orient_eff, sub) or safely(oracle_electrons, sub) or safely(oracle_nre, sub, rng)
    return {"input": case, "implementation": repr(sub.dict())[:1500], "oracle": bad, "fails": bool(bad)}


KNOWN = {}

TRUSTED = [
    "fail-closed translator harness/translate/fragglue.py -> coq/Gen/FragGlue.v (defaults of get_fragment / get_molecular_formula / "
    "molecular_formula_from_symbols / order_molecular_formula, supported order names, the (charge, multiplicity) given to ghost fragments; it also "
    "checks the argument-normalising prelude, the overlap test, the totals of the grouped path, the `ifr` tests and the constructor call)",
    "hand-written models coq/Model/Fragment.v (get_fragment both paths, nelectrons, the pair terms of nuclear_repulsion_energy) and "
    "coq/Model/Formula.v, tied by differential execution: the keyword arguments get_fragment hands to the Molecule constructor are "
    "observed (the module-level name `Molecule` is substituted by a recording wrapper during the call) and compared with the model, "
    "and so is the validated sub-molecule (through the C05 model `fill` for the charge / multiplicity validation)",
    "the square root in nuclear_repulsion_energy is outside exact arithmetic: the model produces the terms (Zeff_i Zeff_j, d2_ij); the "
    "implementation's float is checked to lie in a rational enclosure of sum w/sqrt(d2) (integer square roots at 30 digits, tolerance 1e-9)",
    "integer charges and multiplicities only; coordinates and masses are the exact rationals of the binary64 values (parents are generated "
    "with short decimal coordinates so that the constructor's 1e-8 rounding is the identity); str.title() on ASCII symbols",
    "the rest of the constructor's validation (from_schema / from_arrays: geometry, nuclei, units) is not modelled here (C04/C06); "
    "orient=True is compared before orientation (C16 covers the frame) and judged by the oracle through pair distances",
]
ASSUMPTIONS = [
    "the parent's fragments partition its atoms (partition_ok / disjoint_frags): true of every validated molecule; measured per run (branch hit fragments_partition_the_atoms)",
    "fragment selections are lists of distinct, in-range indices for the conservation theorems (overlapping, out-of-range and empty "
    "selections are modelled as the exceptions the code raises and compared in the correspondence)",
    "documented scope restriction (not a finding): get_fragment marks every atom of a real-selected fragment real, so parent ghost atoms "
    "inside such a fragment are un-ghosted (and the constructor may then refuse the charge / multiplicity); both kinds of selection are "
    "generated and counted separately (branch hits scope:*)",
]
TECHNIQUE = ("Coq proofs over hand-written Gallina models (list induction, permutations, ring identities over Q for rigid motions; the C05 "
             "theorems re-used for the sub-molecule's charges) + differential correspondence against the implementation")
DESIGN_REF = "DESIGN.md §6 C15"
LEVEL_TEXT = (
    "Machine-checked (Coq 8.16.1), for all parents / selections of the model: C15_atoms_conserved_grouped and _ungrouped (exactly the "
    "chosen fragments' atoms with symbols, masses, coordinates; real-first or parent order; flags by selection; every new fragment index "
    "list — including the at2fr/at2at remap of group_fragments=False — points at exactly the parent fragment's atoms; real fragments keep "
    "(c, m), ghost fragments (0, 1); totals = sum / high-spin over the real fragments), C15_fragment_bookkeeping (after the constructor's "
    "validation, via the C05 theorems: charges kept, c = sum, totals kept or high-spin, all-ghost fragments neutral singlets), "
    "C15_subsystem_validates_grouped (a regular grouped selection on a parent whose real-selected fragments are valid and free of parent "
    "ghost atoms is accepted, with totals = sum / high-spin of the real fragments; parities add), "
    "C15_electrons_per_fragment and C15_electrons_additive, C15_nre_real_only, C15_nre_rigid_invariant (any orthogonal matrix, proper or "
    "improper, + shift: every squared distance is preserved, by ring), C15_nre_reorder_invariant / C15_nre_sum_invariant (a permutation of "
    "the atoms permutes the terms, so every sum over them is unchanged), C15_nre_inv_sqrt_enclosure (the rational pair used to compare the implementation's float brackets 1/sqrt(d2)), "
    "C15_formula_counts and C15_formula_ordered (alphabetical / Hill), C15_formula_parse_roundtrip (string level: the two regular "
    "expressions of order_molecular_formula read the written formula back as exactly the (symbol, count) items, for symbols of the form "
    "upper-case letter + non-upper non-digit characters; C15_title_wellformed: title() writes every alphabetic symbol that way and is "
    "idempotent), C15_formula_ext (the formula depends only on the counts) and C15_order_formula_consistent (order_molecular_formula of a "
    "written formula = the formula of the same symbols in the requested order; hence idempotent), C15_subsystem_validates_ungrouped; "
    "wave 3: C15_fragment_bookkeeping_unconditional (no length side condition), C15_electrons_conserved_grouped / _grouped_per_fragment / "
    "_ungrouped (the sub-molecule has exactly the electrons of the real-selected fragments; totals of the order-preserving path are formed "
    "from the real-selected fragments), C15_public_defaults / C15_public_glue / C15_public_sub_molecule (Molecule.get_fragment with index-or-list "
    "arguments, absent ghost and generated defaults is the list-level function; orient only reaches the constructor), C15_nelectrons_ifr / "
    "C15_nre_ifr (the ifr argument incl. IndexError), C15_supported_orders, C15_molecule_formula (get_molecular_formula with its defaults). "
    "Tied to the code on every run by exact differential execution over validated parents with 1-5 fragments (ghost atoms, charged and "
    "open-shell fragments, isotopic masses), unvalidated parents with non-contiguous fragments, ordered pairs of disjoint fragment subsets, "
    "irregular selections, both group_fragments values and orient, every argument form of the public call (bare index incl. 0, list, ghost "
    "absent / None, options passed or left to their defaults; per-form hit counts), parents coupled below high spin (overall multiplicity "
    "not the high-spin combination of their open-shell fragments) with every fragment kept real in several orders on both paths, pure "
    "translations of the repulsion energy over 2^7..2^20 bohr on exactly representable coordinates (whole and per fragment, 1e-10 relative), "
    "Molecule.get_molecular_formula with and without order / "
    "chgmult, the formula functions without `order`, a history check (the parent and all its answers unchanged by extractions, incl. "
    "the selection of every fragment in the parent's order; unchanged after every array / list the extracted sub-molecules hand out — properties "
    "and dict() values — and what the parent hands out for fields it does not store has been modified in place; extractions "
    "repeatable; caller's lists untouched), the index lists handed over as tuple / integer array / numpy integers / range and the "
    "flags as numpy booleans (stream call_containers); single-fragment parents that do not list their fragment (raw fragment fields "
    "None; every selection incl. ghost-only and out-of-range, both paths, orient); nelectrons / nuclear_repulsion_energy whole and per fragment; every "
    "symbol multiset up to size 4 (quick) / 6 (thorough) over a 12-element alphabet in both orders; element counts of two and three digits "
    "incl. zero digits (10, 20, 100, 101, 110: written by molecular_formula_from_symbols / Molecule.get_molecular_formula, read back by "
    "order_molecular_formula in both orders); and by the conservation oracle "
    "evaluated directly on the implementation's results (incl. rigid motion + atom reordering of the repulsion energy).")
LEVEL_NOTE = (
    "Clause map: (1,2) exactly the chosen fragments' atoms, real-first or parent order: atoms_conserved_grouped/_ungrouped, "
    "fragment_bookkeeping_unconditional, public_defaults/glue/sub_molecule [full; orient: same constructor arguments, frame = C16 + oracle]; "
    "(3) ghost flags, neutral singlets, kept (c,m), totals from the real fragments: atoms_conserved_*, fragment_bookkeeping, "
    "electrons_conserved_ungrouped (totals), subsystem_validates_* [full; real selections containing parent ghosts are a documented scope "
    "restriction]; (4) electrons: electrons_per_fragment, electrons_additive, nelectrons_ifr, electrons_conserved_* [full]; (5) repulsion: "
    "nre_real_only, nre_rigid_invariant, nre_reorder_invariant, nre_sum_invariant, nre_ifr [terms level; the square root is outside the model: "
    "enclosure + correspondence]; (6) formula: formula_counts, formula_ordered, formula_parse_roundtrip, order_formula_consistent, "
    "supported_orders, molecule_formula [full]. "
    "Trusted: Coq kernel + vm_compute; the hand-written models; the translator of the argument glue; the harness. subsystem_validates is proved for both paths (for group_fragments=False under the "
    "hypothesis that the new fragments are contiguous and in order, which from_schema checks and validated parents guarantee); order_molecular_formula is modelled (order_formula: cut at upper-case letters, non-digits then digits, ignored "
    "remainder, ValueError when the text does not start with an upper-case letter) and compared on written formulas and irregular strings. The square root is outside the model: "
    "nuclear-repulsion theorems are about the multiset of (weight, squared distance) terms. Fractional charges outside the model. No axioms.")
