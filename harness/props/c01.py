"""C01 — periodic-table lookups: translators, correspondence of Model/PeriodicTable.v with
qcelemental.periodictable, and the property oracle (NIST SRD-144 raw JSON + the standard 18-column layout)
evaluated directly on the implementation."""
import math
import os
import string as _string
from decimal import Decimal
from fractions import Fraction

from .. import coqrun
from ..core import Corr, TranslateError
from ..coqrun import cz, cstr, clist, cbool
from ..translate import ptable, srd144, periodgroup, ptglue

PID = "C01"
ALLOWED_AXIOMS = set()
REQ = ["QV.Common.Outcome", "QV.Common.PyAscii", "QV.Model.PeriodicTable"]
REQF = REQ + ["QV.Model.PeriodicTableFloat"]
EXTRA_TARGETS = ["Model/PeriodicTable.vo", "Model/PeriodicTableFloat.vo"]

TRUSTED = [
    "translators harness/translate/ptable.py (shipped arrays -> Gen/PTable.v), srd144.py (raw NIST JSON strings and the literal "
    "data of build_periodic_table.py -> Gen/Srd144.v, verbatim), periodgroup.py (to_period/to_group ladders -> Gen/PeriodGroup.v), "
    "ptglue.py (__init__ dictionaries, the try/except cascade and strict filter of _resolve_atom_to_key, the bodies of to_mass/to_A/to_Z/to_E/"
    "to_element, the alias names and keyword defaults -> Gen/PTGlue.v)",
    "the combinators of coq/Model/PeriodicTableGlue.v (d[k], .capitalize(), int(), try/except/else, assert isinstance) as the meaning of those "
    "Python constructs; the hand-written model coq/Model/PeriodicTable.v of __init__/_resolve_atom_to_key/accessors is PROVED equal to the "
    "generated glue (C01_generated_glue_is_model, C01_generated_init_and_names) and additionally tied by differential execution; "
    "coq/Common/PyAscii.v (ASCII str.capitalize/lower, CPython int(str) incl. 4300-digit limit) is tied by differential execution only",
    "CPython dict/zip/str/int/Decimal/float(str) semantics are modelled, not verified; float(mass) is modelled on the shipped digit string "
    "(Model/PeriodicTableFloat.v float_of_decstr -> Common/NearestDouble*.v, integer arithmetic), proved to be the nearest double of the "
    "fraction the string denotes, and compared exactly with the implementation's float (decomposed by math.frexp)",
    "the standard reading of binary64: the doubles around x in a binade with unit 2^e are the integer multiples of 2^e with 53-bit significands",
    "the specification functions in Model/PeriodicTable.v (most_abundant, default_iso, i_labels, ref_period, ref_group) and the "
    "Python mirror of them in this file",
]
ASSUMPTIONS = [
    "identifiers are Python int (not bool) or ASCII str; float/bool identifiers and non-ASCII text are outside the model and the generators",
    "sys.int_info.default_max_str_digits is the default 4300",
]


# ------------------------------------------------------------------------------------------------
def translate(ctx):
    ptable.generate(ctx.repo)
    srd144.generate(ctx.repo)
    periodgroup.generate(ctx.repo)
    ptglue.generate(ctx.repo)     # Gen/PTGlue.v: __init__ dictionaries, the try/except cascade, strict filter, accessor bodies, alias names


# ------------------------------------------------------------------------------------------------
# implementation side

EK = {"NotAnElementError": "NotAnElement", "KeyError": "PyKeyError", "ValueError": "PyValueError",
      "TypeError": "PyTypeError", "AttributeError": "PyAttributeError", "IndexError": "PyIndexError",
      "AssertionError": "PyAssertion", "ValidationError": "Validation", "DataUnavailableError": "DataUnavailable"}

FIELDS = ["keyF", "keyT", "ZF", "ZT", "EF", "ET", "nameF", "nameT", "A", "mass", "period", "group"]


def _pt():
    import qcelemental
    return qcelemental.periodictable


def _call(f, *a, **k):
    try:
        return ("Ok", f(*a, **k))
    except Exception as e:  # noqa: BLE001 - the exception class is the observation
        return ("Err", type(e).__name__)


def impl_observe(x):
    return observe_on(_pt(), x)


def observe_on(pt, x, order=None):
    """every public accessor on identifier x; `order` (a permutation of the observation names) makes the calls in another
    order — the answers must not depend on it"""
    calls = {
        "keyF": lambda: _call(pt._resolve_atom_to_key, x, strict=False), "keyT": lambda: _call(pt._resolve_atom_to_key, x, strict=True),
        "ZF": lambda: _call(pt.to_Z, x, strict=False), "ZT": lambda: _call(pt.to_Z, x, strict=True),
        "EF": lambda: _call(pt.to_E, x, strict=False), "ET": lambda: _call(pt.to_E, x, strict=True),
        "nameF": lambda: _call(pt.to_element, x, strict=False), "nameT": lambda: _call(pt.to_element, x, strict=True),
        "A": lambda: _call(pt.to_A, x), "mass": lambda: _call(pt.to_mass, x, return_decimal=True),
        "period": lambda: _call(pt.to_period, x), "group": lambda: _call(pt.to_group, x),
        "fmass": lambda: _call(pt.to_mass, x),
        # the documented aliases
        "aZ": lambda: _call(pt.to_atomic_number, x), "aE": lambda: _call(pt.to_symbol, x), "aname": lambda: _call(pt.to_name, x),
        "aA": lambda: _call(pt.to_mass_number, x),
        # defaults: strict and return_decimal omitted (positional strict too)
        "dZ": lambda: _call(pt.to_Z, x), "dE": lambda: _call(pt.to_E, x), "dname": lambda: _call(pt.to_element, x),
        "pZT": lambda: _call(pt.to_Z, x, True), "dfmass": lambda: _call(pt.to_mass, x, return_decimal=False),
    }
    got = {k: calls[k]() for k in (order or list(calls))}
    return {k: got[k] for k in calls}


OBS_NAMES = ["keyF", "keyT", "ZF", "ZT", "EF", "ET", "nameF", "nameT", "A", "mass", "period", "group", "fmass", "aZ", "aE", "aname", "aA",
             "dZ", "dE", "dname", "pZT", "dfmass"]


class Unrenderable(Exception):
    pass


def _is_int(v):
    return isinstance(v, int) and not isinstance(v, bool)


def canon(o):
    """implementation observation -> canonical JSON-able dict {field: ["Ok", value] | ["Err", kind]};
    mass as [coef, exp]."""
    c = {}
    for f in FIELDS:
        tag, v = o[f]
        if tag == "Err":
            c[f] = ["Err", EK.get(v, "Py:" + v)]
            continue
        if f in ("keyF", "keyT", "EF", "ET", "nameF", "nameT"):
            if not (isinstance(v, str) and v.isascii()):
                raise Unrenderable(f"{f} returned {v!r}")
        elif f in ("ZF", "ZT", "A"):
            if not _is_int(v):
                raise Unrenderable(f"{f} returned {v!r} ({type(v).__name__})")
        elif f == "mass":
            if not isinstance(v, Decimal) or not v.is_finite():
                raise Unrenderable(f"to_mass(return_decimal=True) returned {v!r}")
            sign, digits, exp = v.as_tuple()
            coef = int("".join(map(str, digits)) or "0")
            v = [-coef if sign else coef, exp]
        else:
            if not (v is None or _is_int(v)):
                raise Unrenderable(f"{f} returned {v!r}")
        c[f] = ["Ok", v]
    return c


def _cout(o, f):
    return f"(Ok {f(o[1])})" if o[0] == "Ok" else f"(Err {o[1]})" if not o[1].startswith("Py:") else "(Err PyAssertion)"


def _copt(v):
    return "None" if v is None else f"(Some {cz(v)})"


def _cpairz(p):
    return f"({cz(p[0])}, {cz(p[1])})"


def czb(i):
    """Z literal; huge values in hexadecimal (Coq parses long decimal literals in quadratic time)."""
    i = int(i)
    if abs(i) < 10 ** 30:
        return cz(i)
    return f"(- {hex(-i)})%Z" if i < 0 else f"({hex(i)})%Z"


def fdecomp(v):
    """float -> (m, e) with v == m * 2**e exactly (53-bit significand)."""
    if v == 0:
        return (0, 0)
    m, e = math.frexp(v)
    mi = int(m * (1 << 53))
    assert float(mi) == m * (1 << 53)
    return (mi, e - 53)


def eval_cases(tag, requires, check_fn, terms, shard, ty):
    """coqrun.eval_bad_indices, retried when the machine is too loaded to start the coqc processes (fork/EAGAIN,
    memory): a machinery hiccup must not turn into an alarm."""
    import time
    last = None
    for attempt in range(3):
        try:
            bad, errors = coqrun.eval_bad_indices(tag, requires, "", check_fn, terms, shard=shard, ty=ty)
        except Exception as e:  # noqa: BLE001 - retried, then re-raised
            last = e
            time.sleep(5 * (attempt + 1))
            continue
        if errors and attempt < 2 and all(("Cannot allocate" in str(e) or "Resource temporarily" in str(e) or "Killed" in str(e)
                                           or str(e[1]).strip() == "") for e in errors):
            time.sleep(5 * (attempt + 1))
            continue
        return bad, errors
    raise last if last else RuntimeError("case evaluation failed repeatedly")


def cval(x):
    return f"(PInt {czb(x)})" if isinstance(x, int) else f"(PStr {cstr(x)})"


def expected_term(c):
    nonstrict = ["keyF", "ZF", "EF", "nameF", "A", "mass", "period", "group"]
    strict = [("keyT", "keyF"), ("ZT", "ZF"), ("ET", "EF"), ("nameT", "nameF")]
    if all(c[f][0] == "Ok" for f in nonstrict):
        all_same = all(c[t] == c[n] for t, n in strict)
        all_rej = all(c[t] == ["Err", "NotAnElement"] for t, _ in strict)
        if all_same or all_rej:
            return ("(XAll %s %s %s %s %s %s %s %s %s)" % (
                cstr(c["keyF"][1]), cz(c["ZF"][1]), cstr(c["EF"][1]), cstr(c["nameF"][1]), cz(c["A"][1]),
                _cpairz(c["mass"][1]), _copt(c["period"][1]), _copt(c["group"][1]), cbool(all_same)))
    kinds = {tuple(c[f]) for f in FIELDS}
    if len(kinds) == 1 and c["keyF"][0] == "Err" and not c["keyF"][1].startswith("Py:"):
        return f"(XErr {c['keyF'][1]})"
    return ("(XGen {| o_keyF := %s; o_keyT := %s; o_ZF := %s; o_ZT := %s; o_EF := %s; o_ET := %s; o_nameF := %s; "
            "o_nameT := %s; o_A := %s; o_mass := %s; o_period := %s; o_group := %s |})" % (
                _cout(c["keyF"], cstr), _cout(c["keyT"], cstr), _cout(c["ZF"], cz), _cout(c["ZT"], cz),
                _cout(c["EF"], cstr), _cout(c["ET"], cstr), _cout(c["nameF"], cstr), _cout(c["nameT"], cstr),
                _cout(c["A"], cz), _cout(c["mass"], _cpairz), _cout(c["period"], _copt), _cout(c["group"], _copt)))


# ------------------------------------------------------------------------------------------------
# specification side in Python (mirror of the Gallina spec; reads the raw data itself)

def nearest_double(coef, exp):
    """round-to-nearest-even binary64 of coef*10^exp using integers only (normal range)."""
    if coef == 0:
        return 0.0
    neg = coef < 0
    n, d = abs(coef), 1
    if exp >= 0:
        n *= 10 ** exp
    else:
        d = 10 ** (-exp)
    # find e with 2^52 <= n/(d*2^e) < 2^53
    e = n.bit_length() - d.bit_length() - 53
    while True:
        num, den = (n, d << e) if e >= 0 else (n << -e, d)
        q, r = divmod(num, den)
        if q >= 1 << 53:
            e += 1
        elif q < 1 << 52:
            e -= 1
        else:
            break
    if 2 * r > den or (2 * r == den and q & 1):
        q += 1
    if not (-1022 - 52 <= e <= 1023 - 52):
        raise OverflowError("outside the normal binary64 range")
    v = math.ldexp(q, e)  # exact: q <= 2^53
    return -v if neg else v


def value_part(s):
    out = []
    for ch in s:
        if ch in "0123456789.":
            out.append(ch)
        else:
            break
    return "".join(out)


PERIOD_LENGTHS = [2, 8, 8, 18, 18, 32, 32]
COLUMNS = {2: [1, 18], 8: [1, 2] + list(range(13, 19)), 18: list(range(1, 19)),
           32: [1, 2] + [None] * 15 + list(range(4, 19))}


def standard_position(z):
    """(period, group) of atomic number z in the standard 18-column table."""
    start = 1
    for p, n in enumerate(PERIOD_LENGTHS, 1):
        if start <= z < start + n:
            return p, COLUMNS[n][z - start]
        start += n
    return None


class Spec:
    """What NIST SRD-144 says, per species name (capitalised label) and per element."""

    def __init__(self, repo):
        raw = srd144.load_json(repo)
        names, ll, aliases, newnames = srd144.load_build(repo)
        self.species = {}      # capitalised label -> dict(Z, E, name, A, mass)
        self.elements = []     # (Z, E, name)
        self.labels_by_el = {}
        dm = srd144.load_build.dummy      # the rows build_periodic_table.py seeds its arrays with (set by load_build)
        dnames = {e: (z, n) for z, e, n in zip(dm["Z"], dm["E"], dm["name"])}
        for ee, ea, a, m in zip(dm["_EE"], dm["EA"], dm["A"], dm["masses"]):
            self.species[ea] = dict(Z=dnames[ee][0], E=ee, name=dnames[ee][1], A=a, mass=m)
        for z, e, n in zip(dm["Z"], dm["E"], dm["name"]):
            self.elements.append((z, e, n))
        for sym, zs, isos in raw:
            E = newnames.get(sym, sym)
            Z = int(zs)
            name = names[Z - 1].capitalize()
            self.elements.append((Z, E, name))
            best, bestc = None, Decimal(0)
            rows = []
            for isym, a, m, comp in isos:
                isym = newnames.get(isym, isym)
                rec = dict(Z=Z, E=E, name=name, A=int(a), mass=value_part(m))
                labels = [E + a] if isym == E else [isym, E + a]
                for lb in labels:
                    self.species[lb] = rec
                rows.append(rec)
                if comp is not None:
                    cv = Decimal(value_part(comp))
                    if cv > bestc:
                        best, bestc = rec, cv
            if best is None:
                want = ll[E]
                best = [r for r in rows if r["A"] == want][0]
            self.species[E] = best
        self.Zs = {z for z, _, _ in self.elements}
        self.by_Z = {z: e for z, e, _ in self.elements}
        self.by_name = {n: e for _, e, n in self.elements}
        self.E = {e for _, e, _ in self.elements}

    def step(self, x):
        """which rung of the model's cascade answers x (branch hit counts in the evidence)"""
        if isinstance(x, str) and x.capitalize() in self.species:
            return "model_step1_label"
        try:
            z = int(x)
        except ValueError:
            z = None
        if z is not None and z in self.by_Z:
            return "model_step2_int" if isinstance(x, int) else "model_step2_digit_string"
        if isinstance(x, str) and x.capitalize() in self.by_name:
            return "model_step3_name"
        if isinstance(x, int):
            return "model_reject_int"
        return "model_reject_int_literal" if z is not None else "model_reject_text"

    def expect(self, x):
        """None if x names nothing, else (key, record) by the documented cascade semantics."""
        if isinstance(x, str):
            k = x.capitalize()
            if k in self.species:
                return k, self.species[k]
        try:
            z = int(x)
        except ValueError:
            z = None
        if z is not None and z in self.by_Z:
            k = self.by_Z[z]
            return k, self.species[k]
        if isinstance(x, str) and x.capitalize() in self.by_name:
            k = self.by_name[x.capitalize()]
            return k, self.species[k]
        return None


def oracle(spec, x, o):
    """The property on the implementation's answers for identifier x. Returns None or a description."""
    for d, e in (("dZ", "ZF"), ("dE", "EF"), ("dname", "nameF"), ("pZT", "ZT"), ("dfmass", "fmass")):
        if d in o and (o[d] != o[e] or type(o[d][1]) is not type(o[e][1])):
            return f"{d}: the call with the keyword omitted / positional gives {o[d]!r}, the explicit form {e} gives {o[e]!r}"
    exp = spec.expect(x)
    nonstrict = {"keyF": None, "ZF": None, "EF": None, "nameF": None, "A": None, "mass": None, "period": None,
                 "group": None, "fmass": None, "aZ": None, "aE": None, "aname": None, "aA": None}
    if exp is None:
        for f in list(nonstrict) + ["keyT", "ZT", "ET", "nameT"]:
            if o[f] != ("Err", "NotAnElementError"):
                return f"{f}: identifier names no tabulated species but got {o[f]!r} instead of NotAnElementError"
        return None
    key, rec = exp
    dm = Decimal(rec["mass"])
    sign, digits, e10 = dm.as_tuple()
    coef = int("".join(map(str, digits)) or "0")
    pos = standard_position(rec["Z"])
    want = {"keyF": key, "ZF": rec["Z"], "EF": rec["E"], "nameF": rec["name"], "A": rec["A"], "mass": dm,
            "aZ": rec["Z"], "aE": rec["E"], "aname": rec["name"], "aA": rec["A"]}
    for f, w in want.items():
        tag, v = o[f]
        if tag != "Ok":
            return f"{f}: raised {v} for a tabulated species (expected {w!r})"
        if type(v) is not type(w) or v != w or (f == "mass" and v.as_tuple() != w.as_tuple()):
            return f"{f}: got {v!r}, NIST SRD-144 says {w!r}"
    tag, v = o["fmass"]
    fw = nearest_double(coef, e10)
    if tag != "Ok" or not isinstance(v, float) or v.hex() != fw.hex():
        return f"fmass: got {v!r}, the double nearest to {rec['mass']} is {fw!r}"
    if pos is not None:
        if o["period"] != ("Ok", pos[0]):
            return f"period: got {o['period']!r}, standard table says {pos[0]}"
        if o["group"] != ("Ok", pos[1]):
            return f"group: got {o['group']!r}, standard table says {pos[1]}"
    else:
        # the dummy has no position in the standard table; pinned behaviour (theorem C01_dummy_period_group): period 1, no group
        if o["period"] != ("Ok", 1) or o["group"] != ("Ok", None):
            return f"dummy (Z=0): period/group {o['period']!r} {o['group']!r}, expected period 1 and no group"
    is_el = key in spec.E
    for t, n in (("keyT", "keyF"), ("ZT", "ZF"), ("ET", "EF"), ("nameT", "nameF")):
        if is_el and o[t] != o[n]:
            return f"{t}: strict mode rejected or changed an element-level name: {o[t]!r}"
        if not is_el and o[t] != ("Err", "NotAnElementError"):
            return f"{t}: strict mode did not reject nuclide label: {o[t]!r}"
    return None


# ------------------------------------------------------------------------------------------------
# generators

def case_variants(rng, s, thorough):
    out = [s, s.lower(), s.upper(), s.capitalize()]
    for _ in range(4 if thorough else 1):
        out.append("".join(ch.upper() if rng.random() < 0.5 else ch.lower() for ch in s))
    seen, res = set(), []
    for v in out:
        if v not in seen:
            seen.add(v)
            res.append(v)
    return res


CORPUS_INVALID = [
    -1, -117, 118, 119, 120, 200, 10 ** 6, 10 ** 20, -10 ** 20,
    "", " ", "+", "-", "_", "1.0", "36.0", "1e1", "0x1", "118", "-1", "999", "+118", "1__0", "_1", "1_", "+ 1", "--1",
    "84kr", "2h", "84 kr", "kr 84", " kr84", "kr84 ", "kr-84", "kr_84", "kr084", "kr84.0", "he0", "h0", "h8", "kr200", "x1", "x00",
    "gh", "q", "zz", "abc", "hydrogen1", "hydrogens", " hydrogen", "deuterium", "tritium", "uut", "uup", "uus", "uuo", "og", "og294",
    "d2", "t3", "dd", "hd", "d ", "\tkr", "kr\n", "h\x00", "\x001", "1\x00", "\x1c1", "0" * 4400 + "1", "1" * 4301,
]
CORPUS_INTFORMS = ["0", "00", "-0", "+0", " 1", "1 ", "\t1\n", "\x0b\x0c\r 36 ", "+36", "0036", "3_6", "1_1_7", " +1_1_7 ", "0_0", "00_1",
                   "0" * 4299 + "1", "1_0", "117", "+117", "-00", "1\n", "\n\n17"]


def gen_invalid(rng, spec, n):
    out = []
    letters = _string.ascii_letters
    syms = sorted(spec.E)
    while len(out) < n:
        r = rng.random()
        if r < 0.25:
            s = "".join(rng.choice(letters) for _ in range(rng.choice([1, 2, 2, 3, 3, 4, 7])))
        elif r < 0.5:
            s = rng.choice(syms) + str(rng.choice([0, 1, 2, 3, 5, 8, 13, 50, 100, 150, 200, 260, 300, 999]))
            s = rng.choice([s, s.lower(), s.upper()])
        elif r < 0.6:
            e = rng.choice(syms)
            s = str(rng.randrange(1, 300)) + e
        elif r < 0.7:
            s = rng.choice([str(rng.randrange(118, 400)), str(-rng.randrange(1, 200)), f"{rng.randrange(0, 118)}.{rng.randrange(0, 10)}",
                            f"{rng.randrange(1, 118)}e0", f"{rng.randrange(1, 118)} {rng.randrange(1, 9)}"])
        elif r < 0.8:
            k = rng.choice(sorted(spec.species))
            s = rng.choice([" " + k, k + " ", k + "_", "_" + k, k[:1] + " " + k[1:], k + k, k + ".0", k + "+"])
        elif r < 0.9:
            nme = rng.choice(sorted(spec.by_name))
            s = rng.choice([nme[:-1], nme + "s", nme + "1", nme[1:], nme + " ", nme.lower() + "um"])
        else:
            out.append(rng.choice([rng.randrange(118, 10000), -rng.randrange(1, 10000), rng.randrange(10 ** 9, 10 ** 30)]))
            continue
        if spec.expect(s) is None:
            out.append(s)
    return out


def gen_int_strings(rng, n):
    """strings near the grammar of CPython int(): model vs int()."""
    alpha = ["0", "1", "2", "7", "9", "_", "+", "-", " ", "\t", "\n", "\x0b", "\x0c", "\r", "\x1c", "\x1f", "\x00", "a", "e", ".", "x", "O", "l"]
    w = [8, 8, 6, 6, 6, 5, 2, 2, 3, 1, 1, 1, 1, 1, 1, 1, 1, 1, 1, 1, 1, 1, 1]
    out = ["", " ", "+", "-", "_", "0", "-0", "+_1", "1_", "1__0", "_1", "+1", " +1 ", "+ 1", "1 2", "--1", "+-1", "0_1", "1_0", " 1_0\n",
           "\t\n\x0b\x0c\r 5", "\x1c1", "1\x00", "0x10", "1e3", "1.0", "0" * 4400 + "1", "1" * 4301, "1" * 4300, "0" * 4300, "0" * 4301,
           "-" + "9" * 4300, "-" + "9" * 4301, "1_" * 2200 + "1", " " * 10 + "7" + " " * 10, "1" + "_1" * 4299, "1" + "_1" * 4300]
    big = [t for t in out if len(t) > 100]
    out = [t for t in out if len(t) <= 100]
    while len(out) < n:
        k = rng.choice([1, 2, 3, 4, 5, 6, 8])
        out.append("".join(rng.choices(alpha, weights=w, k=k)))
    step = max(1, len(out) // (len(big) + 1))
    for j, t in enumerate(big):  # spread the expensive ones over the shards
        out.insert(j * step, t)
    return out


def py_int(s):
    try:
        return ("Ok", int(s))
    except ValueError:
        return ("Err", "PyValueError")


# ------------------------------------------------------------------------------------------------
# history: the lookups must not keep state between calls.  Float identifiers (accepted today through int()) are
# outside the model; they are issued only as history-makers and their own answers are not judged.

FLOAT_MAKERS = [0.0, 1.0, 2.0, 36.0, 37.0, 84.0, 117.0, 118.0, -1.0, 1.5, 1000.0]


_ISSUED_FLOATS = []   # float identifiers issued so far in this process (they may have left state behind)


def collide_history(x):
    """earlier float identifiers whose text collides with x: part of the failing input if the table keeps state"""
    return list(dict.fromkeys(m for m in _ISSUED_FLOATS if norm_id(m) == norm_id(x)))


def norm_id(x):
    """identifiers whose str() agree after strip/lower (and a leading '+') are 'colliding'"""
    return str(x).strip().lower().lstrip("+")


def collision_groups(ctx, spec):
    """groups of related identifiers (same text after str/strip/lower/capitalize, or the same species spelt validly and
    invalidly); every group is issued in a random order and in the reverse order."""
    rng = ctx.rng
    groups = []
    zs = [0, 1, 2, 36, 37, 84, 117, 118, -1] + rng.sample(range(3, 117), 20 if ctx.thorough else 6)
    for z in zs:
        t = str(z)
        groups.append([z, float(z), t, str(float(z)), " " + t, t + " ", " " + t + " ", "+" + t, "0" + t, t + ".0 ", " " + t + ".0", t + ".", t + ".00"])
    keys = sorted(spec.species)
    pick = ["H", "D", "H2", "Kr84", "X", "X0", "U238", "Ts"] + rng.sample(keys, 150 if ctx.thorough else 30)
    for k in dict.fromkeys(pick):
        if k not in spec.species:
            continue
        g = [k, k.lower(), k.upper(), " " + k, k + " ", " " + k.lower() + " ", k + ".0", "+" + k, k + "_"]
        rec = spec.species[k]
        sym = "".join(ch for ch in k if ch.isalpha())
        num = "".join(ch for ch in k if ch.isdigit())
        if num:
            g += [num + sym, num + sym.lower(), num, float(num), num + ".0"]
        if k in spec.E:
            g += [rec["name"], rec["name"].upper(), " " + rec["name"], rec["Z"], float(rec["Z"]), str(rec["Z"]), str(float(rec["Z"]))]
        groups.append(list(dict.fromkeys((type(x).__name__, x) for x in g)))
        groups[-1] = [x for _, x in groups[-1]]
    return groups


def orepr(o):
    return {k: repr(v) for k, v in o.items()}


def run_sequences(ctx, spec, corr, groups):
    """each group, in a random order and reversed, once on a fresh PeriodicTable() and once on the module singleton;
    every non-float answer is judged by the oracle; the replay carries the calls made before it."""
    pt0 = _pt()
    for g in groups:
        perm = list(g)
        ctx.rng.shuffle(perm)
        for seq in (perm, perm[::-1]):
            for fresh in (True, False):
                try:
                    pt = type(pt0)() if fresh else pt0
                except Exception as e:  # noqa: BLE001
                    corr.errors.append(f"cannot construct a fresh PeriodicTable: {e!r}")
                    return
                for i, x in enumerate(seq):
                    order = list(OBS_NAMES)
                    ctx.rng.shuffle(order)       # the accessors in a random order: no accessor may leave state for another
                    o = observe_on(pt, x, order)
                    corr.count("history-sequences")
                    if isinstance(x, float):
                        corr.hit("history_maker_float")
                        _ISSUED_FLOATS.append(x)
                        continue
                    bad = oracle(spec, x, o)
                    if bad:
                        corr.failures.append({"stream": "history", "case": {"atom": x, "history": seq[:i], "fresh_table": fresh, "order": order},
                                              "what": bad + "  [after the earlier calls listed in case.history]", "observed": orepr(o)})


def run_history_replay(ctx, spec, corr, memo):
    """after the main pass: history-makers (floats, ints, valid strings), then the invalid stream again, the colliding
    decimal/blank/sign spellings, and a shuffled sample of all earlier identifiers; each answer is judged by the oracle
    and compared with the answer given the first time."""
    rng = ctx.rng
    pt = _pt()
    makers = list(FLOAT_MAKERS) + [float(z) for z in rng.sample(range(0, 118), 25)] + list(range(0, 118, 9)) + \
        ["kr84", "KR", "Hydrogen", "d", "u238", " 1 ", "+1", "1_1_7"]
    for m in makers:
        observe_on(pt, m)
        if isinstance(m, float):
            _ISSUED_FLOATS.append(m)
        corr.count("history-makers")
    targets = list(CORPUS_INVALID) + list(CORPUS_INTFORMS)
    for m in makers:
        if isinstance(m, float):
            t = str(m)
            targets += [t, " " + t, t + " ", "+" + t, t.capitalize(), str(int(m)) + ".", str(int(m)) + ".00"]
    earlier = [x for (_t, x) in memo_keys(memo)]
    by_norm = {}
    for y in earlier:
        by_norm.setdefault(norm_id(y), []).append(y)
    rng.shuffle(earlier)
    targets += earlier if ctx.thorough else earlier[:4000]
    for x in targets:
        if isinstance(x, float):
            continue
        o = observe_on(pt, x)
        corr.count("history-replay")
        bad = oracle(spec, x, o)
        first = memo.get((type(x).__name__, x))
        if not bad and first is not None and first != orepr(o):
            diff = [k for k in first if first[k] != orepr(o)[k]]
            bad = f"the same identifier was answered differently later in the run (state kept between calls): {diff[:4]} first {first[diff[0]]} now {orepr(o)[diff[0]]}"
        if bad:
            # earlier identifiers with the same text up to blanks / case / sign (makers and main-pass calls): part of the failing input
            coll = [m for m in makers if norm_id(m) == norm_id(x)] + \
                   [y for y in by_norm.get(norm_id(x), []) if not (type(y) is type(x) and y == x)]
            corr.failures.append({"stream": "history", "case": {"atom": x, "history": coll or makers, "fresh_table": False},
                                  "what": bad + "  [after the earlier calls listed in case.history]", "observed": orepr(o)})


def memo_keys(memo):
    return [(t, x) for (t, x) in memo]


# ------------------------------------------------------------------------------------------------
def build_cases(ctx, spec):
    rng = ctx.rng
    cases = []  # (stream, x)
    for x in CORPUS_INVALID:
        cases.append(("corpus-invalid", x))
    for x in CORPUS_INTFORMS:
        cases.append(("corpus-intforms", x))
    for z, e, n in spec.elements:
        cases.append(("rows", z))
        for form in (str(z), e, n):
            for v in case_variants(rng, form, ctx.thorough):
                cases.append(("rows", v))
        if rng.random() < (1.0 if ctx.thorough else 0.3):
            zs = str(z)
            for v in (" " + zs, zs + "\n", "+" + zs, "00" + zs, "_".join(zs), "-" + zs):
                cases.append(("intforms", v))
    for j, k in enumerate(sorted(spec.species)):
        vs = case_variants(rng, k, ctx.thorough)
        if not ctx.thorough and j % 3:
            vs = vs[:-1]   # quick tier: the random mixed-case spelling for every third label only
        for v in vs:
            cases.append(("labels", v))
    for x in gen_invalid(rng, spec, 15000 if ctx.thorough else 2000):
        cases.append(("invalid", x))
    return cases


def correspond(ctx):
    corr = Corr()
    corr.rule = ("exhaustive: every element row x {int Z, str Z, symbol, name} and every species label of NIST SRD-144 (+dummy), "
                 "each string in {as tabulated, lower, UPPER, Capitalised, random mixed} case, x 12 accessor observations "
                 "(resolved key, to_Z/to_E/to_element strict on and off, to_A, to_mass Decimal, to_period, to_group) + float mass + 4 "
                 "alias accessors; plus int()-grammar spellings of Z, and invalid identifiers (corpus + generated); plus HISTORY streams: groups of "
                 "colliding identifiers (int, float, digit/decimal/blank/sign strings, labels spelt validly and invalidly) issued in both orders on a fresh "
                 "table and on the singleton, and after float/int/string history-makers the invalid stream and a shuffled sample of all earlier "
                 "identifiers re-issued and compared with oracle and first answer. "
                 "non-trivial = the implementation returned data (not an error) for the identifier; distinct = distinct identifiers")
    try:
        spec = Spec(ctx.repo)
    except Exception as e:  # raw data unreadable: the translator reports it too
        corr.errors.append(f"cannot read the NIST raw data: {e!r}")
        return corr
    cases = build_cases(ctx, spec)
    # history first: related identifiers in both orders, before anything else has touched the table in this process
    groups = collision_groups(ctx, spec)
    run_sequences(ctx, spec, corr, groups)
    ctx.log(f"history sequences: {corr.streams.get('history-sequences', 0)} calls over {len(groups)} groups x 2 orders x (fresh table, singleton); "
            f"{len(corr.failures)} failures")
    for g in groups:  # the members also go through the model below
        for x in g:
            if not isinstance(x, float):
                cases.append(("history-members", x))
    seen = set()
    memo = {}
    terms, meta = [], []
    fterms, fmeta = [], []
    import collections
    recent = collections.deque(maxlen=60)    # the identifiers issued just before (part of a failing input that depends on earlier calls)
    for stream, x in cases:
        key = (type(x).__name__, x)
        if key in seen:
            continue
        seen.add(key)
        o = impl_observe(x)
        memo[key] = orepr(o)
        corr.count(stream)
        if o["keyF"][0] == "Ok":
            corr.nontriv([stream, repr(x)])
            corr.hit("resolved_nuclide" if o["keyT"][0] == "Err" else "resolved_element")
        else:
            corr.hit("rejected_" + o["keyF"][1])
        corr.hit(spec.step(x))
        if o["keyF"][0] == "Ok" and o["keyT"][0] == "Err":
            corr.hit("model_strict_filter_rejects")
        bad = oracle(spec, x, o)
        if bad:
            hist = collide_history(x)
            if len(corr.failures) < 200:
                # does a fresh table give the same wrong answer?  if not, the failure depends on earlier calls: keep them in the case
                try:
                    stateless = bool(oracle(spec, x, observe_on(type(_pt())(), x)))
                except Exception:  # noqa: BLE001
                    stateless = True
                if not stateless:
                    hist = hist + list(recent)
            corr.failures.append({"stream": "oracle", "case": {"atom": x, "history": hist}, "what": bad,
                                  "observed": {k: repr(v) for k, v in o.items()}})
        recent.append(x)
        if isinstance(x, str) and not all(ord(ch) < 128 for ch in x):
            continue  # non-ASCII: implementation + oracle only (outside the modelled domain)
        try:
            c = canon(o)
        except Unrenderable as e:
            if not bad:
                corr.failures.append({"stream": "oracle", "case": {"atom": x}, "what": f"non-canonical output type: {e}",
                                      "observed": {k: repr(v) for k, v in o.items()}})
            continue
        terms.append(f"({cval(x)}, {expected_term(c)})")
        meta.append((stream, x, c))
        tag, v = o["fmass"]
        # the float depends on the resolved key only (resolution itself is tied by check_case above): every species as
        # tabulated, every element-row form, and a slice of the rest (everything in the thorough tier)
        if not (ctx.thorough or stream in ("rows", "corpus-invalid", "corpus-intforms") or (isinstance(x, str) and x in spec.species)
                or len(terms) % 10 == 0):
            pass
        elif tag == "Ok" and isinstance(v, float) and math.isfinite(v):
            fterms.append(f"({cval(x)}, (Ok {_cpairz(fdecomp(v))}))")
            fmeta.append((x, v))
        elif tag == "Err" and v in EK:
            fterms.append(f"({cval(x)}, (Err {EK[v]}))")
            fmeta.append((x, v))
        if stream in ("rows", "labels") and ctx.rng.random() < 0.0004:
            corr.sample({"atom": x, "implementation": c})
    corr.sample({"atom": "kr84", "implementation": canon(impl_observe("kr84"))})
    nf = len(corr.failures)
    run_history_replay(ctx, spec, corr, memo)
    ctx.log(f"history replay: {corr.streams.get('history-replay', 0)} identifiers re-issued after {corr.streams.get('history-makers', 0)} "
            f"history-makers; {len(corr.failures) - nf} failures")
    ctx.log(f"{len(terms)} identifiers through the implementation and the oracle ({len(corr.failures)} oracle failures); evaluating the model")
    bad, errors = eval_cases("C01", REQ, "check_case", terms, max(200, len(terms) // 48 + 1), "pyval * expected")
    corr.errors.extend(f"shard {k}: {e}" for k, e in errors)
    for b in bad[:8]:
        stream, x, c = meta[b]
        got, _ = coqrun.eval_terms("C01", REQ, "", [f"observe {cval(x)}"])
        corr.disagreements.append({"stream": stream, "case": {"atom": x}, "impl": c, "model": got})
    if len(bad) > 8:
        corr.notes.append(f"{len(bad)} model/implementation disagreements in total")

    # float form of the mass: the implementation's float, decomposed exactly, against the model's correctly rounded double
    corr.count("float-mass", len(fterms))
    bad, errors = eval_cases("C01fm", REQF, "check_fmass", fterms, max(200, len(fterms) // 32 + 1), "pyval * outcome (Z * Z)")
    corr.errors.extend(f"float-mass shard {k}: {e}" for k, e in errors)
    for b in bad[:5]:
        got, _ = coqrun.eval_terms("C01fm", REQF, "", [f"to_mass_float {cval(fmeta[b][0])}"])
        corr.disagreements.append({"stream": "float-mass", "case": {"atom": fmeta[b][0]}, "impl": repr(fmeta[b][1]), "model": got})

    # the text/integer primitives of the model on their own, against CPython
    ints = gen_int_strings(ctx.rng, 15000 if ctx.thorough else 2500)
    iterms = []
    for s in ints:
        r = py_int(s)
        corr.count("int()")
        iterms.append(f"({cstr(s)}, {'(Ok ' + czb(r[1]) + ')' if r[0] == 'Ok' else '(Err PyValueError)'})")
    bad, errors = eval_cases("C01int", REQ, "check_int", iterms, max(50, len(iterms) // 32 + 1), "string * outcome Z")
    corr.errors.extend(f"int shard {k}: {e}" for k, e in errors)
    for b in bad[:5]:
        corr.disagreements.append({"stream": "int()", "case": {"text": ints[b]}, "impl": py_int(ints[b]), "model": "differs"})
    caps = [x for _, x in cases if isinstance(x, str) and all(ord(ch) < 128 for ch in x)][::7]
    caps += ["".join(chr(ctx.rng.randrange(0, 128)) for _ in range(ctx.rng.randrange(0, 6))) for _ in range(1500)]
    caps += [chr(i) + chr(i) for i in range(128)]
    cterms = [f"({cstr(s)}, ({cstr(s.capitalize())}, {cstr(s.lower())}))" for s in caps]
    corr.count("capitalize/lower", len(cterms))
    bad, errors = eval_cases("C01cap", REQ, "check_cap", cterms, 800, "string * (string * string)")
    corr.errors.extend(f"cap shard {k}: {e}" for k, e in errors)
    for b in bad[:5]:
        corr.disagreements.append({"stream": "capitalize/lower", "case": {"text": caps[b]},
                                   "impl": [caps[b].capitalize(), caps[b].lower()], "model": "differs"})
    zs = list(range(-20, 400)) + [ctx.rng.randrange(-10 ** 30, 10 ** 30) for _ in range(200)]
    zterms = [f"({czb(z)}, {cstr(str(z))})" for z in zs]
    corr.count("str(int)", len(zterms))
    bad, errors = eval_cases("C01str", REQ, "check_str_of_Z", zterms, 800, "Z * string")
    corr.errors.extend(f"str shard {k}: {e}" for k, e in errors)
    for b in bad[:5]:
        corr.disagreements.append({"stream": "str(int)", "case": {"int": zs[b]}, "impl": str(zs[b]), "model": "differs"})

    # nearest-double routine of this harness against CPython's correctly rounded float(str) on every mass string
    for k, rec in spec.species.items():
        d = Decimal(rec["mass"])
        sign, digits, e10 = d.as_tuple()
        mine = nearest_double(int("".join(map(str, digits)) or "0"), e10)
        corr.count("nearest-double-selfcheck")
        if mine.hex() != float(rec["mass"]).hex() or Fraction(mine) != Fraction(float(Fraction(rec["mass"]))):
            corr.errors.append(f"harness nearest_double disagrees with CPython float() on {rec['mass']}")
            break
    corr.exhaustive = False
    corr.notes.append('rows, labels, alias forms and the lower/UPPER/Capitalised spellings are enumerated exhaustively; mixed-case spellings, int()-grammar variants and invalid identifiers are sampled (letter case is covered for all strings by C01_case_insensitive)')
    return corr


def search(ctx, corr, reasons):
    """Exhaustive oracle sweep on the implementation (all case variants, all integers around the table)."""
    found = []
    try:
        spec = Spec(ctx.repo)
    except Exception:
        return found
    xs = list(range(-5, 131))
    for z, e, n in spec.elements:
        for form in (str(z), e, n):
            xs.extend({form, form.lower(), form.upper(), form.capitalize(), form.swapcase()})
    for k in sorted(spec.species):
        xs.extend({k, k.lower(), k.upper(), k.swapcase()})
    xs.extend(CORPUS_INVALID)
    xs.extend(CORPUS_INTFORMS)
    for d in corr.disagreements:
        if "atom" in d.get("case", {}):
            xs.insert(0, d["case"]["atom"])
    for x in xs:
        o = impl_observe(x)
        bad = oracle(spec, x, o)
        if bad:
            found.append({"stream": "search", "case": {"atom": x, "history": collide_history(x)}, "what": bad,
                          "observed": {k: repr(v) for k, v in o.items()}})
            if len(found) >= 5:
                break
    return found


def replay(ctx, rp):
    x = rp["case"]["atom"]
    hist = rp["case"].get("history") or []
    spec = Spec(ctx.repo)
    pt = type(_pt())() if rp["case"].get("fresh_table") else _pt()
    for h in hist:  # JSON keeps int / float / str apart; the history-makers' own answers are not judged
        observe_on(pt, h)
    o = observe_on(pt, x, rp["case"].get("order"))
    bad = oracle(spec, x, o)
    return {"atom": x, "history": hist, "implementation": {k: repr(v) for k, v in o.items()}, "oracle": bad, "fails": bool(bad)}


KNOWN = {}

TECHNIQUE = ("Coq proof over an executable Gallina model of the resolution cascade and accessors (unbounded lemmas on ASCII "
             "capitalize/int(); whole-table facts by vm_compute over the regenerated shipped table and raw NIST JSON) + exhaustive "
             "differential correspondence against the implementation")
DESIGN_REF = "DESIGN.md §6 C01"
LEVEL_TEXT = (
    "Machine-checked (Coq 8.16.1) theorems about Model/PeriodicTable.v over tables regenerated from /repo on every run: "
    "C01_case_insensitive (ALL ASCII strings differing only in letter case give identical answers/errors from every accessor, strict or not); "
    "C01_alias_invariance (every element row: int Z, digit string, symbol, name, any case, strict or not -> the same key and identical "
    "accessor answers); C01_int_of_str_roundtrip and C01_digit_string_is_int (int(str(z)) = z and str(z) resolves exactly like z for EVERY "
    "integer up to CPython's 4300-digit limit, inside and outside the table); C01_nuclide_labels_resolve; C01_faithful_isotopes and C01_faithful_bare_element (every element and all 3349 isotope "
    "rows of the raw SRD-144 JSON: Z, renamed symbol, SP-966 name, A, mass as exact decimal and digit string; bare element = isotope of "
    "largest composition else tabulated longest-lived, recomputed in Gallina from the raw strings; C01_default_isotope_rule: that choice is a maximal-composition / longest-lived isotope of the raw data); C01_only_srd_species / "
    "C01_element_columns_exact / C01_dummy_rows_as_seeded (nothing else is in the table; the dummy rows are those translated from the build "
    "script's array seeds); C01_dummy_period_group (Z = 0: period 1, no group); C01_float_of_string_agrees, C01_float_models_agree, "
    "C01_float_mass_from_shipped_string (float(str) modelled on the digit string itself: for ALL strings equal to Decimal-then-round, and the "
    "float mass is the nearest double of the fraction the shipped mass string denotes); C01_float_mass_is_nearest_double with C01_rne_nearest_even and C01_nearest_double_correct "
    "(the float mass is the binary64 nearest to the decimal, ties to even, in integer arithmetic; the rounding model is proved correct for "
    "ALL positive decimals in the normal exponent range, 53-bit significand always); C01_period_group_standard / C01_ladder_is_reference "
    "(translated ladder = 18-column reference written from noble-gas boundaries, Z=1..118); C01_strict_exact, C01_strict_rejects_nuclides; "
    "C01_resolve_sound, C01_resolve_rejects, C01_resolve_accepts_iff, C01_int_outside_rejected, C01_str_outside_rejected, C01_mass_number_in_front_rejected, "
    "C01_decimal_strings_rejected (unbounded over identifiers); C01_fails_closed (only NotAnElementError can escape). Wave 3: "
    "C01_generated_glue_is_model and C01_generated_init_and_names (the try/except cascade, strict filter, all five accessor bodies, the seven "
    "dict(zip()) index dictionaries, alias names and keyword defaults, TRANSLATED from periodic_table.py on every run, equal the hand model for ALL "
    "identifiers and options); C01_alias_invariance_every_accessor, C01_public_entry_points_alias_invariant, C01_nuclide_alias_every_accessor "
    "(alias invariance through every accessor incl. Decimal/float/raw-string mass, period, group, strict on/off, also on the generated entry points); "
    "C01_unnamed_rejected_by_every_accessor, C01_public_strict_exact, C01_lettered_unnamed_rejected, C01_absent_mass_number_rejected (all strings "
    "with a letter, resp. a letter and a digit, that are no tabulated label/name); C01_faithful_bare_element_all_aliases, "
    "C01_float_is_rounded_decimal, C01_faithful_isotopes_float. The model is tied to "
    "periodic_table.py by exhaustive differential execution (every row and label x alias forms x letter cases x 12 observations + the float "
    "mass, int()-grammar spellings, invalid identifiers) and the int()/capitalize/str models are fuzzed against CPython; the property oracle "
    "(raw NIST JSON, standard layout, correctly rounded float mass via exact integer arithmetic) is evaluated directly on the "
    "implementation's answers.")
LEVEL_NOTE = (
    "Clause map (full version at the top of coq/Props/C01.v): (a) every alias form and letter case -> same species: C01_case_insensitive, "
    "C01_alias_invariance(_every_accessor), C01_public_entry_points_alias_invariant, C01_nuclide_labels_resolve, C01_nuclide_alias_every_accessor, "
    "C01_digit_string_is_int; (b) values are NIST's: C01_faithful_isotopes(_float), C01_float_*; C01_only_srd_species; (c) bare element = default isotope: "
    "C01_faithful_bare_element(_all_aliases), C01_default_isotope_rule; (d) period/group: C01_period_group_standard, C01_ladder_is_reference; (e) strict: "
    "C01_strict_exact, C01_strict_rejects_nuclides, C01_public_strict_exact; (f) unnamed -> NotAnElementError: C01_resolve_sound/_rejects/_accepts_iff, "
    "C01_unnamed_rejected_by_every_accessor and the family theorems; (g) public entry points = model: C01_generated_glue_is_model. ONLY correspondence/"
    "oracle: answers do not depend on earlier calls on the same object (history streams: fresh table vs singleton, float-then-string, failed-then-valid, "
    "both orders) — the model is a pure function, so no theorem can state it. "
    "Trusted: Coq kernel + vm_compute; the four fail-closed translators; the combinator reading of the Python constructs of the glue "
    "(Model/PeriodicTableGlue.v; the hand-written cascade/accessor model is proved equal to the generated glue); the model of ASCII str.capitalize / "
    "CPython int(str) (differentially tested, not verified); the Gallina specification functions "
    "(value_part, most_abundant with exact decimal comparison where the build script compares floats, i_labels, ref_period/ref_group). "
    "Nearest-double: rounding and 53-bit normalisation are proved for all positive decimals; only the exponent-range condition is evaluated per "
    "table entry; that CPython float(str) is this function is tied by exact comparison of every tabulated mass, not proved. "
    "Non-ASCII identifiers, float/bool identifiers are outside the model (floats are issued as history-makers only). Z=0 (dummy) has no "
    "standard position: its period 1 / no group is pinned behaviour (theorem + oracle). Hand-written on purpose: the 18-column reference and "
    "the specification functions; all table-derived data (incl. the dummy rows) now come from translators. No axioms (all theorems closed under the global context).")
