"""C16 — orientation into the inertial frame.

translate : Molecule._inertial_tensor + GEOMETRY_NOISE (qcelemental/models/molecule.py) -> coq/Gen/Inertia.v
correspond: Model/Orient.v (run over Q, with numpy's own eigh answer for the tensor passed in and checked numerically against the
            eigh specification) against Molecule._orient_molecule_internal; the generated tensor against
            Molecule._inertial_tensor; and the property oracle on the implementation (isometry, non-geometric fields, centre
            of mass, diagonal ascending inertia tensor, phase convention, frame uniqueness for asymmetric tops, orient twice,
            constructor / orient_molecule / from_data routes)."""
import math
import os
from fractions import Fraction as Fr

import numpy as np

from .. import coqrun
from ..core import Corr
from ..coqrun import clist, cq
from ..translate import inertia

PID = "C16"
ALLOWED_AXIOMS = {
    "ClassicalDedekindReals.sig_forall_dec", "ClassicalDedekindReals.sig_not_dec",
    "FunctionalExtensionality.functional_extensionality_dep", "Classical_Prop.classic",
}
TRUSTED = [
    "translator harness/translate/inertia.py (the nine tensor assignments of Molecule._inertial_tensor and GEOMETRY_NOISE -> Gen/Inertia.v; fail-closed)",
    "translator generate_body in harness/translate/inertia.py: statement order and loop skeleton of _orient_molecule_internal are checked "
    "against the source text (fail-closed, incl. that only self.geometry / self.masses / self._inertial_tensor are consulted), its "
    "operands, tests, multiplier and threshold are translated into Gen/OrientBody.v over the hand-written primitives of "
    "Common/Geo3Loop.v (np.average with weights, in-place row subtraction, np.dot, abs, the loop skeleton)",
    "the hand-written model Model/Orient.v (deferred signs) is no longer trusted for the body: C16_generated_body_is_model proves the "
    "generated body equal to it for all inputs; the correspondence now executes the generated body",
    "np.linalg.eigh (LAPACK) is not modelled: it is a parameter of the model constrained by eigh_ok (V^T V = V V^T = I, A V = V diag(w), "
    "w ascending); every run evaluates this predicate numerically (1e-9) on what numpy returned for each molecule",
    "numpy elementwise arithmetic, np.average, np.dot, float_prep rounding to 8 decimals: modelled over an exact field / compared with "
    "tolerance (1e-9 for the unrounded geometry, 3e-8 for rounded geometries)",
    "the executable Q instance Common/Geo3Q.v is used only to run the model",
]
ASSUMPTIONS = [
    "validated molecules: total mass non-zero (all masses positive); 1-12 atoms",
    "frame uniqueness / orient-twice are claimed (and checked) for asymmetric tops only (gaps between principal moments >= 1e-2 of the "
    "largest); on the implementation they are checked up to the 8-decimal rounding amplified by the conditioning of the eigenvectors: "
    "tolerance 2e-8 * (1 + 4 sum m|x| max|x| / gap)",
    "cases in which some rotated coordinate lies within a factor 2 of the 1e-8 phase threshold are not compared with the exact model "
    "(the binary64 and exact decisions may legitimately differ there); they are counted",
]
EXTRA_TARGETS = ["Model/Orient.vo", "Model/OrientCheck.vo"]
REQ = ["QV.Common.Outcome", "QV.Common.Geo3", "QV.Common.Geo3Q", "QV.Common.Geo3Sum", "QV.Gen.Inertia", "QV.Model.Orient",
       "QV.Model.OrientCheck"]
NOISE = 1e-8


def translate(ctx):
    inertia.generate(ctx.repo, os.path.join(coqrun.COQ, "Gen", "Inertia.v"))
    inertia.generate_body(ctx.repo, os.path.join(coqrun.COQ, "Gen", "OrientBody.v"))


# ------------------------------------------------------------------------------------------------
def fr_s(x):
    return f"{x.numerator}/{x.denominator}"


def quat_matrix(q):
    a, b, c, d = (Fr(x) for x in q)
    n = a * a + b * b + c * c + d * d
    return [[(a * a + b * b - c * c - d * d) / n, 2 * (b * c - a * d) / n, 2 * (b * d + a * c) / n],
            [2 * (b * c + a * d) / n, (a * a - b * b + c * c - d * d) / n, 2 * (c * d - a * b) / n],
            [2 * (b * d - a * c) / n, 2 * (c * d + a * b) / n, (a * a - b * b - c * c + d * d) / n]]


def move(P, motion):
    M = quat_matrix(motion["q"])
    t = [Fr(x) for x in motion["t"]]
    return [tuple(sum(M[i][k] * p[k] for k in range(3)) + t[i] for i in range(3)) for p in P]


def cfl(x):
    return cq(Fr(float(x)))


def cdec(x, digits):
    """a binary64 value rounded to `digits` decimals, as a short exact rational (keeps the model's numbers small)"""
    return cq(Fr(f"{float(x):.{digits}f}"))


def cshort(x):
    """shortest decimal that round-trips to the binary64 value x, as an exact rational"""
    return cq(Fr(repr(float(x))))


def cvec(p):
    return "(" + ", ".join(cfl(c) for c in p) + ")"


def cmat(m):
    return "(" + ", ".join(cvec(r) for r in m) + ")"


def build(case, geom=None):
    from qcelemental.models import Molecule
    kw = dict(symbols=case["symbols"], geometry=np.array(geom if geom is not None else
                                                         [[float(Fr(c)) for c in p] for p in case["geom"]], dtype=float).ravel())
    if case.get("mass_numbers"):
        kw["mass_numbers"] = case["mass_numbers"]
    if case.get("masses"):
        kw["masses"] = case["masses"]
    if case.get("real"):
        kw["real"] = case["real"]
    if case.get("extra"):
        kw.update(case["extra"])
    # frame flags carried by the molecule (psi4 no_com / no_reorient / symmetry): orientation must act all the same
    for k, v in (case.get("flags") or {}).items():
        kw[k] = v
    return Molecule(**kw), kw


def psi4_text(case, geom):
    """the molecule as a psi4 string (only for cases without isotopes / explicit masses), with the frame flags spelled out"""
    if case.get("mass_numbers") or case.get("masses") or case.get("extra"):
        return None
    fl = case.get("flags") or {}
    lines = ["units bohr"]
    if fl.get("fix_com"):
        lines.append("no_com")
    if fl.get("fix_orientation"):
        lines.append("no_reorient")
    if fl.get("fix_symmetry"):
        lines.append("symmetry " + fl["fix_symmetry"])
    real = case.get("real") or [True] * len(case["symbols"])
    for sym, r, p in zip(case["symbols"], real, geom):
        lines.append(("" if r else "@") + sym + " " + " ".join(repr(float(c)) for c in p))
    return "\n".join(lines) + "\n"


def inertia_ref(geom, masses):
    """independent inertia tensor sum m (|x|^2 1 - x x^T) about the origin"""
    g = np.asarray(geom, dtype=float)
    m = np.asarray(masses, dtype=float)
    t = np.zeros((3, 3))
    for x, w in zip(g, m):
        t += w * (np.dot(x, x) * np.eye(3) - np.outer(x, x))
    return t


def pair_dists(g):
    g = np.asarray(g, dtype=float)
    return np.sqrt(((g[:, None, :] - g[None, :, :]) ** 2).sum(axis=2))


def first_significant_positive(col, thr):
    for v in col:
        if abs(v) >= thr:
            return v > 0
    return True


def oracle(case):
    """returns (failures, observations)"""
    from qcelemental.models import Molecule
    fails = []

    def bad(what, obs):
        fails.append({"what": what, "observed": obs})
    mol, kw = build(case)
    g0 = np.array(mol.geometry, dtype=float)
    w = np.array(mol.masses, dtype=float)
    raw = np.array(mol._orient_molecule_internal(), dtype=float)
    omol = mol.orient_molecule()
    g1 = np.array(omol.geometry, dtype=float)
    n = len(w)
    obs = {"g0": g0, "w": w, "raw": raw}
    scale = 1.0 + float(np.abs(g0).max())
    # stored geometry = float_prep(internal result): rounded to 8 decimals, and (as float_prep does for every geometry) entries
    # below 5**-9 ~ 5.12e-7 in magnitude set to zero
    ok = (np.abs(g1 - raw) <= 0.5e-8 + 1e-12 * scale) | ((g1 == 0) & (np.abs(raw) < 5.2e-7))
    if not ok.all():
        bad("oriented geometry is not the internal result after the geometry rounding (8 decimals, |x| < 5**-9 -> 0)",
            float(np.abs(g1 - raw).max()))
    # isometry
    dd = np.abs(pair_dists(g1) - pair_dists(g0)).max() if n > 1 else 0.0
    if dd > 1e-7 * scale:
        bad("an interatomic distance changed", float(dd))
    dd = np.abs(pair_dists(raw) - pair_dists(g0)).max() if n > 1 else 0.0
    if dd > 1e-9 * scale:
        bad("an interatomic distance changed (unrounded geometry)", float(dd))
    # non-geometric fields
    d0, d1 = mol.dict(), omol.dict()
    for k in sorted(set(d0) | set(d1)):
        if k == "geometry":
            continue
        a, b = d0.get(k), d1.get(k)
        same = np.array_equal(a, b) if isinstance(a, np.ndarray) or isinstance(b, np.ndarray) else a == b
        if not same:
            bad(f"non-geometric field {k} changed", [repr(a)[:200], repr(b)[:200]])
    # centre of mass
    com = (w[:, None] * raw).sum(axis=0) / w.sum()
    if np.abs(com).max() > 1e-9 * scale:
        bad("centre of mass is not at the origin", com.tolist())
    com = (w[:, None] * g1).sum(axis=0) / w.sum()
    if np.abs(com).max() > 6e-7:
        bad("centre of mass is not at the origin (rounded geometry)", com.tolist())
    # inertia tensor diagonal, ascending
    t = inertia_ref(raw, w)
    tsc = 1.0 + float(np.abs(t).max())
    off = max(abs(t[0][1]), abs(t[0][2]), abs(t[1][2]))
    if off > 1e-8 * tsc:
        bad("inertia tensor is not diagonal after orientation", t.tolist())
    if not (t[0][0] <= t[1][1] + 1e-8 * tsc and t[1][1] <= t[2][2] + 1e-8 * tsc):
        bad("principal moments are not in ascending order", [t[0][0], t[1][1], t[2][2]])
    # phase convention (on the unrounded result, threshold 1e-8)
    for ax in range(3):
        if not first_significant_positive(raw[:, ax], NOISE):
            bad(f"phase convention violated on axis {ax}: first atom with |coordinate| >= 1e-8 is negative", raw[:, ax].tolist())
    # asymmetric top?
    mom = sorted([t[0][0], t[1][1], t[2][2]])
    gap = min(mom[1] - mom[0], mom[2] - mom[1])
    asym = n >= 3 and gap > 1e-2 * tsc
    obs["asym"] = asym
    # conditioning: a coordinate perturbation d (the 8-decimal rounding, <= 5e-9) changes the tensor by <= ~2 d sum m|x|,
    # turns the eigenvectors by <= that / gap, and so moves coordinates by <= that * max|x|
    amp = 1.0 + (4.0 * float((w * np.linalg.norm(raw, axis=1)).sum()) * float(np.abs(raw).max()) / gap if asym else 0.0)
    # float_prep also sets entries with |x| < 5**-9 ~ 5.12e-7 to zero (on every stored geometry): where that is active the
    # perturbation is 5.2e-7 instead of the 8-decimal rounding
    gin = np.array([[float(Fr(c)) for c in p] for p in case["geom"]], dtype=float)
    zeroing = bool(np.any((np.abs(raw) > 0) & (np.abs(raw) < 5.2e-7)) or np.any((np.abs(gin) > 0) & (np.abs(gin) < 5.2e-7)))
    utol = (1.1e-6 if zeroing else 2e-8) * amp
    rtol = utol if zeroing else 0.0
    # other routes
    o2 = Molecule(orient=True, **kw)
    if np.abs(np.array(o2.geometry) - g1).max() > rtol:
        bad("Molecule(orient=True, ...) differs from orient_molecule()", float(np.abs(np.array(o2.geometry) - g1).max()))
    o3 = Molecule.from_data(kw, dtype="dict", orient=True)
    if np.abs(np.array(o3.geometry) - g1).max() > rtol:
        bad("Molecule.from_data(..., orient=True) differs from orient_molecule()", float(np.abs(np.array(o3.geometry) - g1).max()))
    for nm, o in (("Molecule(orient=True, ...)", o2), ("Molecule.from_data(dict, orient=True)", o3)):
        da = o.dict()
        for k in ("fix_com", "fix_orientation", "fix_symmetry", "symbols", "real"):
            a, b = d0.get(k), da.get(k)
            if not (np.array_equal(a, b) if isinstance(a, np.ndarray) or isinstance(b, np.ndarray) else a == b):
                bad(f"{nm}: field {k} differs from the unoriented molecule", [repr(a), repr(b)])
    txt = psi4_text(case, g0)
    if txt is not None:
        o4 = Molecule.from_data(txt, orient=True)
        g4 = np.array(o4.geometry, dtype=float)
        fl = case.get("flags") or {}
        for k in ("fix_com", "fix_orientation"):
            if bool(getattr(o4, k)) != bool(fl.get(k, False)):
                bad(f"psi4 text route: flag {k} not carried", [getattr(o4, k), fl.get(k, False)])
        # the text route re-derives masses from the symbols, so judge it on its own: centred, diagonal, phase, same shape
        w4 = np.array(o4.masses, dtype=float)
        com4 = (w4[:, None] * g4).sum(axis=0) / w4.sum()
        if np.abs(com4).max() > 6e-7:
            bad("psi4 text route (from_data(text, orient=True)): centre of mass is not at the origin", com4.tolist())
        t4 = inertia_ref(g4, w4)
        s4 = 1.0 + float(np.abs(t4).max())
        if max(abs(t4[0][1]), abs(t4[0][2]), abs(t4[1][2])) > 1e-6 * s4 or not (t4[0][0] <= t4[1][1] + 1e-6 * s4 and t4[1][1] <= t4[2][2] + 1e-6 * s4):
            bad("psi4 text route (from_data(text, orient=True)): inertia tensor is not diagonal ascending", t4.tolist())
        if n > 1 and np.abs(pair_dists(g4) - pair_dists(g0)).max() > 1e-7 * scale:
            bad("psi4 text route: an interatomic distance changed", float(np.abs(pair_dists(g4) - pair_dists(g0)).max()))
        if np.array_equal(w4, w) and np.abs(g4 - g1).max() > rtol:
            bad("psi4 text route differs from orient_molecule()", float(np.abs(g4 - g1).max()))
    # a rigidly moved copy
    mo = case.get("motion")
    if mo:
        P = [tuple(Fr(c) for c in p) for p in case["geom"]]
        Q = move(P, mo)
        mol2, _ = build(case, geom=[[float(c) for c in p] for p in Q])
        om2 = mol2.orient_molecule()
        g2 = np.array(om2.geometry, dtype=float)
        dd = np.abs(pair_dists(g2) - pair_dists(g0)).max() if n > 1 else 0.0
        if dd > 1e-7 * scale:
            bad("an interatomic distance changed (moved copy)", float(dd))
        if asym:
            for ax in range(3):
                c1, c2 = g1[:, ax], g2[:, ax]
                tiny = np.abs(c1).max() < 3e-8 and np.abs(c2).max() < 3e-8
                if not tiny and np.abs(c1 - c2).max() > utol:
                    bad("two rigidly moved copies of an asymmetric top orient to different coordinates",
                        {"axis": ax, "a": c1.tolist(), "b": c2.tolist()})
    # orient twice
    if asym:
        g3 = np.array(omol.orient_molecule().geometry, dtype=float)
        for ax in range(3):
            c1, c3 = g1[:, ax], g3[:, ax]
            tiny = np.abs(c1).max() < 3e-8
            if not tiny and np.abs(c1 - c3).max() > utol:
                bad("orienting twice changes the geometry", {"axis": ax, "once": c1.tolist(), "twice": c3.tolist()})
    return fails, obs


def terms(case, obs):
    """Coq cases: the model fed with numpy's eigh answer for the implementation's own tensor"""
    from qcelemental.models import Molecule
    g0, w, raw = obs["g0"], obs["w"], obs["raw"]
    g = g0.copy()
    g -= np.average(g, axis=0, weights=w)
    T = Molecule._inertial_tensor(g, weight=w)
    lam, V = np.linalg.eigh(T)
    rot = np.dot(g, V)
    out = {}
    # coordinates and masses as the shortest decimals denoting the very same binary64 values (<= 1e-16 relative difference
    # to the exact binary value); numpy's eigenvectors to 11 decimals, eigenvalues to 12 significant digits
    svec = lambda p: "(" + ", ".join(cshort(c) for c in p) + ")"
    atoms = clist([f"({svec(p)}, {cshort(m)})" for p, m in zip(g0, w)])
    near = np.any((np.abs(rot) > 0.5 * NOISE) & (np.abs(rot) < 2 * NOISE))
    lam_s = "(" + ", ".join(cq(Fr(f"{float(x):.11e}")) for x in lam) + ")"
    V_s = "(" + ", ".join("(" + ", ".join(cdec(c, 11) for c in r) + ")" for r in V) + ")"
    if not near:
        out["chk_orient_gen"] = f"({atoms}, ({lam_s}, {V_s}), (Some {clist(raw, cvec)}))"
    else:
        out["near_threshold"] = True
    # the generated tensor on the uncentred geometry as well
    T0 = Molecule._inertial_tensor(g0, weight=w)
    out["chk_tensor"] = f"({atoms}, {cmat(T0)})"
    return out


CHK_TY = {
    "chk_orient_gen": "list (watom QK) * (vec3 QK * mat3 QK) * option (list (vec3 QK))",
    "chk_tensor": "list (watom QK) * mat3 QK",
}

DENS = [1, 1, 2, 4, 5, 8, 10]
ISOTOPES = {"H": [1, 2, 3], "He": [3, 4], "C": [12, 13, 14], "N": [14, 15], "O": [16, 17, 18], "F": [19], "S": [32, 34], "Cl": [35, 37],
            "Li": [6, 7], "Br": [79, 81], "Fe": [54, 56]}


def rnd_coord(rng, lim=5):
    d = rng.choice(DENS)
    return Fr(rng.randint(-lim * d, lim * d), d)


def far_enough(P, dmin=Fr(4, 5)):
    for i in range(len(P)):
        for j in range(i):
            if sum((a - b) ** 2 for a, b in zip(P[i], P[j])) < dmin * dmin:
                return False
    return True


def rnd_motion(rng):
    while True:
        q = [rng.randint(-4, 4) for _ in range(4)]
        if sum(1 for x in q if x) >= 2:
            break
    return {"q": q, "t": [fr_s(rnd_coord(rng, 4)) for _ in range(3)]}


def rnd_molecule(rng, shape):
    n = {"atom": 1, "diatomic": 2}.get(shape) or rng.randint(3, 12)
    while True:
        if shape == "linear":
            d = tuple(rnd_coord(rng, 2) for _ in range(3))
            if all(x == 0 for x in d):
                continue
            o = tuple(rnd_coord(rng, 3) for _ in range(3))
            ks = rng.sample(range(-6, 7), n)
            P = [tuple(o[i] + k * d[i] for i in range(3)) for k in ks]
        elif shape == "planar":
            u = tuple(rnd_coord(rng, 2) for _ in range(3))
            v = tuple(rnd_coord(rng, 2) for _ in range(3))
            o = tuple(rnd_coord(rng, 3) for _ in range(3))
            P = []
            for _ in range(n):
                a, b = rnd_coord(rng, 3), rnd_coord(rng, 3)
                P.append(tuple(o[i] + a * u[i] + b * v[i] for i in range(3)))
        elif shape == "nearplanar":
            # planar up to out-of-plane offsets between 3e-8 and 1e-6: the phase threshold 1e-8 decides the sign of that axis
            n = rng.randint(4, 8)
            P = []
            for _ in range(n):
                off = Fr(rng.choice([-1, 1]) * rng.choice([3, 5, 8, 20, 60, 100]), 10 ** 8)
                P.append((rnd_coord(rng, 4), rnd_coord(rng, 4), off))
            if len(set(P[i][2] for i in range(n))) < 3:
                continue
        elif shape == "symtop":
            # a square of equal atoms in the xy plane plus atoms on the z axis: I_xx = I_yy exactly
            r = Fr(rng.randint(1, 4), rng.choice([1, 2]))
            P = [(r, Fr(0), Fr(0)), (-r, Fr(0), Fr(0)), (Fr(0), r, Fr(0)), (Fr(0), -r, Fr(0))]
            zs = rng.sample([Fr(k, 2) for k in range(-8, 9) if k != 0], rng.randint(0, 3))
            P += [(Fr(0), Fr(0), z) for z in zs]
            n = len(P)
        elif shape == "sphtop":
            r = Fr(rng.randint(1, 3))
            P = [(r, Fr(0), Fr(0)), (-r, Fr(0), Fr(0)), (Fr(0), r, Fr(0)), (Fr(0), -r, Fr(0)), (Fr(0), Fr(0), r), (Fr(0), Fr(0), -r)]
            n = 6
        else:
            P = [tuple(rnd_coord(rng) for _ in range(3)) for _ in range(n)]
        if len(set(P)) == len(P) and far_enough(P):
            break
    if shape in ("symtop", "sphtop"):
        e = rng.choice(["H", "C", "F", "Cl"])
        syms = [e] * 4 + [rng.choice(list(ISOTOPES)) for _ in range(n - 4)] if shape == "symtop" else [e] * 6
        massn = None
    else:
        syms = [rng.choice(list(ISOTOPES)) for _ in range(n)]
        massn = [rng.choice(ISOTOPES[s]) for s in syms] if rng.random() < 0.5 else None
    case = {"symbols": syms, "geom": [[fr_s(c) for c in p] for p in P], "shape": shape}
    if massn:
        case["mass_numbers"] = massn
    elif shape not in ("symtop", "sphtop") and rng.random() < 0.3:
        # explicit masses must lie within 0.5 of the element's isotope range to be accepted; stay close to an isotope
        case["masses"] = [round(ISOTOPES[s][0] * rng.choice([1.0, 1.01, 0.99]) + rng.choice([0, 0.125, -0.125, 0.25]), 3) for s in syms]
    if rng.random() < 0.3 and n > 1 and shape not in ("symtop", "sphtop"):
        real = [rng.random() < 0.7 for _ in range(n)]
        if not any(real):
            real[0] = True
        case["real"] = real
    if rng.random() < 0.25:
        case["extra"] = {"name": "probe", "comment": "c16", "extras": {"tag": 1}}
    if rng.random() < 0.6:
        fl = {}
        if rng.random() < 0.6:
            fl["fix_com"] = True
        if rng.random() < 0.6:
            fl["fix_orientation"] = True
        if rng.random() < 0.25:
            fl["fix_symmetry"] = "c1"
        if rng.random() < 0.1:
            fl["fix_com"] = False
            fl["fix_orientation"] = False
        case["flags"] = fl
    case["motion"] = rnd_motion(rng)
    return case


def gen_cases(ctx):
    rng = ctx.rng
    T = ctx.thorough
    cases = []
    z = lambda *r: [[str(c) for c in p] for p in r]
    # corpus: water, a chiral five-atom molecule with isotopes and a ghost, a diatomic along z, a single atom
    cases.append({"stream": "corpus", "shape": "planar", "symbols": ["O", "H", "H"],
                  "geom": z((0, 0, "-13/100"), (0, "-149/100", "103/100"), (0, "149/100", "103/100")),
                  "motion": {"q": [1, 2, 0, -1], "t": ["1/2", "-3", "7/4"]}})
    cases.append({"stream": "corpus", "shape": "asym", "symbols": ["C", "H", "O", "N", "He"], "mass_numbers": [13, 2, 18, 14, 4],
                  "geom": z((0, 0, 0), (1, 2, 3), (-2, 1, "1/2"), ("3/10", -4, 1), ("11/5", "21/10", -3)),
                  "real": [True, True, False, True, True], "motion": {"q": [3, -1, 2, 1], "t": ["-1", "2", "5/8"]}})
    for fl in ({"fix_com": True}, {"fix_orientation": True}, {"fix_com": True, "fix_orientation": True, "fix_symmetry": "c1"}):
        cases.append({"stream": "corpus", "shape": "asym", "symbols": ["O", "H", "H", "F"], "flags": fl,
                      "geom": z((0, 0, "-13/100"), (0, "-149/100", "103/100"), ("3/10", "149/100", "103/100"), (2, 1, -1)),
                      "motion": {"q": [2, 1, -1, 3], "t": ["3/2", "-1", "1/4"]}})
    cases.append({"stream": "corpus", "shape": "diatomic", "symbols": ["He", "He"], "geom": z((0, 0, 0), (0, 0, 2)),
                  "motion": {"q": [1, 1, 0, 0], "t": ["0", "0", "0"]}})
    cases.append({"stream": "corpus", "shape": "atom", "symbols": ["Ne"], "geom": z((1, 2, 3)), "motion": {"q": [1, 0, 1, 0], "t": ["1", "1", "1"]}})
    plan = [("asym", 6000 if T else 300), ("planar", 1500 if T else 80), ("linear", 1200 if T else 60), ("symtop", 1200 if T else 60),
            ("sphtop", 200 if T else 15), ("nearplanar", 800 if T else 50), ("diatomic", 400 if T else 30), ("atom", 60 if T else 8)]
    for shape, k in plan:
        for _ in range(k):
            c = rnd_molecule(rng, shape)
            c["stream"] = shape
            cases.append(c)
    return cases


def judge(case):
    fails, obs = oracle(case)
    return fails, terms(case, obs), obs


def correspond(ctx):
    corr = Corr()
    corr.rule = ("molecules of 1-12 atoms with rational coordinates in [-5,5] (denominators 1..10), random isotopes / explicit masses / "
                 "ghost atoms, frame flags fix_com / fix_orientation (all four combinations) / fix_symmetry, of shapes: generic (asymmetric), planar, nearly planar (out-of-plane offsets 3e-8..1e-6, around the phase threshold), linear, symmetric top, spherical top, diatomic, single atom; each "
                 "also as a rigidly moved copy (rational rotation from an integer quaternion + translation). A case is non-trivial if it "
                 "has >= 2 atoms; distinct = distinct inputs")
    cases = gen_cases(ctx)
    buckets = {k: [] for k in CHK_TY}
    for case in cases:
        try:
            fails, trm, obs = judge(case)
        except Exception as e:
            corr.errors.append(f"oracle crashed on {case}: {e!r}")
            continue
        corr.count(case["stream"])
        corr.hit("shape_" + case["shape"])
        if obs.get("asym"):
            corr.hit("asymmetric_top")
        if case.get("real") and not all(case["real"]):
            corr.hit("with_ghosts")
        if case.get("mass_numbers") or case.get("masses"):
            corr.hit("with_isotopes_or_masses")
        fl = case.get("flags") or {}
        corr.hit("flags_com%d_orient%d" % (bool(fl.get("fix_com")), bool(fl.get("fix_orientation"))))
        if fl.get("fix_symmetry"):
            corr.hit("flags_symmetry")
        if psi4_text(case, obs["g0"]) is not None:
            corr.hit("route_psi4_text")
        if trm.pop("near_threshold", False):
            corr.hit("model_skipped_near_phase_threshold")
        if len(case["symbols"]) >= 2:
            corr.nontriv({k: v for k, v in case.items() if k != "stream"})
        if ctx.rng.random() < 0.004:
            corr.sample({"case": case, "oriented": np.round(obs["raw"], 6).tolist()})
        for f in fails:
            corr.failures.append({"stream": "oracle-" + case["shape"], "case": {k: v for k, v in case.items() if k != "stream"},
                                  "what": f["what"], "observed": f["observed"]})
        # thorough tier: every molecule goes through the oracle; the (much slower) exact model is run on the corpus and on
        # every second random molecule
        if ctx.thorough and case["stream"] != "corpus" and (corr.streams.get(case["stream"], 0) % 2 == 0):
            corr.hit("oracle_only")
            continue
        for chk, term in trm.items():
            buckets[chk].append((term, case))
    corr.sample({"case": cases[1]})
    ctx.log(f"{len(cases)} molecules through the implementation; evaluating the model: " + ", ".join(f"{k}={len(v)}" for k, v in buckets.items()))
    from concurrent.futures import ThreadPoolExecutor

    def run(chk):
        items = buckets[chk]
        # small shards and a generous timeout: a shard that times out on a busy machine would be reported as a machinery error
        return chk, coqrun.eval_bad_indices("C16-" + chk, REQ, "", chk, [t for t, _ in items],
                                            shard=max(10, min(120, len(items) // 16 + 1)), timeout=3000, ty=CHK_TY[chk])
    todo = [c for c, items in buckets.items() if items]
    with ThreadPoolExecutor(max_workers=len(todo) or 1) as ex:
        results = list(ex.map(run, todo))
    for chk, (badidx, errors) in results:
        items = buckets[chk]
        corr.count("model:" + chk, len(items))
        corr.errors.extend(f"{chk} shard {k}: {e}" for k, e in errors)
        for b in badidx[:6]:
            term, case = items[b]
            corr.disagreements.append({"stream": chk, "case": {k: v for k, v in case.items() if k != "stream"},
                                       "impl": term[-300:], "model": f"{chk} = false"})
    return corr


def search(ctx, corr, reasons):
    found = []
    for d in corr.disagreements:
        try:
            fails, _, _ = judge(dict(d["case"]))
        except Exception:
            continue
        for f in fails:
            found.append({"stream": "search", "case": d["case"], "what": f["what"], "observed": f["observed"]})
    if not found:
        class C2:
            pass
        c2 = C2()
        c2.rng, c2.thorough = ctx.rng, False
        for case in gen_cases(c2):
            try:
                fails, _, _ = judge(case)
            except Exception:
                continue
            for f in fails:
                found.append({"stream": "search-" + case["shape"], "case": {k: v for k, v in case.items() if k != "stream"},
                              "what": f["what"], "observed": f["observed"]})
    return found


def replay(ctx, rp):
    case = dict(rp["case"])
    fails, _, _ = judge(case)
    return {"case": case, "failures": fails, "fails": bool(fails)}


KNOWN = {}

TECHNIQUE = ("Coq proofs (ring/field over an abstract field + induction over the atom list; Reals for the phase convention) about a hand "
             "model of _orient_molecule_internal using the inertia tensor regenerated from the source; eigh as a specified parameter; "
             "differential correspondence + property oracle")
DESIGN_REF = "DESIGN.md §6 C16"
LEVEL_TEXT = (
    "Machine-checked (Coq 8.16.1) for every number of atoms and every mass assignment, with np.linalg.eigh as a parameter constrained "
    "only by its specification on the tensor(s) it is applied to. Over any field: C16_isometry (the new geometry is one map applied to "
    "all positions that preserves |p-q|^2 for all points), C16_com_at_origin, C16_inertia_transforms (I(xV) = V^T I(x) V for the tensor "
    "generated from Molecule._inertial_tensor), C16_inertia_diagonal_ascending, C16_masses_untouched. Over the reals: "
    "C16_phase_convention(_orient) (on each axis the first atom with |coordinate| >= 1e-8 is positive), C16_frame_unique (distinct "
    "moments: a copy moved by any orthogonal matrix and translation orients to the same coordinates; on each axis the columns are equal, "
    "or all entries are below 1e-8 and the columns are opposite) and C16_orient_idempotent (orienting twice, same sense), both for "
    "arbitrary eigh answers meeting the specification. Each run feeds numpy's own eigh answer to the model, checks the eigh "
    "specification on it numerically, compares the model's geometry with _orient_molecule_internal, and evaluates every claim on the "
    "implementation (incl. uniqueness / orient-twice for asymmetric tops and the three construction routes).")
LEVEL_NOTE = (
    "Trusted: Coq kernel + vm_compute; the tensor translator; the hand model of centring/rotation/phase loop (tied by correspondence; the "
    "in-place column flips are modelled as signs applied after the scan); LAPACK eigh (specified, its answer checked numerically each "
    "run); numpy arithmetic and the 8-decimal rounding (tolerances; uniqueness/idempotence on the implementation only up to the rounding "
    "amplified by the eigenvector conditioning). Non-geometric fields do not occur in the model (the code passes them through unchanged); "
    "the oracle compares every field of Molecule.dict(). Real-number theorems depend on the Reals axioms; the others are closed. "
    "Observation (not part of the property): the map applied is orthogonal but not necessarily proper - orientation sends a molecule and "
    "its mirror image to the same coordinates (C16_frame_unique holds for improper Rm), i.e. it can invert chirality.")
