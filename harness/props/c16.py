"""C16 — orientation into the inertial frame.

translate : Molecule._inertial_tensor + GEOMETRY_NOISE (qcelemental/models/molecule.py) -> coq/Gen/Inertia.v; the body of
            _orient_molecule_internal -> coq/Gen/OrientBody.v; float_prep + the orient branch of __init__ -> coq/Gen/OrientStore.v
correspond: Model/Orient.v (run over Q, with numpy's own eigh answer for the tensor passed in and checked numerically against the
            eigh specification) against Molecule._orient_molecule_internal; the generated tensor against
            Molecule._inertial_tensor; and the property oracle on the implementation (isometry, non-geometric fields, centre
            of mass, diagonal ascending inertia tensor, phase convention, frame uniqueness for asymmetric tops, orient twice,
            constructor / orient_molecule / from_data routes)."""
import contextlib
import io
import math
import os
from fractions import Fraction as Fr

import numpy as np

from .. import coqrun
from ..core import Corr
from ..coqrun import clist, cq
from ..translate import inertia

PID = "C16"
ALLOWED_AXIOMS = {
    "ClassicalDedekindReals.sig_forall_dec", "ClassicalDedekindReals.sig_not_dec",
    "FunctionalExtensionality.functional_extensionality_dep", "Classical_Prop.classic",
}
TRUSTED = [
    "translator harness/translate/inertia.py (the nine tensor assignments of Molecule._inertial_tensor and GEOMETRY_NOISE -> Gen/Inertia.v; fail-closed)",
    "translator generate_body in harness/translate/inertia.py: statement order and loop skeleton of _orient_molecule_internal are checked "
    "against the source text (fail-closed, incl. that only self.geometry / self.masses / self._inertial_tensor are consulted), its "
    "operands, tests, multiplier and threshold are translated into Gen/OrientBody.v over the hand-written primitives of "
    "Common/Geo3Loop.v (np.average with weights, in-place row subtraction, np.dot, abs, the loop skeleton)",
    "the hand-written model Model/Orient.v (deferred signs) is no longer trusted for the body: C16_generated_body_is_model proves the "
    "generated body equal to it for all inputs; the correspondence now executes the generated body",
    "np.linalg.eigh (LAPACK) is not modelled: it is a parameter of the model constrained by eigh_ok (V^T V = V V^T = I, A V = V diag(w), "
    "w ascending); every run evaluates this predicate numerically (1e-9) on what numpy returned for each molecule",
    "numpy elementwise arithmetic, np.average, np.dot, float_prep rounding to 8 decimals: modelled over an exact field / compared with "
    "tolerance (1e-9 for the unrounded geometry, 3e-8 for rounded geometries)",
    "the executable Q instance Common/Geo3Q.v is used only to run the model",
    "translator generate_store in harness/translate/inertia.py (fail-closed): float_prep's list/ndarray branch (np.around, comparison, "
    "threshold base ** -(around + c), fill value) and the `if orient:` branch of Molecule.__init__ -> Gen/OrientStore.v; structurally "
    "pinned: geometry_noise = kwargs.pop('geometry_noise', GEOMETRY_NOISE), orient_molecule = Molecule(orient=True, **self.dict()), "
    "from_data / from_file / get_fragment only pass `orient` (default False) on",
    "np.around is a parameter of the stored-geometry theorems, assumed only to return a value within half a unit (0.5e-8) of its "
    "argument; the correspondence runs an exact round-half-even (Model/OrientCheck.v q_around) and accepts one unit of difference",
]
ASSUMPTIONS = [
    "validated molecules: total mass positive (every mass positive, except massless dummy atoms 'X' next to at least one massive atom); 1-12 atoms",
    "call histories: groups of 2-6 molecules sharing symbols + bit-identical geometry (other isotopes / explicit masses / ghosts / frame "
    "flags / geometry_noise), or symbols + masses (one atom displaced), or geometry (one element replaced), are oriented back to back "
    "in one interpreter in both orders and each judged on its own (oracle only); so are copy(update=...) of an already oriented-from "
    "molecule and get_fragment(..., orient=True); _orient_molecule_internal must repeat its answer after the array it returned is overwritten",
    "frame uniqueness / orient-twice are claimed (and checked) for asymmetric tops only (gaps between principal moments >= 1e-2 of the "
    "largest); on the implementation they are checked up to the 8-decimal rounding amplified by the conditioning of the eigenvectors: "
    "tolerance 2e-8 * (1 + 4 sum m|x| max|x| / gap)",
    "cases in which some rotated coordinate lies within a factor 2 of the 1e-8 phase threshold are not compared with the exact model "
    "(the binary64 and exact decisions may legitimately differ there); they are counted",
    "sign convention on the returned molecule: claimed only when no earlier atom of that column lies in the flush zone "
    "1e-8 <= |x| < 5^-9 (otherwise: known finding C16-phase-flush-zone)",
]
EXTRA_TARGETS = ["Model/Orient.vo", "Model/OrientCheck.vo"]
REQ = ["QV.Common.Outcome", "QV.Common.Geo3", "QV.Common.Geo3Q", "QV.Common.Geo3Sum", "QV.Gen.Inertia", "QV.Model.Orient",
       "QV.Model.OrientCheck"]
NOISE = 1e-8


def translate(ctx):
    inertia.generate(ctx.repo, os.path.join(coqrun.COQ, "Gen", "Inertia.v"))
    inertia.generate_body(ctx.repo, os.path.join(coqrun.COQ, "Gen", "OrientBody.v"))
    inertia.generate_store(ctx.repo, os.path.join(coqrun.COQ, "Gen", "OrientStore.v"))


# ------------------------------------------------------------------------------------------------
def fr_s(x):
    return f"{x.numerator}/{x.denominator}"


def quat_matrix(q):
    a, b, c, d = (Fr(x) for x in q)
    n = a * a + b * b + c * c + d * d
    return [[(a * a + b * b - c * c - d * d) / n, 2 * (b * c - a * d) / n, 2 * (b * d + a * c) / n],
            [2 * (b * c + a * d) / n, (a * a - b * b + c * c - d * d) / n, 2 * (c * d - a * b) / n],
            [2 * (b * d - a * c) / n, 2 * (c * d + a * b) / n, (a * a - b * b - c * c + d * d) / n]]


def move(P, motion):
    M = quat_matrix(motion["q"])
    t = [Fr(x) for x in motion["t"]]
    return [tuple(sum(M[i][k] * p[k] for k in range(3)) + t[i] for i in range(3)) for p in P]


def cfl(x):
    return cq(Fr(float(x)))


def cdec(x, digits):
    """a binary64 value rounded to `digits` decimals, as a short exact rational (keeps the model's numbers small)"""
    return cq(Fr(f"{float(x):.{digits}f}"))


def cshort(x):
    """shortest decimal that round-trips to the binary64 value x, as an exact rational"""
    return cq(Fr(repr(float(x))))


def cvec(p):
    return "(" + ", ".join(cfl(c) for c in p) + ")"


def cmat(m):
    return "(" + ", ".join(cvec(r) for r in m) + ")"


def build(case, geom=None):
    from qcelemental.models import Molecule
    ga = np.array(geom if geom is not None else [[float(Fr(c)) for c in p] for p in case["geom"]], dtype=float)
    # the same numbers in the container the case asks for: flat (3n,) [default], (n,3), Fortran-ordered (n,3), the transposed view of
    # a (3,n) array, a non-contiguous window of a larger array, big-endian, nested / flat Python lists
    how = case.get("geometry_as") or "flat"
    if how == "flat":
        gg = ga.ravel()
    elif how == "n3":
        gg = ga
    elif how == "n3f":
        gg = np.asfortranarray(ga)
    elif how == "n3t":
        gg = np.array([ga[:, k].copy() for k in range(3)]).T
    elif how == "slice":
        big = np.full((2 * ga.shape[0] + 1, 7), 99.5)
        gg = big[1::2, 2:5]
        gg[...] = ga
    elif how == "be":
        gg = ga.ravel().astype(">f8")
    elif how == "list":
        gg = ga.tolist()
    elif how == "flatlist":
        gg = ga.ravel().tolist()
    else:
        raise ValueError(how)
    kw = dict(symbols=case["symbols"], geometry=gg)
    if case.get("mass_numbers"):
        kw["mass_numbers"] = case["mass_numbers"]
    if case.get("masses"):
        kw["masses"] = case["masses"]
    if case.get("real"):
        kw["real"] = case["real"]
    if case.get("extra"):
        kw.update(case["extra"])
    # frame flags carried by the molecule (psi4 no_com / no_reorient / symmetry): orientation must act all the same
    for k, v in (case.get("flags") or {}).items():
        kw[k] = v
    return Molecule(**kw), kw


def psi4_text(case, geom):
    """the molecule as a psi4 string (only for cases without isotopes / explicit masses), with the frame flags spelled out"""
    if case.get("mass_numbers") or case.get("masses") or case.get("extra"):
        return None
    fl = case.get("flags") or {}
    lines = ["units bohr"]
    if fl.get("fix_com"):
        lines.append("no_com")
    if fl.get("fix_orientation"):
        lines.append("no_reorient")
    if fl.get("fix_symmetry"):
        lines.append("symmetry " + fl["fix_symmetry"])
    real = case.get("real") or [True] * len(case["symbols"])
    for sym, r, p in zip(case["symbols"], real, geom):
        lines.append(("" if r else "@") + sym + " " + " ".join(repr(float(c)) for c in p))
    return "\n".join(lines) + "\n"


def inertia_ref(geom, masses):
    """independent inertia tensor sum m (|x|^2 1 - x x^T) about the origin"""
    g = np.asarray(geom, dtype=float)
    m = np.asarray(masses, dtype=float)
    t = np.zeros((3, 3))
    for x, w in zip(g, m):
        t += w * (np.dot(x, x) * np.eye(3) - np.outer(x, x))
    return t


def pair_dists(g):
    g = np.asarray(g, dtype=float)
    return np.sqrt(((g[:, None, :] - g[None, :, :]) ** 2).sum(axis=2))


def first_significant_positive(col, thr):
    for v in col:
        if abs(v) >= thr:
            return v > 0
    return True


def sign_decider(col):
    """the coordinate that settles the sign of a column in the phase loop: the first one with |x| >= 1e-8 (None: none)"""
    return next((float(v) for v in col if abs(v) >= NOISE), None)


def sign_undetermined(tol, *cols):
    """The sign-deciding coordinate of one of these internal columns (the same axis in two orientations that are to be compared) is no
    larger than tol, the accuracy to which the coordinates of this molecule are reproduced between the two (rounding / zero flip
    amplified by the conditioning of the eigenvectors): the perturbation may carry it through zero, so the sign of the column is not
    determined at the accuracy claimed and the columns are compared up to sign."""
    return any(d is not None and abs(d) <= tol for d in (sign_decider(c) for c in cols))


FLUSH = 5.0 ** -9          # float_prep's zero-flip threshold for the geometry (5 ** -(GEOMETRY_NOISE + 1) = 5.12e-7)


def flush_zone_pattern(raw_col, stored_col):
    """The narrow shape of the known finding C16-phase-flush-zone on one axis: the internal convention holds (the first atom with
    |raw| >= 1e-8 is positive), that atom lies below float_prep's zero-flip threshold and is stored as 0.0, every atom before the
    first non-zero stored one is stored as 0.0 because it is below that threshold, and the first non-zero stored atom is an
    unchanged (rounded) negative raw coordinate."""
    raw_col, stored_col = [float(x) for x in raw_col], [float(x) for x in stored_col]
    if len(raw_col) != len(stored_col):
        return False
    i = next((k for k, v in enumerate(raw_col) if abs(v) >= NOISE), None)
    j = next((k for k, v in enumerate(stored_col) if v != 0.0), None)
    if i is None or j is None or not j > i:
        return False
    if not (NOISE <= raw_col[i] < FLUSH + 0.5e-8 and stored_col[i] == 0.0):
        return False
    if any(abs(raw_col[k]) >= FLUSH + 0.5e-8 for k in range(j)):
        return False
    return stored_col[j] < 0 and raw_col[j] < 0 and abs(stored_col[j] - raw_col[j]) <= 0.5e-8 + 1e-12 * (1 + abs(raw_col[j]))


def deep_eq(a, b):
    """equality of Molecule.dict() values: arrays, lists of arrays, nested dicts"""
    if isinstance(a, np.ndarray) or isinstance(b, np.ndarray):
        try:
            return np.shape(a) == np.shape(b) and bool(np.array_equal(np.asarray(a), np.asarray(b)))
        except Exception:
            return False
    if isinstance(a, dict) and isinstance(b, dict):
        return set(a) == set(b) and all(deep_eq(a[k], b[k]) for k in a)
    if isinstance(a, (list, tuple)) and isinstance(b, (list, tuple)):
        return len(a) == len(b) and all(deep_eq(x, y) for x, y in zip(a, b))
    if isinstance(a, dict) or isinstance(b, dict) or isinstance(a, (list, tuple)) or isinstance(b, (list, tuple)):
        return False
    return bool(a == b)


def frame_complaints(g, w, gref, slack=0.0):
    """a stored oriented geometry g (masses w) judged on its own: centred, diagonal ascending tensor, the shape of gref"""
    out = []
    g, w, gref = np.asarray(g, dtype=float), np.asarray(w, dtype=float), np.asarray(gref, dtype=float)
    if g.shape != gref.shape:
        return [("wrong number of atoms", [list(g.shape), list(gref.shape)])]
    com = (w[:, None] * g).sum(axis=0) / w.sum()
    if np.abs(com).max() > 6e-7:
        out.append(("centre of mass is not at the origin", com.tolist()))
    t = inertia_ref(g, w)
    sc = 1.0 + float(np.abs(t).max())
    if max(abs(t[0][1]), abs(t[0][2]), abs(t[1][2])) > 1e-6 * sc or not (t[0][0] <= t[1][1] + 1e-6 * sc and t[1][1] <= t[2][2] + 1e-6 * sc):
        out.append(("inertia tensor is not diagonal ascending", t.tolist()))
    if len(g) > 1 and np.abs(pair_dists(g) - pair_dists(gref)).max() > 1e-7 * (1.0 + float(np.abs(gref).max())) + slack:
        out.append(("an interatomic distance changed", float(np.abs(pair_dists(g) - pair_dists(gref)).max())))
    return out


def oracle(case):
    """returns (failures, observations)"""
    from qcelemental.models import Molecule
    fails = []

    def bad(what, obs):
        fails.append({"what": what, "observed": obs})
    mol, kw = build(case)
    g0 = np.array(mol.geometry, dtype=float)
    w = np.array(mol.masses, dtype=float)
    # the constructor keeps the caller's points (rounded to 8 decimals, |x| < 5**-9 -> 0), whatever container they came in
    gin_ = np.array([[float(Fr(c)) for c in p] for p in case["geom"]], dtype=float)
    if g0.shape != gin_.shape or not ((np.abs(g0 - gin_) <= 0.5e-8 + 1e-15 * np.abs(gin_)) | ((g0 == 0) & (np.abs(gin_) < 5.2e-7))).all():
        bad("the molecule does not hold the points it was given (geometry handed over as " + (case.get("geometry_as") or "flat") + ")",
            {"given": gin_.tolist(), "stored": g0.tolist()})
        return fails, {"g0": g0, "w": w, "raw": g0, "g1": g0}
    raw = np.array(mol._orient_molecule_internal(), dtype=float)
    # asked again, and again after the array handed out before has been overwritten: the same answer (nothing handed out is shared
    # with later answers, nothing remembered from the earlier call changes the result)
    again = mol._orient_molecule_internal()
    same_again = np.array_equal(np.array(again, dtype=float), raw)
    try:
        again[...] = 12345.678
    except Exception:
        pass
    third = np.array(mol._orient_molecule_internal(), dtype=float)
    if not same_again or not np.array_equal(third, raw):
        bad("_orient_molecule_internal() gives another answer when asked again / after the array it returned before was overwritten",
            {"first": raw.tolist(), "again_equal": bool(same_again), "third": third.tolist()})
    omol = mol.orient_molecule()
    g1 = np.array(omol.geometry, dtype=float)
    n = len(w)
    obs = {"g0": g0, "w": w, "raw": raw, "g1": g1}
    scale = 1.0 + float(np.abs(g0).max())
    # stored geometry = float_prep(internal result): rounded to 8 decimals, and (as float_prep does for every geometry) entries
    # below 5**-9 ~ 5.12e-7 in magnitude set to zero
    ok = (np.abs(g1 - raw) <= 0.5e-8 + 1e-12 * scale) | ((g1 == 0) & (np.abs(raw) < 5.2e-7))
    if not ok.all():
        bad("oriented geometry is not the internal result after the geometry rounding (8 decimals, |x| < 5**-9 -> 0)",
            float(np.abs(g1 - raw).max()))
    # isometry
    # stored geometries: within the 8-decimal rounding; where float_prep's zero flip (|x| < 5**-9 -> 0, C11-zero-flip-threshold) is
    # active on a coordinate of the result, within that (each of the two atoms of a pair may be moved by up to 5.12e-7 per axis)
    def flip_slack(r):
        return 1.6e-6 if np.any((np.abs(r) > 0.5e-8) & (np.abs(r) < 5.2e-7)) else 0.0
    dd = np.abs(pair_dists(g1) - pair_dists(g0)).max() if n > 1 else 0.0
    if dd > 1e-7 * scale + flip_slack(raw):
        bad("an interatomic distance changed", float(dd))
    dd = np.abs(pair_dists(raw) - pair_dists(g0)).max() if n > 1 else 0.0
    if dd > 1e-9 * scale:
        bad("an interatomic distance changed (unrounded geometry)", float(dd))
    # non-geometric fields
    d0, d1 = mol.dict(), omol.dict()
    for k in sorted(set(d0) | set(d1)):
        if k == "geometry":
            continue
        a, b = d0.get(k, "<absent>"), d1.get(k, "<absent>")
        same = deep_eq(a, b)
        if not same:
            bad(f"orient_molecule(): non-geometric field {k} changed", [repr(a)[:200], repr(b)[:200]])
    # nothing the caller supplied may be dropped: every optional block given to the constructor is present afterwards
    for k, v in (case.get("extra") or {}).items():
        if k in ("identifiers", "extras") and isinstance(v, dict):
            got = d1.get(k) or {}
            lost = sorted(kk for kk in v if kk not in got or not deep_eq(got[kk], v[kk]))
            if lost:
                bad(f"orient_molecule(): entries of the caller's {k} block are lost", {"lost": lost, "after": repr(d1.get(k))[:200]})
        elif k in ("name", "comment") and d1.get(k) != v:
            bad(f"orient_molecule(): the caller's {k} is lost", [v, repr(d1.get(k))])
    # centre of mass
    com = (w[:, None] * raw).sum(axis=0) / w.sum()
    if np.abs(com).max() > 1e-9 * scale:
        bad("centre of mass is not at the origin", com.tolist())
    com = (w[:, None] * g1).sum(axis=0) / w.sum()
    if np.abs(com).max() > 6e-7:
        bad("centre of mass is not at the origin (rounded geometry)", com.tolist())
    # inertia tensor diagonal, ascending
    t = inertia_ref(raw, w)
    tsc = 1.0 + float(np.abs(t).max())
    off = max(abs(t[0][1]), abs(t[0][2]), abs(t[1][2]))
    if off > 1e-8 * tsc:
        bad("inertia tensor is not diagonal after orientation", t.tolist())
    if not (t[0][0] <= t[1][1] + 1e-8 * tsc and t[1][1] <= t[2][2] + 1e-8 * tsc):
        bad("principal moments are not in ascending order", [t[0][0], t[1][1], t[2][2]])
    # phase convention (on the unrounded result, threshold 1e-8)
    for ax in range(3):
        if not first_significant_positive(raw[:, ax], NOISE):
            bad(f"phase convention violated on axis {ax}: first atom with |coordinate| >= 1e-8 is negative", raw[:, ax].tolist())
    # the sign convention as the property states it, on the molecule that is handed back: the first atom off each coordinate plane
    # (non-zero stored coordinate) is positive
    for ax in range(3):
        if not first_significant_positive(g1[:, ax], 1e-300):
            bad(f"sign convention violated on the stored geometry (axis {ax}): the first atom with a non-zero coordinate in the "
                "returned molecule is negative", {"axis": ax, "stored": g1[:, ax].tolist(), "raw": raw[:, ax].tolist()})
    # the stored geometry lies on the 8-decimal grid
    if not np.array_equal(np.around(g1, 8), g1):
        bad("oriented geometry is not rounded to 8 decimals", float(np.abs(np.around(g1, 8) - g1).max()))
    # the caller's molecule is not modified (the internal routine works on a copy)
    if not np.array_equal(np.array(mol.geometry, dtype=float), g0):
        bad("orient_molecule() modified the geometry of the molecule it was called on", float(np.abs(np.array(mol.geometry) - g0).max()))
    # asymmetric top?
    mom = sorted([t[0][0], t[1][1], t[2][2]])
    gap = min(mom[1] - mom[0], mom[2] - mom[1])
    asym = n >= 3 and gap > 1e-2 * tsc
    obs["asym"] = asym
    # conditioning: a coordinate perturbation d (the 8-decimal rounding, <= 5e-9) changes the tensor by <= ~2 d sum m|x|,
    # turns the eigenvectors by <= that / gap, and so moves coordinates by <= that * max|x|
    amp = 1.0 + (4.0 * float((w * np.linalg.norm(raw, axis=1)).sum()) * float(np.abs(raw).max()) / gap if asym else 0.0)
    # float_prep also sets entries with |x| < 5**-9 ~ 5.12e-7 to zero (on every stored geometry): where that is active the
    # perturbation is 5.2e-7 instead of the 8-decimal rounding
    gin = np.array([[float(Fr(c)) for c in p] for p in case["geom"]], dtype=float)
    zeroing = bool(np.any((np.abs(raw) > 0) & (np.abs(raw) < 5.2e-7)) or np.any((np.abs(gin) > 0) & (np.abs(gin) < 5.2e-7)))
    utol = (1.1e-6 if zeroing else 2e-8) * amp
    rtol = utol if zeroing else 0.0

    # A column whose first visible (non-zero stored) atom is preceded by an atom at or near the phase threshold (|raw| >= 0.4e-8) that
    # the stored molecule shows ON the plane: its sign was decided (or nearly so) by an atom the returned molecule does not show off
    # the plane (known finding C16-phase-flush-zone, reported through the stored sign convention above); the sign of such a column
    # is not a function of the stored molecule, so it is compared up to sign below, and counted.
    def sign_free(ax):
        j = next((k for k in range(n) if g1[k, ax] != 0.0), None)
        if j is not None and any(abs(raw[k, ax]) >= 0.4 * NOISE for k in range(j)):
            return True
        # routes that start from the caller's numbers and from the stored (zero-flipped) molecule: coordinates agree to rtol only
        return rtol > 0 and sign_undetermined(rtol, raw[:, ax])
    free = [sign_free(ax) for ax in range(3)]
    obs["sign_free_axes"] = sum(free)

    def route_diff(g):
        g = np.array(g, dtype=float)
        return max(min(float(np.abs(g[:, ax] - g1[:, ax]).max()), float(np.abs(g[:, ax] + g1[:, ax]).max())) if free[ax]
                   else float(np.abs(g[:, ax] - g1[:, ax]).max()) for ax in range(3))
    # what is stored, for the model of float_prep: default geometry_noise, and (some cases) a caller-chosen one
    obs["stored"] = [(8, g1)]
    gn = case.get("geometry_noise")
    if gn is not None:
        gs = np.array(Molecule(orient=True, geometry_noise=gn, **mol.dict()).geometry, dtype=float)
        unit, thr = 10.0 ** -gn, 5.0 ** -(gn + 1)
        okn = (np.abs(gs - raw) <= 0.5 * unit + 1e-12 * scale) | ((gs == 0) & (np.abs(raw) < thr + 0.5 * unit))
        if not okn.all() or not np.array_equal(np.around(gs, gn), gs):
            bad(f"Molecule(orient=True, geometry_noise={gn}, ...) is not the internal result rounded to {gn} decimals (|x| < 5**-{gn + 1} -> 0)",
                float(np.abs(gs - raw).max()))
        obs["stored"].append((gn, gs))
    # other routes
    gin0 = np.array(kw["geometry"], dtype=float).copy()
    o2 = Molecule(orient=True, **kw)
    if not np.array_equal(np.array(kw["geometry"], dtype=float), gin0):
        bad("Molecule(orient=True, geometry=a, ...) modified the caller's array a", float(np.abs(np.array(kw["geometry"]) - gin0).max()))
    if route_diff(o2.geometry) > rtol:
        bad("Molecule(orient=True, ...) differs from orient_molecule()", route_diff(o2.geometry))
    o5 = Molecule(orient=True, validate=False, **mol.dict())
    if route_diff(o5.geometry) > rtol:
        bad("Molecule(orient=True, validate=False, **mol.dict()) differs from orient_molecule()", route_diff(o5.geometry))
    o3 = Molecule.from_data(kw, dtype="dict", orient=True)
    if route_diff(o3.geometry) > rtol:
        bad("Molecule.from_data(..., orient=True) differs from orient_molecule()", route_diff(o3.geometry))
    # every route keeps every non-geometric field of the unoriented molecule (and so the routes agree with each other)
    for nm, o in (("Molecule(orient=True, ...)", o2), ("Molecule.from_data(dict, orient=True)", o3),
                  ("Molecule(orient=True, validate=False, **mol.dict())", o5), ("orient_molecule() applied twice", omol.orient_molecule())):
        da = o.dict()
        for k in sorted(set(d0) | set(da)):
            if k == "geometry":
                continue
            a, b = d0.get(k, "<absent>"), da.get(k, "<absent>")
            if not deep_eq(a, b):
                bad(f"{nm}: non-geometric field {k} differs from the unoriented molecule", [repr(a)[:200], repr(b)[:200]])
    # get_fragment(..., orient=True): the fragment (alone / with the rest as ghosts) is centred and oriented with ITS atoms' masses
    frs = (case.get("extra") or {}).get("fragments")
    if frs and len(frs) == 2:
        for real_, ghost_ in ((0, None), (1, None), (0, 1), (1, 0)):
            idx = list(frs[real_]) + (list(frs[ghost_]) if ghost_ is not None else [])
            nm = f"get_fragment({real_}, {ghost_}, orient=True)"
            try:
                with contextlib.redirect_stdout(io.StringIO()):        # the charge/multiplicity resolver prints its table when it gives up
                    mol.get_fragment(real_, ghost_)
            except Exception:
                continue        # charge / multiplicity of this fragment cannot be settled: nothing to orient (not this property's business)
            if not w[idx].sum() > 0:
                continue        # only massless dummy atoms: no centre of mass (outside the stated assumption: total mass positive)
            try:
                fm = mol.get_fragment(real_, ghost_, orient=True)
            except Exception as e:
                bad(nm + " raised", repr(e))
                continue
            gf, wf = np.array(fm.geometry, dtype=float), np.array(fm.masses, dtype=float)
            if not np.array_equal(wf, w[idx]):
                bad(nm + ": masses are not those of the fragment's atoms", [wf.tolist(), w[idx].tolist()])
                continue
            for what_, ob_ in frame_complaints(gf, wf, g0[idx], 1.6e-6):
                bad(nm + ": " + what_, ob_)
    # a copy of the (already oriented-from) molecule with other masses / another geometry, oriented: judged on its own - whatever
    # the first molecule remembers about its own orientation must not travel with copy()
    try:
        w2 = np.array([x * (1.0 + 0.25 * ((k * 7 + 3) % 5) / 4.0) for k, x in enumerate(w)], dtype=float)
        for nm, upd, wexp, gexp in (("copy(update={'masses_': other masses}).orient_molecule()", {"masses_": w2}, w2, g0),
                                    ("copy(update={'geometry': permuted axes + shift}).orient_molecule()",
                                     {"geometry": np.around(g0[:, [1, 2, 0]] * np.array([1.0, -1.0, 1.0]) + np.array([0.5, -1.25, 2.0]), 8)}, w, g0)):
            oc = mol.copy(update=upd).orient_molecule()
            if not np.array_equal(np.array(oc.masses, dtype=float), wexp):
                bad(nm + ": masses are not those of the copy", [np.array(oc.masses).tolist(), wexp.tolist()])
                continue
            for what_, ob_ in frame_complaints(np.array(oc.geometry, dtype=float), wexp, gexp, 1.6e-6):
                bad(nm + ": " + what_, ob_)
    except Exception as e:
        bad("copy(update=...).orient_molecule() raised", repr(e))
    txt = psi4_text(case, g0)
    if txt is not None:
        o4 = Molecule.from_data(txt, orient=True)
        g4 = np.array(o4.geometry, dtype=float)
        fl = case.get("flags") or {}
        for k in ("fix_com", "fix_orientation"):
            if bool(getattr(o4, k)) != bool(fl.get(k, False)):
                bad(f"psi4 text route: flag {k} not carried", [getattr(o4, k), fl.get(k, False)])
        # the text route re-derives masses from the symbols, so judge it on its own: centred, diagonal, phase, same shape
        w4 = np.array(o4.masses, dtype=float)
        com4 = (w4[:, None] * g4).sum(axis=0) / w4.sum()
        if np.abs(com4).max() > 6e-7:
            bad("psi4 text route (from_data(text, orient=True)): centre of mass is not at the origin", com4.tolist())
        t4 = inertia_ref(g4, w4)
        s4 = 1.0 + float(np.abs(t4).max())
        if max(abs(t4[0][1]), abs(t4[0][2]), abs(t4[1][2])) > 1e-6 * s4 or not (t4[0][0] <= t4[1][1] + 1e-6 * s4 and t4[1][1] <= t4[2][2] + 1e-6 * s4):
            bad("psi4 text route (from_data(text, orient=True)): inertia tensor is not diagonal ascending", t4.tolist())
        if n > 1 and np.abs(pair_dists(g4) - pair_dists(g0)).max() > 1e-7 * scale + flip_slack(raw):
            bad("psi4 text route: an interatomic distance changed", float(np.abs(pair_dists(g4) - pair_dists(g0)).max()))
        if np.array_equal(w4, w) and route_diff(g4) > rtol:
            bad("psi4 text route differs from orient_molecule()", route_diff(g4))
    # a rigidly moved copy
    mo = case.get("motion")
    if mo:
        P = [tuple(Fr(c) for c in p) for p in case["geom"]]
        Q = move(P, mo)
        mol2, _ = build(case, geom=[[float(c) for c in p] for p in Q])
        om2 = mol2.orient_molecule()
        g2 = np.array(om2.geometry, dtype=float)
        dd = np.abs(pair_dists(g2) - pair_dists(g0)).max() if n > 1 else 0.0
        qin = np.array([[float(c) for c in p] for p in Q], dtype=float)
        if dd > 1e-7 * scale + max(flip_slack(np.array(mol2._orient_molecule_internal(), dtype=float)), flip_slack(qin)):
            bad("an interatomic distance changed (moved copy)", float(dd))
        if asym:
            rawm = np.array(mol2._orient_molecule_internal(), dtype=float)
            for ax in range(3):
                c1, c2 = g1[:, ax], g2[:, ax]
                tiny = np.abs(c1).max() < 3e-8 and np.abs(c2).max() < 3e-8
                if not tiny and (free[ax] or sign_undetermined(utol, raw[:, ax], rawm[:, ax])) and np.abs(c1 + c2).max() <= utol:
                    continue
                if not tiny and np.abs(c1 - c2).max() > utol:
                    bad("two rigidly moved copies of an asymmetric top orient to different coordinates",
                        {"axis": ax, "a": c1.tolist(), "b": c2.tolist()})
    # orient twice
    if asym:
        g3 = np.array(omol.orient_molecule().geometry, dtype=float)
        raw2 = np.array(omol._orient_molecule_internal(), dtype=float)
        for ax in range(3):
            c1, c3 = g1[:, ax], g3[:, ax]
            tiny = np.abs(c1).max() < 3e-8
            # The sign of a column is settled by its first coordinate with |x| >= 1e-8. When that coordinate is, in the first or in the
            # second orientation, no larger than the accuracy utol to which this very molecule's coordinates are reproduced (the rounding /
            # zero flip amplified by the conditioning of its eigenvectors), the perturbation may carry it through zero: the sign of the
            # column is not determined at the accuracy claimed, and the column is compared up to sign (everything else as before); counted.
            if not tiny and sign_undetermined(utol, raw[:, ax], raw2[:, ax]) and np.abs(c1 - c3).max() > utol and np.abs(c1 + c3).max() <= utol:
                obs["twice_sign_undetermined_axes"] = obs.get("twice_sign_undetermined_axes", 0) + 1
                continue
            if not tiny and np.abs(c1 - c3).max() > utol:
                bad("orienting twice changes the geometry", {"axis": ax, "once": c1.tolist(), "twice": c3.tolist(),
                                                             "raw": raw[:, ax].tolist(), "raw2": raw2[:, ax].tolist(), "utol": utol})
    return fails, obs


def terms(case, obs):
    """Coq cases: the model fed with numpy's eigh answer for the implementation's own tensor"""
    from qcelemental.models import Molecule
    g0, w, raw = obs["g0"], obs["w"], obs["raw"]
    g = g0.copy()
    g -= np.average(g, axis=0, weights=w)
    T = Molecule._inertial_tensor(g, weight=w)
    lam, V = np.linalg.eigh(T)
    rot = np.dot(g, V)
    out = {}
    # coordinates and masses as the shortest decimals denoting the very same binary64 values (<= 1e-16 relative difference
    # to the exact binary value); numpy's eigenvectors to 11 decimals, eigenvalues to 12 significant digits
    svec = lambda p: "(" + ", ".join(cshort(c) for c in p) + ")"
    atoms = clist([f"({svec(p)}, {cshort(m)})" for p, m in zip(g0, w)])
    near = np.any((np.abs(rot) > 0.5 * NOISE) & (np.abs(rot) < 2 * NOISE))
    lam_s = "(" + ", ".join(cq(Fr(f"{float(x):.11e}")) for x in lam) + ")"
    V_s = "(" + ", ".join("(" + ", ".join(cdec(c, 11) for c in r) + ")" for r in V) + ")"
    if not near:
        out["chk_orient_gen"] = f"({atoms}, ({lam_s}, {V_s}), (Some {clist(raw, cvec)}))"
    else:
        out["near_threshold"] = True
    # the generated tensor on the uncentred geometry as well
    T0 = Molecule._inertial_tensor(g0, weight=w)
    out["chk_tensor"] = f"({atoms}, {cmat(T0)})"
    # the STORED geometry (generated float_prep after the generated body) against what orient_molecule() / the constructor keep;
    # not compared when a coordinate sits within 3e-9 of the phase threshold (above) or of the raw value at which the rounded
    # coordinate crosses float_prep's zero-flip threshold (the exact and the binary64 internal results differ by ~1e-9)
    for gn, gs in obs.get("stored", []):
        unit, thr = 10.0 ** -gn, 5.0 ** -(gn + 1)
        edge = (math.floor(thr / unit) + 0.5) * unit
        if near or np.any(np.abs(np.abs(rot) - edge) < 3e-9):
            out["near_threshold_stored"] = True
            continue
        out.setdefault("chk_stored", []).append(f"({atoms}, ({lam_s}, {V_s}), ({gn}%Z, {clist(gs, cvec)}))")
    return out


CHK_TY = {
    "chk_orient_gen": "list (watom QK) * (vec3 QK * mat3 QK) * option (list (vec3 QK))",
    "chk_tensor": "list (watom QK) * mat3 QK",
    "chk_stored": "list (watom QK) * (vec3 QK * mat3 QK) * (Z * list (vec3 QK))",
}

DENS = [1, 1, 2, 4, 5, 8, 10]
ISOTOPES = {"H": [1, 2, 3], "He": [3, 4], "C": [12, 13, 14], "N": [14, 15], "O": [16, 17, 18], "F": [19], "S": [32, 34], "Cl": [35, 37],
            "Li": [6, 7], "Br": [79, 81], "Fe": [54, 56]}


DUMMY = "X"       # a dummy atom: Z = 0, mass 0.0 (mass number 0), accepted by validation next to ordinary atoms


def isotopes_of(s):
    return [0] if s == DUMMY else ISOTOPES[s]


def explicit_mass(rng, s, offs=(0, 0.125, -0.125, 0.25)):
    """an explicit mass validation accepts for element s: close to one of its isotopes; exactly 0.0 for a dummy atom"""
    return 0.0 if s == DUMMY else round(ISOTOPES[s][0] * rng.choice([1.0, 1.01, 0.99]) + rng.choice(list(offs)), 3)


def with_dummies(rng, syms, min_massive=1):
    """the symbols with 1-3 atoms replaced by massless dummy atoms 'X'; at least min_massive >= 1 massive atoms stay (the total mass
    stays positive)"""
    keep = [k for k, e in enumerate(syms) if e != DUMMY]
    if len(keep) - min_massive < 1:
        return list(syms)
    out = list(syms)
    for k in rng.sample(keep, rng.randint(1, min(3, len(keep) - min_massive))):
        out[k] = DUMMY
    return out


def rnd_coord(rng, lim=5):
    d = rng.choice(DENS)
    return Fr(rng.randint(-lim * d, lim * d), d)


def far_enough(P, dmin=Fr(4, 5)):
    for i in range(len(P)):
        for j in range(i):
            if sum((a - b) ** 2 for a, b in zip(P[i], P[j])) < dmin * dmin:
                return False
    return True


def rnd_motion(rng):
    while True:
        q = [rng.randint(-4, 4) for _ in range(4)]
        if sum(1 for x in q if x) >= 2:
            break
    t = [rnd_coord(rng, 4) for _ in range(3)]
    if rng.random() < 0.1:
        # far from the origin: 1e3 .. 1e5 bohr along one or more axes
        t = [c + (rng.choice([-1, 1]) * rng.choice([1000, 12345, 100000]) if rng.random() < 0.6 else 0) for c in t]
    return {"q": q, "t": [fr_s(c) for c in t]}


def rich_block(rng, n, real=None):
    """every optional non-geometric block a molecule can carry: identifiers (several entries), extras, comment, name, provenance,
    connectivity, atom labels, fragments (with charges) - next to the isotopes / masses / ghosts / frame flags set elsewhere"""
    ids = {"smiles": "C" * rng.randint(1, 4), "inchi": "InChI=1S/probe%d" % rng.randint(0, 99), "molecular_formula": "X%d" % n,
           "pubchem_cid": str(rng.randint(1, 10 ** 6)), "canonical_smiles": "[probe]", "inchikey": "PROBEKEY-%04d" % rng.randint(0, 9999),
           "pubchem_sid": str(rng.randint(1, 999)), "molecule_hash": "%040x" % rng.getrandbits(160)}
    keep = rng.sample(sorted(ids), rng.randint(2, len(ids)))
    ex = {"name": "annotated-%d" % rng.randint(0, 999), "comment": "carries every optional block",
          "identifiers": {k: ids[k] for k in keep}, "extras": {"tag": rng.randint(0, 9), "origin": "c16", "nested": {"a": [1, 2]}},
          "provenance": {"creator": "c16-probe", "version": "1.0", "routine": "harness.props.c16"},
          "atom_labels": [rng.choice(["", "a", "b1", "x"]) for _ in range(n)]}
    if n >= 2:
        pairs = [(i, j) for i in range(n) for j in range(i + 1, n)]
        ex["connectivity"] = [(i, j, rng.choice([1.0, 2.0, 1.5])) for i, j in sorted(rng.sample(pairs, min(len(pairs), rng.randint(1, 3))))]
    if n >= 3 and rng.random() < 0.7:
        k = rng.randint(1, n - 1)
        ex["fragments"] = [list(range(k)), list(range(k, n))]
        ex["fragment_charges"] = [0.0, 0.0]
    return ex


def rnd_molecule(rng, shape):
    n = {"atom": 1, "diatomic": 2}.get(shape) or rng.randint(3, 12)
    while True:
        if shape == "linear":
            d = tuple(rnd_coord(rng, 2) for _ in range(3))
            if all(x == 0 for x in d):
                continue
            o = tuple(rnd_coord(rng, 3) for _ in range(3))
            ks = rng.sample(range(-6, 7), n)
            P = [tuple(o[i] + k * d[i] for i in range(3)) for k in ks]
        elif shape == "planar":
            u = tuple(rnd_coord(rng, 2) for _ in range(3))
            v = tuple(rnd_coord(rng, 2) for _ in range(3))
            o = tuple(rnd_coord(rng, 3) for _ in range(3))
            P = []
            for _ in range(n):
                a, b = rnd_coord(rng, 3), rnd_coord(rng, 3)
                P.append(tuple(o[i] + a * u[i] + b * v[i] for i in range(3)))
        elif shape == "nearplanar":
            # planar up to out-of-plane offsets between 3e-8 and 1e-6: the phase threshold 1e-8 decides the sign of that axis
            n = rng.randint(4, 8)
            P = []
            for _ in range(n):
                off = Fr(rng.choice([-1, 1]) * rng.choice([3, 5, 8, 20, 60, 100]), 10 ** 8)
                P.append((rnd_coord(rng, 4), rnd_coord(rng, 4), off))
            if len(set(P[i][2] for i in range(n))) < 3:
                continue
        elif shape == "flushzone":
            # five equal atoms built in their own inertial frame, (a,0,e) (-a,0,e) (0,b,-c-e) (0,-b,-c-e) (0,0,2c): centred, diagonal
            # tensor, and the first two atoms lie |e| in [5e-8, 3.5e-7] off a principal plane - above the phase threshold 1e-8,
            # below float_prep's zero-flip threshold 5.12e-7 - while the others are far from it; handed over in a rotated, shifted
            # position so that nothing is axis-aligned in the input
            # two pairs related by the twofold axis z, (a,b,e) (-a,-b,e) (p,q,-c-e) (-p,-q,-c-e) with ab + pq = 0, and (0,0,2c): the
            # first atom is far from the planes x = 0 and y = 0 and in the flush zone of the plane z = 0
            a, b, p, c = (Fr(rng.randint(2, 12), 4) for _ in range(4))
            q = -a * b / p
            e = Fr(rng.choice([-1, 1]) * rng.choice([5, 8, 12, 20, 35]), 10 ** 8)
            mom = sorted([2 * (b * b + q * q) + 6 * c * c, 2 * (a * a + p * p) + 6 * c * c, 2 * (a * a + b * b + p * p + q * q)])
            if min(mom[1] - mom[0], mom[2] - mom[1]) < Fr(1, 2) or max(abs(q), 2 * c) > 4:
                continue
            z = Fr(0)
            base = [(a, b, e), (-a, -b, e), (p, q, -c - e), (-p, -q, -c - e), (z, z, 2 * c)]
            P = move(base, rnd_motion(rng))
            # keep the literals short: 12 decimals (the rotation is rational, the rounding error 1e-12 is far below 1e-8)
            P = [tuple(Fr(round(x * 10 ** 12), 10 ** 12) for x in p) for p in P]
            n = 5
        elif shape == "symtop":
            # a square of equal atoms in the xy plane plus atoms on the z axis: I_xx = I_yy exactly
            r = Fr(rng.randint(1, 4), rng.choice([1, 2]))
            P = [(r, Fr(0), Fr(0)), (-r, Fr(0), Fr(0)), (Fr(0), r, Fr(0)), (Fr(0), -r, Fr(0))]
            zs = rng.sample([Fr(k, 2) for k in range(-8, 9) if k != 0], rng.randint(0, 3))
            P += [(Fr(0), Fr(0), z) for z in zs]
            n = len(P)
        elif shape == "sphtop":
            r = Fr(rng.randint(1, 3))
            P = [(r, Fr(0), Fr(0)), (-r, Fr(0), Fr(0)), (Fr(0), r, Fr(0)), (Fr(0), -r, Fr(0)), (Fr(0), Fr(0), r), (Fr(0), Fr(0), -r)]
            n = 6
        else:
            P = [tuple(rnd_coord(rng) for _ in range(3)) for _ in range(n)]
        if len(set(P)) == len(P) and far_enough(P):
            break
    if shape == "flushzone":
        syms, massn = [rng.choice(["He", "C", "F", "Cl"])] * 5, None
    elif shape in ("symtop", "sphtop"):
        e = rng.choice(["H", "C", "F", "Cl"])
        syms = [e] * 4 + [rng.choice(list(ISOTOPES)) for _ in range(n - 4)] if shape == "symtop" else [e] * 6
        massn = None
    else:
        syms = [rng.choice(list(ISOTOPES)) for _ in range(n)]
        if n >= 2 and shape != "nearplanar" and rng.random() < 0.2:
            # massless dummy atoms next to massive ones: weights that are zero for some atoms, through every entry point
            # (not in the nearly planar shape: the constructor's zero flip changes those inputs, and when the only atoms it leaves off the
            # plane are massless the stored molecule is exactly planar in its massive atoms while the caller's numbers are not - the two
            # routes then settle the sign of that axis on different atoms, the known finding C16-phase-flush-zone in another guise)
            syms = with_dummies(rng, syms)
        massn = [rng.choice(isotopes_of(s)) for s in syms] if rng.random() < 0.5 else None
    case = {"symbols": syms, "geom": [[fr_s(c) for c in p] for p in P], "shape": shape}
    if massn:
        case["mass_numbers"] = massn
    elif shape not in ("symtop", "sphtop", "flushzone") and rng.random() < 0.3:
        # explicit masses must lie within 0.5 of the element's isotope range to be accepted; stay close to an isotope
        case["masses"] = [explicit_mass(rng, s) for s in syms]
    if rng.random() < 0.3 and n > 1 and shape not in ("symtop", "sphtop", "flushzone"):
        real = [rng.random() < 0.7 for _ in range(n)]
        if not any(real):
            real[0] = True
        case["real"] = real
    if rng.random() < 0.25:
        case["extra"] = {"name": "probe", "comment": "c16", "extras": {"tag": 1}}
    if rng.random() < 0.3:
        case["extra"] = rich_block(rng, n, case.get("real"))
    if rng.random() < 0.6:
        fl = {}
        if rng.random() < 0.6:
            fl["fix_com"] = True
        if rng.random() < 0.6:
            fl["fix_orientation"] = True
        if rng.random() < 0.25:
            fl["fix_symmetry"] = "c1"
        if rng.random() < 0.1:
            fl["fix_com"] = False
            fl["fix_orientation"] = False
        case["flags"] = fl
    case["motion"] = rnd_motion(rng)
    if rng.random() < 0.4:
        case["geometry_as"] = rng.choice(["n3", "n3f", "n3t", "slice", "be", "list", "flatlist"])
    if rng.random() < 0.12:
        case["geometry_noise"] = rng.choice([4, 6, 6])       # the constructor's geometry_noise keyword
    return case


def other_isotopes(rng, syms):
    """mass numbers differing from the default isotope on at least one atom (None if every element here has a single isotope)"""
    for _ in range(20):
        mn = [rng.choice(isotopes_of(s)) for s in syms]
        if any(a != isotopes_of(s)[0] if s not in ("H", "He", "Li", "Br", "Fe") else a != {"H": 1, "He": 4, "Li": 7, "Br": 79, "Fe": 56}[s]
               for a, s in zip(mn, syms)):
            return mn
    return None


def rnd_history(rng):
    """A group of molecules that share what a too coarsely keyed memo would be keyed on - the symbols and the bit-identical input
    geometry - and differ in the rest: default masses / other isotopes / explicit masses / ghost flags / frame flags / another
    geometry_noise; or share symbols and masses and differ in the geometry (one atom displaced: not congruent), or share the
    geometry and differ in one element. 2-5 steps in random order, possibly with a repeat; returned twice: as generated, and the
    rigidly moved copy with the steps in the opposite order."""
    base = rnd_molecule(rng, rng.choice(["asym", "asym", "asym", "planar", "linear", "diatomic"]))
    for k in ("mass_numbers", "masses", "real", "flags", "geometry_noise"):
        base.pop(k, None)
    syms, n = base["symbols"], len(base["symbols"])
    pool = [{"label": "default masses"}]
    mn = other_isotopes(rng, syms)
    if mn:
        pool.append({"label": "other isotopes", "mass_numbers": mn})
    mn2 = other_isotopes(rng, syms)
    if mn2 and mn2 != mn:
        pool.append({"label": "other isotopes (2)", "mass_numbers": mn2})
    pool.append({"label": "explicit masses",
                 "masses": [explicit_mass(rng, s, (0.125, -0.125, 0.25, 0.375)) for s in syms]})
    if n > 1:
        real = [rng.random() < 0.6 for _ in range(n)]
        real[rng.randrange(n)] = True
        if all(real):
            real[rng.randrange(n)] = False
        pool.append({"label": "ghost atoms", "real": real})
        if mn:
            pool.append({"label": "ghost atoms and other isotopes", "real": real, "mass_numbers": mn})
    pool.append({"label": "every atom a ghost", "real": [False] * n})
    pool.append({"label": "frame flags", "flags": {"fix_com": True, "fix_orientation": rng.random() < 0.5}})
    pool.append({"label": "geometry_noise", "geometry_noise": rng.choice([4, 6])})
    # same symbols and masses, one atom displaced (a different shape)
    g2 = [list(p) for p in base["geom"]]
    a = rng.randrange(n)
    g2[a] = [fr_s(Fr(c) + Fr(rng.choice([-3, -2, 2, 3]), 2)) for c in g2[a]]
    if far_enough([tuple(Fr(c) for c in p) for p in g2]):
        pool.append({"label": "one atom displaced", "geom": g2})
    # same geometry, one element replaced
    s2 = list(syms)
    b = rng.randrange(n)
    s2[b] = rng.choice([e for e in ISOTOPES if e != syms[b]])
    pool.append({"label": "one element replaced", "symbols": s2})
    # same geometry, some atoms turned into massless dummy atoms (another mass vector with zeros in it)
    s3 = with_dummies(rng, syms)
    if s3 != list(syms):
        pool.append({"label": "dummy atoms", "symbols": s3})
        if rng.random() < 0.5:
            pool.append({"label": "dummy atoms, masses spelled out", "symbols": s3, "masses": [explicit_mass(rng, e) for e in s3]})
    k = rng.randint(2, min(5, len(pool)))
    steps = rng.sample(pool, k)
    if rng.random() < 0.4:
        steps.append(dict(rng.choice(steps), label="repeat of an earlier step"))
    base["steps"] = steps
    base["shape"] = "history"
    P = [tuple(Fr(c) for c in p) for p in base["geom"]]
    # (6 decimals: the constructor keeps 8, so the routes that start from the caller's numbers and from the stored molecule coincide)
    Q = [tuple(Fr(round(x * 10 ** 6), 10 ** 6) for x in p) for p in move(P, base["motion"])]
    mirror = dict(base, geom=[[fr_s(c) for c in p] for p in Q],
                  steps=[dict(st) for st in reversed(steps) if "geom" not in st])
    return [base] + ([mirror] if len(mirror["steps"]) >= 2 else [])


def gen_cases(ctx):
    rng = ctx.rng
    T = ctx.thorough
    cases = []
    z = lambda *r: [[str(c) for c in p] for p in r]
    # corpus: water, a chiral five-atom molecule with isotopes and a ghost, a diatomic along z, a single atom
    cases.append({"stream": "corpus", "shape": "planar", "symbols": ["O", "H", "H"],
                  "geom": z((0, 0, "-13/100"), (0, "-149/100", "103/100"), (0, "149/100", "103/100")),
                  "motion": {"q": [1, 2, 0, -1], "t": ["1/2", "-3", "7/4"]}})
    cases.append({"stream": "corpus", "shape": "asym", "symbols": ["C", "H", "O", "N", "He"], "mass_numbers": [13, 2, 18, 14, 4],
                  "geom": z((0, 0, 0), (1, 2, 3), (-2, 1, "1/2"), ("3/10", -4, 1), ("11/5", "21/10", -3)),
                  "real": [True, True, False, True, True], "motion": {"q": [3, -1, 2, 1], "t": ["-1", "2", "5/8"]}})
    for fl in ({"fix_com": True}, {"fix_orientation": True}, {"fix_com": True, "fix_orientation": True, "fix_symmetry": "c1"}):
        cases.append({"stream": "corpus", "shape": "asym", "symbols": ["O", "H", "H", "F"], "flags": fl,
                      "geom": z((0, 0, "-13/100"), (0, "-149/100", "103/100"), ("3/10", "149/100", "103/100"), (2, 1, -1)),
                      "motion": {"q": [2, 1, -1, 3], "t": ["3/2", "-1", "1/4"]}})
    cases.append({"stream": "corpus", "shape": "diatomic", "symbols": ["He", "He"], "geom": z((0, 0, 0), (0, 0, 2)),
                  "motion": {"q": [1, 1, 0, 0], "t": ["0", "0", "0"]}})
    # the known finding C16-phase-flush-zone: He5 in its inertial frame (turned by a rational rotation), atoms 0 and 1 lying 2e-7 off
    # the plane normal to the lightest axis; they decide the phase and are stored as 0.0
    fz = [(Fr(1), Fr(0), Fr(2, 10 ** 7)), (Fr(-1), Fr(0), Fr(2, 10 ** 7)), (Fr(0), Fr(2), Fr(-3) - Fr(2, 10 ** 7)),
          (Fr(0), Fr(-2), Fr(-3) - Fr(2, 10 ** 7)), (Fr(0), Fr(0), Fr(6))]
    fzm = move(fz, {"q": [2, 1, -1, 3], "t": ["3/2", "-1", "1/4"]})
    cases.append({"stream": "corpus", "shape": "flushzone", "symbols": ["He"] * 5,
                  "geom": [[fr_s(Fr(round(x * 10 ** 12), 10 ** 12)) for x in p] for p in fzm],
                  "motion": {"q": [1, 2, 0, -1], "t": ["1/2", "-3", "7/4"]}})
    cases.append({"stream": "corpus", "shape": "asym", "symbols": ["O", "H", "H", "He"], "real": [True, True, True, False],
                  "masses": [15.99491461957, 2.01410177812, 1.00782503223, 4.00260325413],
                  "geom": z(("3/10", "-1/10", "1/5"), ("19/10", "3/5", "-3/10"), ("-7/10", "8/5", "9/10"), (4, -3, "5/2")),
                  "extra": {"name": "hdo...he", "comment": "semi-heavy water with a ghosted helium", "atom_labels": ["a", "d", "", "gh"],
                            "identifiers": {"smiles": "[2H]O", "molecular_formula": "H2O", "pubchem_cid": "139859"},
                            "extras": {"tag": 7, "origin": "corpus"}, "connectivity": [(0, 1, 1.0), (0, 2, 1.0)],
                            "fragments": [[0, 1, 2], [3]], "fragment_charges": [0.0, 0.0],
                            "provenance": {"creator": "c16-probe", "version": "1.0", "routine": "corpus"}},
                  "flags": {"fix_symmetry": "c1"}, "motion": {"q": [1, -2, 1, 2], "t": ["1", "-1/2", "3"]}})
    # massless dummy atoms 'X' (Z = 0, mass 0.0) next to massive ones: the weights of the centre of mass and of the tensor contain zeros;
    # a dummy far from the centre of mass, a ghosted one, one with its zero mass spelled out, one as a fragment of its own
    cases.append({"stream": "corpus", "shape": "asym", "symbols": ["C", "O", "H", "H", "X"],
                  "geom": z(("1/10", "1/5", "-3/10"), ("23/10", "2/5", "-1/10"), ("-9/10", "19/10", "-1/2"), ("-1", "-8/5", "3/10"), ("7/2", "-3", "4")),
                  "motion": {"q": [2, -1, 1, 3], "t": ["-3/2", "2", "1/4"]}})
    cases.append({"stream": "corpus", "shape": "asym", "symbols": ["X", "N", "H", "F", "X", "Cl"], "real": [True, True, True, True, False, True],
                  "masses": [0.0, 14.00307400443, 2.01410177812, 18.99840316273, 0.0, 36.965902602],
                  "geom": z((-4, "5/2", 3), ("1/5", "-1/10", "3/10"), ("9/5", "1/2", "-2/5"), ("-3/5", "11/5", "4/5"), (3, 3, "-7/2"), ("-2/5", "-13/5", "-11/10")),
                  "extra": {"fragments": [[0], [1, 2, 3, 4, 5]], "fragment_charges": [0.0, 0.0]},
                  "motion": {"q": [1, 3, -2, 1], "t": ["2", "-1/2", "-3/4"]}})
    # a flush-zone Cl5 with a tiny gap between two moments (coordinates reproduced to 5e-4 only): the second orientation carries the
    # sign-deciding atom (1.5e-8 off the plane, stored as 0.0) through zero and negates the column (was a false alarm: screening seed 53)
    cases.append({'symbols': ['Cl', 'Cl', 'Cl', 'Cl', 'Cl'], 'geom': [['395833351111/500000000000', '3291666648889/500000000000', '-733333271111/1000000000000'], ['-2541666631111/1000000000000', '916666631111/1000000000000', '-516666651111/250000000000'], ['249368669091/500000000000', '697979805091/200000000000', '-4905050567273/1000000000000'], ['-4026515187071/1000000000000', '2893939411717/500000000000', '-1006060668283/1000000000000'], ['451388888889/500000000000', '986111111111/500000000000', '1711111111111/1000000000000']], 'shape': 'flushzone', 'extra': {'name': 'annotated-953', 'comment': 'carries every optional block', 'identifiers': {'smiles': 'CC', 'pubchem_cid': '764369', 'pubchem_sid': '130', 'inchi': 'InChI=1S/probe42', 'molecule_hash': '34dd00e27c3d78d07e97ee249b96be587850805a', 'molecular_formula': 'X5', 'inchikey': 'PROBEKEY-5587'}, 'extras': {'tag': 0, 'origin': 'c16', 'nested': {'a': [1, 2]}}, 'provenance': {'creator': 'c16-probe', 'version': '1.0', 'routine': 'harness.props.c16'}, 'atom_labels': ['a', 'x', 'x', 'x', 'x'], 'connectivity': [(1, 2, 1.5), (1, 4, 2.0)]}, 'flags': {'fix_com': True, 'fix_orientation': True, 'fix_symmetry': 'c1'}, 'motion': {'q': [0, -2, 4, 2], 't': ['0/1', '-1/1', '19/5']}, 'stream': 'corpus'})
    # a flush-zone F5 one of whose input coordinates (-3.1e-7) the constructor sets to zero: the stored molecule is tilted by ~1e-6
    # against the caller's numbers, which carries the sign-deciding atom (3.5e-7 off the plane) through zero; the routes that start from
    # the caller's numbers and from the stored molecule, and the moved copy, differ by the sign of that column (screening seed 148)
    cases.append({'symbols': ['F', 'F', 'F', 'F', 'F'], 'geom': [['1527778088889/1000000000000', '-2777777738889/1000000000000', '-640277738889/250000000000'], ['2472222533333/1000000000000', '-5222222183333/1000000000000', '-3838888733333/1000000000000'], ['1777777466667/1000000000000', '-4527777816667/1000000000000', '-5436111266667/1000000000000'], ['-311111/1000000000000', '-3750000038889/1000000000000', '-518750038889/250000000000'], ['2111111111111/500000000000', '-1861111111111/500000000000', '-2088888888889/1000000000000']], 'shape': 'flushzone', 'flags': {'fix_symmetry': 'c1'}, 'motion': {'q': [3, 4, -3, 1], 't': ['-31/8', '-1/1', '4/5']}, 'stream': 'corpus'})
    cases.append({"stream": "corpus", "shape": "atom", "symbols": ["Ne"], "geom": z((1, 2, 3)), "motion": {"q": [1, 0, 1, 0], "t": ["1", "1", "1"]}})
    # history corpus: one structure as four isotopologues (default, HDO-like, 18-O / 13-C / T, explicit masses), one after the other
    cases.append({"stream": "history", "shape": "history", "symbols": ["O", "H", "H", "C", "H"],
                  "geom": z(("31/100", "-11/50", "13/100"), ("193/100", "41/100", "-7/20"), ("-37/50", "83/50", "41/50"),
                            ("23/100", "-117/100", "-231/100"), ("-7/5", "-41/20", "-29/10")),
                  "motion": {"q": [1, -2, 1, 2], "t": ["1", "-1/2", "3"]},
                  "steps": [{"label": "default masses"}, {"label": "other isotopes", "mass_numbers": [16, 2, 1, 12, 1]},
                            {"label": "other isotopes (2)", "mass_numbers": [18, 1, 1, 13, 3]},
                            {"label": "explicit masses", "masses": [15.2, 1.6, 1.1, 12.7, 2.4]},
                            {"label": "ghost atoms", "real": [True, False, True, True, False]}]})
    for _ in range(400 if T else 30):
        for c in rnd_history(rng):
            c["stream"] = "history"
            cases.append(c)
    plan = [("asym", 6000 if T else 300), ("planar", 1500 if T else 80), ("linear", 1200 if T else 60), ("symtop", 1200 if T else 60),
            ("sphtop", 200 if T else 15), ("nearplanar", 800 if T else 50), ("flushzone", 300 if T else 25), ("diatomic", 400 if T else 30), ("atom", 60 if T else 8)]
    for shape, k in plan:
        for _ in range(k):
            c = rnd_molecule(rng, shape)
            c["stream"] = shape
            cases.append(c)
    return cases


HIST_KEYS = ("symbols", "geom", "mass_numbers", "masses", "real", "flags", "extra", "geometry_noise", "motion", "geometry_as")


def history_steps(case):
    """the molecules of a history case: every step overrides some fields of the base molecule (None removes a field)"""
    out = []
    for st in case["steps"]:
        sub = {k: case[k] for k in HIST_KEYS if case.get(k) is not None}
        for k, v in st.items():
            if k == "label":
                continue
            if v is None:
                sub.pop(k, None)
            else:
                sub[k] = v
        sub["shape"] = "history-step"
        out.append(sub)
    return out


def oracle_history(case):
    """The steps are oriented one after the other in this interpreter; each is judged on its own by the full oracle (so a frame, a
    centre of mass, a mass vector or a flag remembered from an earlier molecule that shares symbols / geometry / masses shows up in
    a later one)."""
    fails, obs = [], None
    for k, sub in enumerate(history_steps(case)):
        f, obs = oracle(sub)
        for x in f:
            x["history_step"] = f"step {k + 1} of {len(case['steps'])} ({case['steps'][k].get('label', '')}), oriented after the earlier steps in one interpreter"
        fails.extend(f)
    return fails, obs


_EXECUTED = []      # every case judged by this interpreter, in order: the call history of a failing case (see geo_history.py)


def judge(case):
    _EXECUTED.append({k: v for k, v in case.items() if k not in ("stream", "history")})
    if case.get("steps"):
        fails, obs = oracle_history(case)
        return fails, {}, obs
    fails, obs = oracle(case)
    return fails, terms(case, obs), obs


def is_known(f):
    return any(m(f) for m in KNOWN.values())


def run_history(steps):
    """histseq interface: the cases one after the other in this interpreter; the oracle's complaints (other than known findings)
    about the LAST one"""
    import warnings
    warnings.filterwarnings("ignore")
    fails = []
    for c in steps:
        fails, _, _ = judge(dict(c))
    return [f["what"] for f in fails if not is_known({"case": steps[-1], **f})]


def correspond(ctx):
    corr = Corr()
    corr.rule = ("molecules of 1-12 atoms with rational coordinates in [-5,5] (denominators 1..10), random isotopes / explicit masses / "
                 "ghost atoms / massless dummy atoms 'X' (Z = 0, mass 0.0; never all atoms), frame flags fix_com / fix_orientation (all four combinations) / fix_symmetry, of shapes: generic (asymmetric), planar, nearly planar (out-of-plane offsets 3e-8..1e-6, around the phase threshold), linear, symmetric top, spherical top, diatomic, single atom; each "
                 "also as a rigidly moved copy (rational rotation from an integer quaternion + translation, one in ten 1e3..1e5 bohr away); geometry handed over flat / (n,3) / Fortran / transposed view / strided window / big-endian / lists; history groups (same symbols + geometry, different masses / ghosts / flags, both orders). A case is non-trivial if it "
                 "has >= 2 atoms; distinct = distinct inputs")
    cases = gen_cases(ctx)
    buckets = {k: [] for k in CHK_TY}
    for case in cases:
        try:
            fails, trm, obs = judge(case)
        except Exception as e:
            corr.errors.append(f"oracle crashed on {case}: {e!r}")
            continue
        if case.get("steps"):
            corr.count("history-groups")
            corr.count("history-steps", len(case["steps"]))
            for st in case["steps"]:
                corr.hit("history_step_" + st.get("label", "?").replace(" ", "_"))
            corr.nontriv({k: v for k, v in case.items() if k != "stream"})
            for f in fails:
                corr.failures.append({"stream": "oracle-history", "case": {k: v for k, v in case.items() if k != "stream"},
                                      "what": f["what"], "observed": f["observed"], "history_step": f.get("history_step"), "_pos": len(_EXECUTED) - 1})
            continue
        corr.count(case["stream"])
        corr.hit("shape_" + case["shape"])
        if obs.get("asym"):
            corr.hit("asymmetric_top")
        if case.get("real") and not all(case["real"]):
            corr.hit("with_ghosts")
        if case.get("mass_numbers") or case.get("masses"):
            corr.hit("with_isotopes_or_masses")
        if DUMMY in case["symbols"]:
            corr.hit("with_massless_dummy_atoms")
        fl = case.get("flags") or {}
        corr.hit("flags_com%d_orient%d" % (bool(fl.get("fix_com")), bool(fl.get("fix_orientation"))))
        if fl.get("fix_symmetry"):
            corr.hit("flags_symmetry")
        if psi4_text(case, obs["g0"]) is not None:
            corr.hit("route_psi4_text")
        if trm.pop("near_threshold", False):
            corr.hit("model_skipped_near_phase_threshold")
        if trm.pop("near_threshold_stored", False):
            corr.hit("stored_model_skipped_near_a_threshold")
        if np.any((obs["g1"] == 0) & (np.abs(obs["raw"]) >= 0.5e-8)):
            corr.hit("stored_zero_flip_active")
        if np.any((obs["g1"] == 0) & (np.abs(obs["raw"]) >= NOISE)):
            corr.hit("stored_zero_flip_of_a_coordinate_above_the_phase_threshold")
        if case.get("geometry_noise") is not None:
            corr.hit("geometry_noise_%d" % case["geometry_noise"])
        if case.get("geometry_as"):
            corr.hit("geometry_given_as_" + case["geometry_as"])
        if any(abs(Fr(c)) >= 1000 for c in (case.get("motion") or {}).get("t", [])):
            corr.hit("moved_copy_far_from_the_origin")
        if len((case.get("extra") or {}).get("fragments") or []) == 2:
            corr.hit("route_get_fragment_orient")
        if (case.get("extra") or {}).get("identifiers"):
            corr.hit("carries_identifiers_provenance_labels_connectivity")
        if (case.get("extra") or {}).get("fragments"):
            corr.hit("carries_fragments")
        if obs.get("twice_sign_undetermined_axes"):
            corr.hit("orient_twice_columns_compared_up_to_sign_(sign-deciding_coordinate_within_the_tolerance_of_zero)", obs["twice_sign_undetermined_axes"])
        if obs.get("sign_free_axes"):
            corr.hit("columns_compared_up_to_sign_(phase_decided_by_an_atom_stored_as_zero)", obs["sign_free_axes"])
        if len(case["symbols"]) >= 2:
            corr.nontriv({k: v for k, v in case.items() if k != "stream"})
        if ctx.rng.random() < 0.004:
            corr.sample({"case": case, "oriented": np.round(obs["raw"], 6).tolist()})
        for f in fails:
            corr.failures.append({"stream": "oracle-" + case["shape"], "case": {k: v for k, v in case.items() if k != "stream"},
                                  "what": f["what"], "observed": f["observed"], "_pos": len(_EXECUTED) - 1})
        # thorough tier: every molecule goes through the oracle; the (much slower) exact model is run on the corpus and on
        # every second random molecule
        if ctx.thorough and case["stream"] != "corpus" and (corr.streams.get(case["stream"], 0) % 2 == 0):
            corr.hit("oracle_only")
            continue
        for chk, term in trm.items():
            if chk == "chk_stored":
                # the stored-geometry model costs as much as the body: corpus, flush-zone / near-planar shapes, caller-chosen
                # geometry_noise always; every third one of the rest
                if (case["stream"] in ("corpus", "flushzone", "nearplanar") or case.get("geometry_noise") is not None
                        or corr.streams.get(case["stream"], 0) % 3 == 0):
                    for t in term:
                        buckets[chk].append((t, case))
                continue
            buckets[chk].append((term, case))
    # the model's ZeroDivisionError branch (np.average with weights summing to zero): for validated molecules reachable only when every
    # atom is a dummy (not generated), reached here through validate=False
    from qcelemental.models import Molecule
    for k, (masses, geom) in enumerate([([0.0, 0.0], [0, 0, 0, 0, 0, 2.0]), ([1.0, -1.0], [0, 0, 0, 0, 1.5, 2.0]),
                                        ([2.0, -1.0, -1.0], [0, 0, 0, 0, 1.0, 2.0, 1.0, 2.0, -1.0]), ([0.5, 0.25, -0.75], [1, 0, 0, 0, 1, 0, 0, 0, 1.0])]):
        zc = {"stream": "zero_total_mass", "shape": "zero_total_mass", "symbols": ["He"] * len(masses), "masses": masses, "geom_float": geom}
        try:
            g = Molecule(orient=True, validate=False, symbols=zc["symbols"], geometry=geom, masses=masses).geometry
            exp = "(Some " + clist(np.array(g, dtype=float).reshape(-1, 3), cvec) + ")"
        except ZeroDivisionError:
            exp = "None"
            corr.hit("impl_raises_ZeroDivisionError")
        except Exception as e:
            corr.errors.append(f"zero total mass: unexpected {e!r}")
            continue
        corr.count("zero_total_mass")
        atoms = clist([f"({cvec(p)}, {cfl(m)})" for p, m in zip(np.array(geom, dtype=float).reshape(-1, 3), masses)])
        buckets["chk_orient_gen"].append((f"({atoms}, (((0, 0, 0), (mident QK))), {exp})", zc))
    # every stream's first failure must replay from its recorded input alone (with the earlier calls it depends on, if any)
    from . import geo_history
    corr.failures = geo_history.attach("c16", corr.failures, _EXECUTED, is_known, log=ctx.log)
    corr.sample({"case": cases[1]})
    ctx.log(f"{len(cases)} molecules through the implementation; evaluating the model: " + ", ".join(f"{k}={len(v)}" for k, v in buckets.items()))
    from concurrent.futures import ThreadPoolExecutor

    def run(chk):
        items = buckets[chk]
        # small shards and a generous timeout: a shard that times out on a busy machine would be reported as a machinery error
        return chk, coqrun.eval_bad_indices("C16-" + chk, REQ, "", chk, [t for t, _ in items],
                                            shard=max(10, min(120, len(items) // 16 + 1)), timeout=3000, ty=CHK_TY[chk])
    todo = [c for c, items in buckets.items() if items]
    with ThreadPoolExecutor(max_workers=len(todo) or 1) as ex:
        results = list(ex.map(run, todo))
    for chk, (badidx, errors) in results:
        items = buckets[chk]
        corr.count("model:" + chk, len(items))
        corr.errors.extend(f"{chk} shard {k}: {e}" for k, e in errors)
        for b in badidx[:6]:
            term, case = items[b]
            corr.disagreements.append({"stream": chk, "case": {k: v for k, v in case.items() if k != "stream"},
                                       "impl": term[-300:], "model": f"{chk} = false"})
    return corr


def search(ctx, corr, reasons):
    found = []
    for d in corr.disagreements:
        try:
            fails, _, _ = judge(dict(d["case"]))
        except Exception:
            continue
        for f in fails:
            found.append({"stream": "search", "case": d["case"], "what": f["what"], "observed": f["observed"], "_pos": len(_EXECUTED) - 1})
    if not found:
        class C2:
            pass
        c2 = C2()
        c2.rng, c2.thorough = ctx.rng, False
        for case in gen_cases(c2):
            try:
                fails, _, _ = judge(case)
            except Exception:
                continue
            for f in fails:
                found.append({"stream": "search-" + case["shape"], "case": {k: v for k, v in case.items() if k != "stream"},
                              "what": f["what"], "observed": f["observed"], "_pos": len(_EXECUTED) - 1})
    from . import geo_history
    return geo_history.attach("c16", found, _EXECUTED, is_known, log=getattr(ctx, "log", None))


def replay(ctx, rp):
    case = dict(rp["case"])
    if case.get("history"):
        from . import geo_history
        return geo_history.replay_history("c16", case)
    fails, _, _ = judge(case)
    new = [f for f in fails if not is_known({"case": case, **f})]
    return {"case": case, "failures": new, "known_findings_also_seen": [f["what"] for f in fails if f not in new], "fails": bool(new)}


def known_flush_zone(fc):
    """C16-phase-flush-zone, narrowly: the stored column shows the flush-zone pattern (see flush_zone_pattern) - either directly (the
    stored sign convention fails on that axis) or through its consequence that orienting the stored molecule again flips exactly
    that column (twice = -once on the atoms that are visible, everything else unchanged)."""
    what, ob = fc.get("what", ""), fc.get("observed")
    if not isinstance(ob, dict) or "raw" not in ob:
        return False
    if what.startswith("sign convention violated on the stored geometry"):
        return flush_zone_pattern(ob["raw"], ob.get("stored", []))
    if what == "orienting twice changes the geometry":
        # the first or the second orientation was decided by an atom that its own result stores as 0.0, and the column is negated
        once, twice = ob.get("once", []), ob.get("twice", [])
        # negated within the tolerance the oracle grants this very molecule for "unchanged" (1.1e-6 x the conditioning of its
        # eigenvectors: the flush moves atoms by up to 5.12e-7, and a small gap between moments amplifies that)
        tol = max(1.2e-6, float(ob.get("utol") or 0.0))
        return ((flush_zone_pattern(ob["raw"], once) or flush_zone_pattern(ob.get("raw2", []), twice)) and len(once) == len(twice)
                and all(abs(a + b) <= tol for a, b in zip(once, twice)))
    return False


KNOWN = {"C16-phase-flush-zone": known_flush_zone}

TECHNIQUE = ("Coq proofs (ring/field over an abstract field + induction over the atom list; Reals for the phase convention, frame "
             "uniqueness and the stored geometry) about Gallina code translated on every run from _inertial_tensor, the body of "
             "_orient_molecule_internal, float_prep and the orient branch of Molecule.__init__ (fail-closed translator), proved equal to a "
             "hand model; eigh and np.around as specified parameters; differential correspondence + property oracle")
DESIGN_REF = "DESIGN.md §6 C16"
LEVEL_TEXT = (
    "Machine-checked (Coq 8.16.1) for every number of atoms and every mass assignment (non-zero total), with np.linalg.eigh as a "
    "parameter constrained only by its specification on the tensor(s) it is applied to. The body of _orient_molecule_internal is "
    "translated from the source (Gen/OrientBody.v) and proved equal to the model for all inputs (C16_generated_body_is_model, "
    "C16_eager_phase_loop_is_deferred); what the public entry points store - float_prep of it, Gen/OrientStore.v - likewise "
    "(C16_generated_store_is_model). Over any field: C16_isometry (one map applied to all positions, preserving |p-q|^2 for all "
    "points), C16_com_at_origin, C16_inertia_transforms, C16_inertia_diagonal_ascending, C16_masses_untouched. Over the reals: "
    "C16_phase_convention(_orient) (internal result: on each axis the first atom with |coordinate| >= 1e-8 is positive); "
    "C16_stored_sign_convention / C16_stored_first_nonzero_positive (returned molecule: the first atom with a non-zero coordinate is "
    "positive provided no earlier atom lies in the flush zone 1e-8 <= |x| < 5^-9) and C16_stored_sign_convention_flush_zone_refuted "
    "(without that proviso the clause is false: known finding C16-phase-flush-zone, replayed on the implementation every run); "
    "C16_stored_isometry_within_rounding / C16_stored_distance_where_visible (every distance of the returned molecule is the original "
    "one up to 2 sqrt 3 (0.5e-8 + 5^-9), up to 2 sqrt 3 0.5e-8 where nothing is flushed) and C16_stored_com_within_rounding (each "
    "component of sum m x of the returned molecule is at most (0.5e-8 + 5^-9) sum |m|), "
    "C16_stored_inertia_offdiagonal_within_rounding (off-diagonal entries of the returned molecule's inertia tensor are at most "
    "d sum |m| (|u| + |v| + d), d = 0.5e-8 + 5^-9); "
    "C16_frame_unique (distinct moments: a copy moved by any orthogonal matrix and translation orients to the same coordinates, "
    "columns equal or entirely below 1e-8 and opposite), C16_mirror_image_same_frame, C16_orient_idempotent; for symmetric tops "
    "C16_frame_unique_up_to_eigenspace and C16_orient_twice_up_to_eigenspace (the two results differ by one orthogonal matrix "
    "commuting with the spectrum - nothing more is promised). Each run feeds numpy's own eigh answer to the generated body and the "
    "generated store, checks the eigh specification on it numerically, compares with _orient_molecule_internal and with the stored "
    "geometry of orient_molecule() / Molecule(orient=True, geometry_noise=...), and evaluates every clause on the implementation "
    "(all construction routes incl. get_fragment(orient=True) and copy(update=...), caller's arrays not modified, call histories of "
    "molecules that share symbols and geometry but not masses).")
LEVEL_NOTE = (
    "Clause map: distances -> C16_isometry (stored: C16_stored_isometry_within_rounding, _distance_where_visible; oracle 1e-7); non-geometric fields -> C16_masses_untouched + translator "
    "(only geometry/masses consulted, orient_molecule = Molecule(orient=True, **self.dict())) + oracle on every dict field; centre of "
    "mass -> C16_com_at_origin (stored: C16_stored_com_within_rounding); diagonal ascending -> C16_inertia_diagonal_ascending (stored: C16_stored_inertia_offdiagonal_within_rounding; order of the stored diagonal: oracle); sign convention -> C16_phase_convention_orient "
    "(internal), C16_stored_sign_convention (stored, flush zone excluded), _flush_zone_refuted; uniqueness -> C16_frame_unique / "
    "_up_to_eigenspace (exact, on the internal result; 'within the rounding' on stored geometries is oracle-only, tolerance amplified "
    "by the eigenvector conditioning); twice -> C16_orient_idempotent / C16_orient_twice_up_to_eigenspace (second orientation applied "
    "to the internal result; orient_molecule() twice re-orients the rounded geometry: oracle only). "
    "Trusted: Coq kernel + vm_compute; the translators; the primitives of Common/Geo3Loop.v; LAPACK eigh (specified, its answer "
    "checked numerically each run); np.around (specified: within half a unit); numpy arithmetic (tolerances). Non-geometric fields do "
    "not occur in the model. Real-number theorems depend on the Reals axioms and Classical_Prop.classic; part A is closed. "
    "Observation: the map applied is orthogonal but not necessarily proper - orientation sends a molecule and its mirror image to the "
    "same coordinates (C16_frame_unique holds for improper Rm), i.e. it can invert chirality.")
