"""C12 — alignment finds the optimal proper rigid motion and recovers known ones.

* translator: harness/translate/quat.py regenerates coq/Gen/Quat.v (the F[i,j] / U[i,j] assignments of
  kabsch_quaternion as polynomial terms); the `ring` proofs of Proofs/Kabsch.v are about those terms.
* correspondence (Model/Kabsch.v at K = Q vs the implementation, LAPACK's answer captured by wrapping
  numpy.linalg.eigh for the duration of one call):
    kquat    kabsch_quaternion(P, Q): F handed to eigh == genF(cov) ; eigh specification holds of what LAPACK
             returned (|F v - w v|, |V^T V - I| <= tol, w ascending) ; U == genU(ev[:, -1])
    kalign   kabsch_align(R, C): rotation, shift, rmsd == model run with LAPACK's top eigenvector
    kapplied the residual B787 measures after applying AlignmentMill(shift, rotation, ordering)
    kdriver  real B787 runs observed trial by trial (kabsch_align, eigh and AlignmentMill.align_coordinates tapped) against
             Model/KabschDriver.v [trial]; orderings tried == generator order; returned solution == first best trial
    krandrot random_rotation_matrix against the translated matrix algebra (Gen/Rand3dRot.v)
    kselect  the candidate loop of B787 (first strictly better RMSD wins, early stop, mirror pass) on the
             candidate RMSDs recomputed per ordering; with run_mirror the inner superimposability pre-check
             is redirected from 'hungarian_uno' (needs networkx, absent offline) to 'permutative'
* property oracle on the implementation: rigid copies (rotation x shift x permutation) are recovered with RMSD 0,
  atom by atom, and for non-collinear molecules with the applied rotation/shift; the result is a proper rotation;
  reported RMSD == applied RMSD; optimality against random proper rotations and against
  sum|P|^2 + sum|Q|^2 - 2 lambda_max of its own F; mirror images of chiral molecules are matched iff requested.
  Kind "history" (retain, then judge): 2-4 moved / slightly distorted copies of one reference (2-12 atoms, 30% far from the
  origin) are aligned one after the other through kabsch_align (weight omitted / None / all ones), kabsch_quaternion, B787
  (fixed map; also with labels + run_mirror) and Molecule.align, with the geometries handed over C-ordered, Fortran-ordered,
  as strided windows or read-only; every result is kept exactly as returned (the caller's buffers overwritten in half of the
  cases) and only after the whole sequence checked: proper rotation, reported = applied RMSD, optimal vs an SVD Kabsch, and
  for rigid frames recovery atom by atom and of the applied rotation/shift.
"""
import itertools
import math
from fractions import Fraction

import numpy as np

from .. import coqrun
from ..core import Corr
from ..coqrun import cnat, clist, cbool, cq
from ..translate import quat as quat_tr
from ..translate import kalign as kalign_tr
from ..translate import rand3drot as rand3drot_tr

PID = "C12"
ALLOWED_AXIOMS = {
    "ClassicalDedekindReals.sig_forall_dec",
    "ClassicalDedekindReals.sig_not_dec",
    "FunctionalExtensionality.functional_extensionality_dep",
}
TRUSTED = [
    "translator harness/translate/quat.py (Python ast -> polynomial terms, fail-closed) for the F/U assignments of kabsch_quaternion",
    "translator harness/translate/kalign.py (Python ast -> let-chain, fail-closed) for the body of kabsch_align (weights included); "
    "the generated function is PROVED equal to the hand-written model for weight=None (C12_translated_kabsch_align_is_model)",
    "translator harness/translate/rand3drot.py (fail-closed) for the matrix algebra of util/np_rand3drot.py::random_rotation_matrix "
    "(sin/cos/sqrt enter as arguments; C12_random_rotation_is_proper uses only sin^2+cos^2=1 and sqrt(z)^2+sqrt(2-z)^2=2)",
    "hand-written models coq/Model/Kabsch.v (kabsch_align, B787 candidate loop), coq/Model/KabschPerm.v (_plausible_atom_orderings, "
    "algorithm='permutative') tied by differential execution at K = Q (this file); coq/Model/KabschDriver.v (their composition: the "
    "whole 'permutative' B787 driver, with rmsd_of = around(sqrt(ssd)*bohr2angstroms/sqrt(nat), 8) as a parameter) is a hand-written "
    "reading of the loop of B787 whose parts are tied separately",
    "LAPACK eigh (numpy.linalg.eigh) is specified (F v_k = w_k v_k, V orthogonal, w ascending), not verified; the specification "
    "is evaluated at run time, in exact rational arithmetic, on every (F, w, V) the correspondence cases produced (tol 1e-8)",
    "binary64 rounding of the implementation is outside the model (exact rationals; tolerance 1e-8)",
    "numpy dot/sum/linalg.norm/around semantics (modelled, not verified); qcelemental.constants.bohr2angstroms read as a number",
]
ASSUMPTIONS = [
    "rgeom and cgeom have the same number of atoms; weights, if given, are non-negative with exact square roots in the generated cases",
    "algorithm 'hungarian_uno' needs networkx and cannot run offline: atom-map search is exercised through atoms_map=True and "
    "algorithm='permutative' (<= 7 atoms) only",
]
EXTRA_TARGETS = ["Model/Kabsch.vo", "Model/KabschPerm.vo", "Model/KabschW.vo", "Model/Rand3dRotCheck.vo"]
REQ = ["QV.Common.Outcome", "QV.Common.AlignAlg", "QV.Common.AlignAlgQuat", "QV.Gen.Quat", "QV.Model.Mill", "QV.Model.Kabsch"]
REQP = REQ + ["QV.Model.KabschPerm"]
REQW = REQ + ["QV.Gen.KabschAlign", "QV.Model.KabschW"]
REQD = REQ + ["QV.Model.KabschPerm", "QV.Model.KabschDriver"]
REQR = REQ + ["QV.Model.Rand3dRot", "QV.Gen.Rand3dRot", "QV.Model.Rand3dRotCheck"]
TOL = 1e-8


def translate(ctx):
    quat_tr.generate(ctx.repo)
    kalign_tr.generate(ctx.repo)
    rand3drot_tr.generate(ctx.repo)


# ---------------------------------------------------------------------------------------------
# helpers


class EighTap:
    """records every (a, w, v) of numpy.linalg.eigh while active"""

    def __enter__(self):
        self.orig = np.linalg.eigh
        self.calls = []

        def tap(a, *args, **kw):
            res = self.orig(a, *args, **kw)
            w, v = res
            self.calls.append((np.array(a, dtype=float, copy=True), np.array(w, dtype=float), np.array(v, dtype=float)))
            return res

        np.linalg.eigh = tap
        return self

    def __exit__(self, *exc):
        np.linalg.eigh = self.orig
        return False


class MirrorRedirect:
    """B787's superimposability pre-check calls B787 recursively with the default algorithm 'hungarian_uno', which
    needs networkx.  While active, that inner call (recognised by run_mirror=False, atoms_map=False, uno_cutoff=0.1 and
    no explicit algorithm) is redirected to algorithm='permutative'.  Nothing else is touched."""

    def __enter__(self):
        import qcelemental.molutil.align as al
        self.al = al
        self.orig = al.B787

        def inner(*a, **k):
            if "algorithm" not in k and k.get("uno_cutoff") == 0.1 and k.get("atoms_map") is False and k.get("run_mirror") is False:
                k = dict(k, algorithm="permutative")
            return self.orig(*a, **k)

        al.B787 = inner
        return self

    def __exit__(self, *exc):
        self.al.B787 = self.orig
        return False


def b2a():
    from qcelemental.physical_constants import constants
    return float(constants.bohr2angstroms)


def quat_to_rot_fr(q):
    a, b, c, d = q
    n = a * a + b * b + c * c + d * d
    M = [[a * a + b * b - c * c - d * d, 2 * (b * c - a * d), 2 * (b * d + a * c)],
         [2 * (b * c + a * d), a * a - b * b + c * c - d * d, 2 * (c * d - a * b)],
         [2 * (b * d - a * c), 2 * (c * d + a * b), a * a - b * b - c * c + d * d]]
    return [[Fraction(x, n) for x in row] for row in M]


def rational_rotation(rng, big=False):
    for _ in range(1000):
        q = tuple(rng.randint(-6, 6) if big else rng.randint(-3, 3) for _ in range(4))
        if any(q):
            return np.array([[float(x) for x in row] for row in quat_to_rot_fr(q)])
    return np.eye(3)


def random_rotation(rng):
    for _ in range(1000):
        q = np.array([rng.gauss(0, 1) for _ in range(4)])
        if q @ q > 1e-3:
            break
    else:
        q = np.array([1.0, 0.0, 0.0, 0.0])
    a, b, c, d = q / math.sqrt(q @ q)
    return np.array([[a * a + b * b - c * c - d * d, 2 * (b * c - a * d), 2 * (b * d + a * c)],
                     [2 * (b * c + a * d), a * a - b * b + c * c - d * d, 2 * (c * d - a * b)],
                     [2 * (b * d - a * c), 2 * (c * d + a * b), a * a - b * b - c * c + d * d]])


def min_dist(x):
    n = len(x)
    return min([np.linalg.norm(x[i] - x[j]) for i in range(n) for j in range(i)] or [9.0])


def gen_geometry(rng, n, style):
    """points with pairwise distance > 0.5 in multiples of 1/8 (so that centroid sums are exact)"""
    for _ in range(500):
        if style == "collinear":
            d = np.array([rng.randint(-3, 3) for _ in range(3)], dtype=float)
            if not d.any():
                continue
            o = np.array([rng.randint(-16, 16) / 8 for _ in range(3)])
            ts = rng.sample(range(-12, 13), n) if n <= 25 else list(range(-15, -15 + n))
            x = np.array([o + t * d for t in ts])
        elif style == "planar":
            box = 8 * (3 + n // 4)
            x = np.array([[rng.randint(-box, box) / 8, rng.randint(-box, box) / 8, 0.0] for _ in range(n)])
        elif style == "symmetric":
            # a regular polygon (coordinates not dyadic) or points related by the cube group
            if n <= 8 and rng.random() < 0.5:
                base = np.array([rng.randint(1, 24) / 8, rng.randint(1, 24) / 8, rng.randint(1, 24) / 8])
                ops = [np.diag(s) for s in itertools.product((1, -1), repeat=3)]
                rng.shuffle(ops)
                x = np.array([op @ base for op in ops[:n]])
            else:
                r = 1.0 + 0.3 * n
                x = np.array([[r * math.cos(2 * math.pi * k / n), r * math.sin(2 * math.pi * k / n), 0.25] for k in range(n)])
        else:
            box = 8 * (2 + n // 6)
            x = np.array([[rng.randint(-box, box) / 8 for _ in range(3)] for _ in range(n)])
        if min_dist(x) > 0.5:
            return x
    raise RuntimeError("could not generate geometry")


def is_collinear(x, eps=1e-6):
    c = x - x.mean(axis=0)
    s = np.linalg.svd(c, compute_uv=False)
    return len(s) < 2 or s[1] < eps * max(1.0, s[0])


def chirality(x):
    """largest |triple product| over quadruples containing atom 0 (cheap chirality measure)"""
    n = len(x)
    best = 0.0
    for i, j, k in itertools.combinations(range(1, min(n, 7)), 3):
        best = max(best, abs(float(np.dot(np.cross(x[i] - x[0], x[j] - x[0]), x[k] - x[0]))))
    return best


# ---------------------------------------------------------------------------------------------
# rendering

def fq(x):
    return cq(Fraction(float(x)))


def cvec(v):
    return "(" + ", ".join(fq(x) for x in v) + ")"


def cmat3(m):
    return "(" + ", ".join(cvec(r) for r in np.asarray(m)) + ")"


def cmat4(m):
    return "(" + ", ".join(cvec(r) for r in np.asarray(m)) + ")"


def cpts(x):
    return clist([cvec(r) for r in np.asarray(x)])


CTOL = cq(Fraction(1, 10 ** 8))


# ---------------------------------------------------------------------------------------------
# model cases


def run_eval(fn, kind, inp, none=None):
    """evaluate a model-case builder on its recorded input; an exception of the implementation becomes an `error` case that
    still carries the whole input (so that replay() can run the same evaluation again from the record alone)"""
    try:
        return fn(inp)
    except Exception as e:       # the implementation raised where the builders expect none
        return dict(inp, kind=kind, error="%s: %s" % (type(e).__name__, e)), none


def case_kquat(rng):
    n = rng.choice([1, 2, 3, 4, 5, 8, 13, 30])
    P = np.array([[rng.randint(-40, 40) / 8 for _ in range(3)] for _ in range(n)])
    if rng.random() < 0.5:
        Q = P @ rational_rotation(rng) + np.array([rng.randint(-8, 8) / 8 for _ in range(3)])
    else:
        Q = np.array([[rng.randint(-40, 40) / 8 for _ in range(3)] for _ in range(n)])
    return run_eval(eval_kquat, "kquat", {"P": P.tolist(), "Q": Q.tolist()})


def eval_kquat(inp):
    from qcelemental.molutil.align import kabsch_quaternion
    P, Q = np.array(inp["P"], dtype=float), np.array(inp["Q"], dtype=float)
    with EighTap() as tap:
        U = kabsch_quaternion(P.T.copy(), Q.T.copy())
    if len(tap.calls) != 1:
        return {"kind": "kquat", "P": P.tolist(), "Q": Q.tolist(), "error": "eigh was called %d times" % len(tap.calls)}, None
    F, w, V = tap.calls[0]
    term = "(KQuat %s %s %s %s %s %s %s)" % (CTOL, cpts(P), cpts(Q), cmat4(F), cvec(w), cmat4(V), cmat3(U))
    return {"kind": "kquat", "P": P.tolist(), "Q": Q.tolist(), "F": F.tolist(), "w": w.tolist(), "V": V.tolist(), "U": np.asarray(U).tolist()}, term


def pair_for_align(rng):
    n = rng.choice([2, 2, 3, 3, 4, 5, 6, 8, 12, 20, 30])
    style = rng.choice(["generic", "generic", "planar", "collinear", "symmetric"])
    R = gen_geometry(rng, n, style)
    k = rng.random()
    if k < 0.08:
        C = R.copy()                                   # allclose short-cut
    elif k < 0.2:
        # around the boundary of the short-cut (|r - c| <= 1e-8 + 1e-5 |c|): a relative stretch and a tiny shift
        C = R * (1.0 + rng.choice([1, -1]) * 2.0 ** -rng.randint(13, 30)) + rng.choice([0.0, 2.0 ** -rng.randint(20, 34)])
    elif k < 0.6:
        C = R @ rational_rotation(rng) + np.array([rng.randint(-80, 80) / 8 for _ in range(3)])
    else:
        C = gen_geometry(rng, n, rng.choice(["generic", "planar"]))
    return R, C


def case_kalign(rng):
    R, C = pair_for_align(rng)
    return run_eval(eval_kalign, "kalign", {"R": R.tolist(), "C": C.tolist()})


def eval_kalign(inp):
    from qcelemental.molutil import kabsch_align
    R, C = np.array(inp["R"], dtype=float), np.array(inp["C"], dtype=float)
    Rin, Cin = R.copy(), C.copy()
    with EighTap() as tap:
        rmsd, RR, TT = kabsch_align(Rin, Cin, weight=None) if len(R) % 2 else kabsch_align(Rin, Cin)
    if not (np.array_equal(Rin, R) and np.array_equal(Cin, C)):
        return {"kind": "kalign", "R": R.tolist(), "C": C.tolist(), "error": "kabsch_align modified the geometries it was given"}, None
    if len(tap.calls) > 1:
        return {"kind": "kalign", "R": R.tolist(), "C": C.tolist(), "error": "eigh called more than once"}, None
    q = tap.calls[0][2][:, -1] if tap.calls else np.array([1.0, 0, 0, 0])
    term = "(KAlign %s %s %s %s %s %s %s %s)" % (CTOL, cpts(R), cpts(C), cvec(q), fq(b2a()), fq(rmsd), cmat3(RR), cvec(TT))
    return {"kind": "kalign", "R": R.tolist(), "C": C.tolist(), "rmsd": float(rmsd), "RR": np.asarray(RR).tolist(), "TT": np.asarray(TT).tolist(),
            "shortcut": not tap.calls}, term


def case_kapplied(rng):
    R, C = pair_for_align(rng)
    order = list(range(len(R)))
    rng.shuffle(order)
    return run_eval(eval_kapplied, "kapplied", {"R": R.tolist(), "C": C.tolist(), "order": order})


def eval_kapplied(inp):
    from qcelemental.molutil import kabsch_align
    from qcelemental.models import AlignmentMill
    R, C, order = np.array(inp["R"], dtype=float), np.array(inp["C"], dtype=float), list(inp["order"])
    n = len(R)
    _, RR, TT = kabsch_align(R.copy(), C[order, :].copy(), weight=None)
    sol = AlignmentMill(shift=TT, rotation=RR, atommap=np.array(order), mirror=False)
    tgeom = sol.align_coordinates(C, reverse=False)
    rmsd = np.linalg.norm(tgeom - R) * b2a() / np.sqrt(n)
    term = "(KApplied %s %s %s %s %s %s %s %s)" % (CTOL, cpts(R), cpts(C), clist(order, cnat), cmat3(RR), cvec(TT), fq(b2a()), fq(rmsd))
    return {"kind": "kapplied", "R": R.tolist(), "C": C.tolist(), "order": order, "rmsd": float(rmsd)}, term


def candidate_rmsds(R, C, runiq, cuniq, do_mirror):
    """the loop body of B787 re-run per candidate ordering (not its selection logic)"""
    import qcelemental.molutil.align as al
    from qcelemental.models import AlignmentMill
    n = len(R)
    out = []
    for ordering in al._plausible_atom_orderings(runiq, cuniq, R, C, algorithm="permutative", verbose=0):
        o = np.asarray(ordering)
        _, RR, TT = al.kabsch_align(R, C[o, :], weight=None)
        t = AlignmentMill(shift=TT, rotation=RR, atommap=o, mirror=False).align_coordinates(C, reverse=False)
        r1 = float(np.around(np.linalg.norm(t - R) * b2a() / np.sqrt(n), decimals=8))
        r2 = 0.0
        if do_mirror:
            ic = np.copy(C)
            ic[:, 1] *= -1.0
            _, RR, TT = al.kabsch_align(R, ic[o, :], weight=None)
            t = AlignmentMill(shift=TT, rotation=RR, atommap=o, mirror=True).align_coordinates(C, reverse=False)
            r2 = float(np.around(np.linalg.norm(t - R) * b2a() / np.sqrt(n), decimals=8))
        out.append((list(map(int, o)), r1, r2))
    return out


def small_labelled(rng, chiral=False):
    n = rng.choice([4, 5, 6, 7]) if chiral else rng.choice([2, 3, 4, 5, 6, 7])
    for _ in range(500):
        R = gen_geometry(rng, n, "generic" if chiral else rng.choice(["generic", "generic", "planar", "symmetric"]))
        if not chiral or chirality(R) > 2.0:
            break
    else:
        R = np.array([[0.0, 0, 0], [1, 0, 0], [0, 2, 0], [0, 0, 3], [2, 2, 1], [-1, 1, 2], [1, -2, 2]])[:n]
    if chiral:
        labels = ["X%d" % k for k in range(n)]
        for k in rng.sample(range(n), rng.choice([0, 0, 2])):
            labels[k] = "H"
    else:
        labels = [rng.choice(["C", "H", "H", "O"]) for _ in range(n)]
    return R, np.array(labels)


def gen_nearsym(rng):
    """1-3 distinct atoms on an axis plus two H atoms related by the C2 rotation about that axis up to a small
    asymmetry delta: the swapped ordering of the two H atoms then gives a small but non-zero RMSD
    (~0.2 delta Angstrom), below or above the 1e-3 convergence threshold of mols_align=True"""
    k = rng.randint(1, 3)
    zs = rng.sample([-2.5, -1.25, 0.0, 1.125, 2.25, 3.5], k)
    delta = rng.choice([0.002, 0.004, 0.006, 0.02, 0.06, 0.15])
    u, w = rng.choice([1.25, 1.5, 1.75]), rng.choice([-1.0, -0.75, 0.5]) + 0.0625
    R = np.array([[0.0, 0.0, z] for z in zs] + [[u, 0.0, w], [-u + delta, 0.0, w]])
    labels = rng.sample(["C", "O", "N", "F"], k) + ["H", "H"]
    order = list(range(k + 2))
    rng.shuffle(order)
    R = (R @ rational_rotation(rng))[order, :]
    return R, np.array(labels)[order], delta


def case_kselect(rng):
    """the real driver on a <=7 atom pair with algorithm='permutative'"""
    import qcelemental.molutil.align as al
    run_mirror = rng.random() < 0.5
    R, runiq = small_labelled(rng, chiral=run_mirror and rng.random() < 0.7)
    n = len(R)
    perm = list(range(n))
    rng.shuffle(perm)
    mirrored = rng.random() < 0.5
    base = R.copy()
    if mirrored:
        base[:, 1] *= -1.0
    if rng.random() < 0.9:
        C = (base @ rational_rotation(rng) + np.array([rng.randint(-40, 40) / 8 for _ in range(3)]))[perm, :]
    else:
        C = gen_geometry(rng, n, "generic")[perm, :]
    cuniq = runiq[perm]
    mols_align = rng.choice([False, False, 1.0e-3, 0.05])
    rtc = rng.random() < 0.3
    if rng.random() < 0.25:
        # mols_align=True (a_convergence = 1e-3) on a matchable copy of a molecule without near-symmetric orderings
        R, _ = small_labelled(rng, chiral=True)
        n = len(R)
        runiq = np.array(["X%d" % k for k in range(n)])
        perm = list(range(n))
        rng.shuffle(perm)
        base = R.copy()
        if mirrored and run_mirror:
            base[:, 1] *= -1.0
        C = (base @ rational_rotation(rng) + np.array([rng.randint(-40, 40) / 8 for _ in range(3)]))[perm, :]
        cuniq = runiq[perm]
        mols_align = True
    return eval_kselect({"kind": "kselect", "R": R.tolist(), "C": C.tolist(), "runiq": list(map(str, runiq)), "cuniq": list(map(str, cuniq)),
                         "run_mirror": run_mirror, "mols_align": mols_align, "run_to_completion": rtc})


def eval_kselect(inp):
    """the real driver on the recorded pair; everything is recomputed from `inp` (used by replay() as well)"""
    case = {k: inp[k] for k in ("kind", "R", "C", "runiq", "cuniq", "run_mirror", "mols_align", "run_to_completion")}
    R, C = np.array(case["R"], dtype=float), np.array(case["C"], dtype=float)
    runiq, cuniq = np.array(case["runiq"]), np.array(case["cuniq"])
    run_mirror, mols_align, rtc = case["run_mirror"], case["mols_align"], case["run_to_completion"]
    try:
        with MirrorRedirect() as red:
            sup = False
            if run_mirror:
                mc = np.copy(C)
                mc[:, 1] *= -1.0
                mr, _ = red.orig(mc, C, cuniq, cuniq, verbose=0, atoms_map=False, mols_align=1.0e-6, run_mirror=False,
                                 uno_cutoff=0.1, algorithm="permutative")
                sup = bool(mr < 1.0e-6)
            rmsd, sol = red.orig(C.copy(), R.copy(), cuniq, runiq, verbose=0, atoms_map=False, mols_align=mols_align,
                                 run_to_completion=rtc, algorithm="permutative", run_mirror=run_mirror)
        cands = candidate_rmsds(R, C, runiq, cuniq, run_mirror and not sup)
    except AttributeError as e:
        # no candidate ordering survives the permutative filter (or none beats the initial 100.0): hold_solution stays
        # None and B787 fails on hold_solution.align_mini_system - modelled as Err PyAttributeError
        try:
            with MirrorRedirect() as red:
                sup = False
                if run_mirror:
                    mc = np.copy(C)
                    mc[:, 1] *= -1.0
                    mr, _ = red.orig(mc, C, cuniq, cuniq, verbose=0, atoms_map=False, mols_align=1.0e-6, run_mirror=False,
                                     uno_cutoff=0.1, algorithm="permutative")
                    sup = bool(mr < 1.0e-6)
            cands = candidate_rmsds(R, C, runiq, cuniq, run_mirror and not sup)
        except Exception as e2:
            case["error"] = "%s: %s" % (type(e2).__name__, e2)
            return case, None
        aconv = 0.0 if mols_align is False else (1.0e-3 if mols_align is True else float(mols_align))
        term = "(KSelect %s %s %s %s %s (Err PyAttributeError))" % (cbool(run_mirror), cbool(sup), cbool(rtc), fq(aconv),
                                                                   clist(["(%s, %s)" % (fq(c[1]), fq(c[2])) for c in cands]))
        case.update(superimposable=sup, candidates=len(cands), mirror=False, no_solution=True)
        return case, term
    except Exception as e:
        case["error"] = "%s: %s" % (type(e).__name__, e)
        return case, None
    idx = [k for k, c in enumerate(cands) if c[0] == list(map(int, sol.atommap))]
    if len(idx) != 1:
        case["error"] = "returned atommap is not one of the candidate orderings"
        return case, None
    best = cands[idx[0]][2] if sol.mirror else cands[idx[0]][1]
    aconv = 0.0 if mols_align is False else (1.0e-3 if mols_align is True else float(mols_align))
    out = "(Ok (%s, %s, %s))" % (fq(best), cnat(idx[0]), cbool(bool(sol.mirror)))
    term = "(KSelect %s %s %s %s %s %s)" % (cbool(run_mirror), cbool(sup), cbool(rtc), fq(aconv),
                                          clist(["(%s, %s)" % (fq(c[1]), fq(c[2])) for c in cands]), out)
    case.update(superimposable=sup, candidates=len(cands), rmsd=float(rmsd), mirror=bool(sol.mirror), index=idx[0])
    if len(cands) > 400:
        return case, None
    return case, term


def case_kweighted(rng):
    """kabsch_align with and without weights against the TRANSLATED kabsch_align (Gen/KabschAlign.v)"""
    from qcelemental.molutil import kabsch_align
    R, C = pair_for_align(rng)
    n = len(R)
    if rng.random() < 0.3:
        sw = [1.0] * n
        weight = None
    else:
        sw = [rng.choice([0.25, 0.5, 1.0, 1.0, 1.5, 2.0]) for _ in range(n)]
        weight = np.array([x * x for x in sw]) if rng.random() < 0.5 else [x * x for x in sw]
    return run_eval(eval_kweighted, "kweighted", {"R": R.tolist(), "C": C.tolist(), "sw": sw,
                                                  "weight_as": None if weight is None else ("array" if isinstance(weight, np.ndarray) else "list")})


def eval_kweighted(inp):
    from qcelemental.molutil import kabsch_align
    R, C, sw = np.array(inp["R"], dtype=float), np.array(inp["C"], dtype=float), list(inp["sw"])
    n = len(R)
    weight = None if inp["weight_as"] is None else (np.array([x * x for x in sw]) if inp["weight_as"] == "array" else [x * x for x in sw])
    with EighTap() as tap:
        rmsd, RR, TT = kabsch_align(R.copy(), C.copy(), weight=weight)
    if len(tap.calls) > 1:
        return dict(inp, kind="kweighted", error="eigh called more than once"), None
    q = tap.calls[0][2][:, -1] if tap.calls else np.array([1.0, 0, 0, 0])
    sumw = sum(x * x for x in sw)
    term = "(WAlign %s %s %s %s %s %s %s %s %s %s)" % (CTOL, cpts(R), cpts(C), clist(sw, fq), fq(sumw), cvec(q), fq(b2a()), fq(rmsd), cmat3(RR), cvec(TT))
    return dict(inp, kind="kweighted", weighted=weight is not None, rmsd=float(rmsd)), term


def case_kperm(rng):
    """_plausible_atom_orderings(algorithm='permutative'): every ordering it yields, in order"""
    import qcelemental.molutil.align as al
    from qcelemental.util import distance_matrix
    from qcelemental.exceptions import ValidationError
    n = rng.choice([1, 2, 3, 3, 4, 4, 5, 5, 6, 6, 7])
    R = gen_geometry(rng, n, rng.choice(["generic", "generic", "planar", "symmetric", "collinear"]))
    alphabet = rng.choice([["C", "H"], ["C", "H", "O"], ["C", "H", "O", "N", "F"], ["H"]])
    runiq = np.array([rng.choice(alphabet) for _ in range(n)])
    perm = list(range(n))
    rng.shuffle(perm)
    k = rng.random()
    if k < 0.6:
        C = (R @ rational_rotation(rng) + np.array([rng.randint(-40, 40) / 8 for _ in range(3)]))[perm, :]
    elif k < 0.8:
        C = (R + np.array([[rng.randint(-6, 6) / 8 for _ in range(3)] for _ in range(n)]))[perm, :]
    else:
        C = gen_geometry(rng, n, "generic")
    cuniq = runiq[perm]
    if rng.random() < 0.08 and n > 1:
        cuniq = cuniq.copy()
        cuniq[rng.randrange(n)] = rng.choice(["C", "H", "O", "Xx"])      # possibly a different multiset of labels
    try:
        out = [list(map(int, o)) for o in al._plausible_atom_orderings(runiq, cuniq, R, C, algorithm="permutative", verbose=0)]
        res = ("Ok", out)
    except ValidationError:
        res = ("Err", "Validation")
    except Exception as e:
        return {"kind": "kperm", "R": R.tolist(), "C": C.tolist(), "runiq": list(map(str, runiq)), "cuniq": list(map(str, cuniq)),
                "error": "%s: %s" % (type(e).__name__, e)}, None
    if res[0] == "Ok" and len(res[1]) > 1500:
        return {"kind": "kperm", "skipped": True}, None
    names = {}
    for x in list(runiq) + list(cuniq):
        names.setdefault(str(x), len(names))
    rr, cc = distance_matrix(R, R), distance_matrix(C, C)
    o = "(Ok %s)" % clist([clist(x, cnat) for x in res[1]]) if res[0] == "Ok" else "(Err Validation)"
    term = "(PCase %s %s %s %s %s)" % (clist([names[str(x)] for x in runiq], cnat), clist([names[str(x)] for x in cuniq], cnat),
                                     clist(rr.reshape(-1), fq), clist(cc.reshape(-1), fq), o)
    return {"kind": "kperm", "R": R.tolist(), "C": C.tolist(), "runiq": list(map(str, runiq)), "cuniq": list(map(str, cuniq)),
            "n_orderings": len(res[1]) if res[0] == "Ok" else -1}, term


class DriverTap:
    """while active, records every call of kabsch_align made by B787 (arguments, result, LAPACK's top eigenvector) and every
    AlignmentMill.align_coordinates call (recipe, result): the loop body of the real driver, trial by trial"""

    def __enter__(self):
        import qcelemental.molutil.align as al
        from qcelemental.models import AlignmentMill
        self.al, self.AM = al, AlignmentMill
        self.k_orig, self.a_orig = al.kabsch_align, AlignmentMill.align_coordinates
        self.kcalls, self.acalls = [], []
        tap = self

        def kab(rgeom, cgeom, weight=None):
            rg, cg = np.array(rgeom, dtype=float, copy=True), np.array(cgeom, dtype=float, copy=True)
            with EighTap() as et:
                res = tap.k_orig(rgeom, cgeom, weight=weight)
            q = et.calls[0][2][:, -1] if len(et.calls) == 1 else (np.array([1.0, 0, 0, 0]) if not et.calls else None)
            tap.kcalls.append({"R": rg, "Cp": cg, "q": q, "rmsd": float(res[0]), "RR": np.array(res[1], dtype=float), "TT": np.array(res[2], dtype=float)})
            return res

        def alc(mill, geom, *, reverse=False):
            out = tap.a_orig(mill, geom, reverse=reverse)
            tap.acalls.append({"geom": np.array(geom, dtype=float, copy=True), "reverse": reverse, "mirror": bool(mill.mirror),
                               "atommap": [int(x) for x in mill.atommap], "RR": np.array(mill.rotation, dtype=float),
                               "TT": np.array(mill.shift, dtype=float), "out": np.array(out, dtype=float, copy=True)})
            return out

        al.kabsch_align = kab
        AlignmentMill.align_coordinates = alc
        return self

    def __exit__(self, *exc):
        self.al.kabsch_align = self.k_orig
        self.AM.align_coordinates = self.a_orig
        return False


def case_kdriver(rng):
    """a real B787 call observed trial by trial, against Model/KabschDriver.v [trial]: labels all distinct (one candidate
    ordering) or with repeated labels (several candidates, tried in the order of the generator); for every candidate the
    plain trial and, with run_mirror on a chiral molecule, the mirror trial"""
    run_mirror = rng.random() < 0.6
    R, lab = small_labelled(rng, chiral=True)
    n = len(R)
    runiq = np.array(["X%d" % k for k in range(n)]) if rng.random() < 0.5 else np.array(lab)
    perm = list(range(n))
    rng.shuffle(perm)
    base = R.copy()
    mirrored = rng.random() < 0.5
    if mirrored:
        base[:, 1] *= -1.0
    if rng.random() < 0.8:
        C = (base @ rational_rotation(rng) + np.array([rng.randint(-40, 40) / 8 for _ in range(3)]))[perm, :]
    else:
        C = gen_geometry(rng, n, "generic")[perm, :]
    cuniq = runiq[perm]
    atoms_map = rng.random() < 0.3
    if atoms_map:
        C = C[[perm.index(j) for j in range(n)], :]        # undo the shuffle: the fixed map is the identity
        cuniq = runiq
    return run_eval(eval_kdriver, "kdriver", {"kind": "kdriver", "R": R.tolist(), "C": C.tolist(), "runiq": list(map(str, runiq)),
                                              "cuniq": list(map(str, cuniq)), "run_mirror": run_mirror, "atoms_map": atoms_map}, none=[])


def eval_kdriver(inp):
    """one observed B787 run on the recorded pair; everything is recomputed from `inp` (used by replay() as well)"""
    case = {k: inp[k] for k in ("kind", "R", "C", "runiq", "cuniq", "run_mirror", "atoms_map")}
    R, C = np.array(case["R"], dtype=float), np.array(case["C"], dtype=float)
    runiq, cuniq = np.array(case["runiq"]), np.array(case["cuniq"])
    run_mirror, atoms_map = case["run_mirror"], case["atoms_map"]
    n = len(R)
    try:
        with MirrorRedirect() as red, DriverTap() as tap:
            rmsd, sol = red.orig(C.copy(), R.copy(), cuniq, runiq, verbose=0, atoms_map=atoms_map, mols_align=False, algorithm="permutative",
                                 run_mirror=run_mirror)
    except AttributeError:
        # no candidate ordering passes the distance filter (unrelated geometries with repeated labels): hold_solution stays None
        import qcelemental.molutil.align as al0
        if not atoms_map and not list(al0._plausible_atom_orderings(runiq, cuniq, R, C, algorithm="permutative", verbose=0)):
            return {"kind": "kdriver", "skipped": True, "no_candidates": True}, []
        raise
    ks = [k for k in tap.kcalls if np.array_equal(k["R"], R)]                      # (the inner pre-check aligns onto the mirrored cgeom)
    acs = [a for a in tap.acalls if np.array_equal(a["geom"], C) and not a["reverse"]]
    terms = []
    if not ks or len(acs) < len(ks) + 1:
        case["error"] = "unexpected number of trials observed: %d kabsch_align calls, %d align_coordinates calls" % (len(ks), len(acs))
        return case, []
    if len(ks) > 48:
        return {"kind": "kdriver", "skipped": True, "trials": len(ks), "mirror": bool(sol.mirror)}, []
    # the orderings tried are the candidate orderings of the generator, in its order (each once, or plain + mirror)
    import qcelemental.molutil.align as al
    if atoms_map:
        expected = [list(range(n))]
    else:
        expected = [list(map(int, o)) for o in al._plausible_atom_orderings(runiq, cuniq, R, C, algorithm="permutative", verbose=0)]
    tried = [a["atommap"] for a in acs[:len(ks)]]
    per = 2 if len(ks) == 2 * len(expected) else 1
    if len(ks) != per * len(expected) or tried != [o for o in expected for _ in range(per)]:
        case["error"] = "the orderings tried by the loop are not the candidate orderings in generator order"
        return case, []
    for t, k in enumerate(ks):
        a = acs[t]
        if k["q"] is None or not (np.array_equal(a["RR"], k["RR"]) and np.array_equal(a["TT"], k["TT"])):
            case["error"] = "trial %d: the recipe applied is not built from the kabsch_align result of that trial" % t
            return case, []
        mir = a["mirror"]
        trmsd = float(np.linalg.norm(a["out"] - R) * b2a() / np.sqrt(n))
        terms.append("(DTrial %s %s %s %s %s %s %s %s %s %s %s)" % (CTOL, cbool(mir), cpts(R), cpts(C), clist(a["atommap"], cnat), cvec(k["q"]),
                                                                   fq(b2a()), fq(trmsd), cmat3(k["RR"]), cvec(k["TT"]), cpts(a["out"])))
    if [a["mirror"] for a in acs[:len(ks)]] != ([False, True] * len(expected) if per == 2 else [False] * len(expected)):
        case["error"] = "trials are not (plain, mirror) per candidate in this order"
        return case, []
    # the solution returned is the first trial that attains the smallest rounded RMSD
    rr = [float(np.around(np.linalg.norm(a["out"] - R) * b2a() / np.sqrt(n), decimals=8)) for a in acs[:len(ks)]]
    win = rr.index(min(rr))
    if [int(x) for x in sol.atommap] != tried[win] or bool(sol.mirror) != acs[win]["mirror"] or abs(float(rmsd) - rr[win]) > 1e-7:
        case["error"] = "the returned solution is not the first trial with the smallest RMSD"
        return case, []
    case.update(trials=len(ks), candidates=len(expected), rmsd=float(rmsd), mirror=bool(sol.mirror))
    return case, terms


def case_krandrot(rng):
    """random_rotation_matrix(deflection, randnums) against the TRANSLATED matrix algebra (Gen/Rand3dRot.v) run on numpy's own
    sin/cos/sqrt of the angles the code prepares; and the property on the implementation: a proper rotation, the identity for
    deflection 0"""
    from qcelemental.util import random_rotation_matrix
    pick = lambda: rng.choice([0.0, 1.0, 0.5, 0.25, rng.random(), rng.random()])
    x = [pick(), pick(), pick()]
    d = rng.choice([0.0, 1.0, 0.1, 0.5, rng.random()])
    M = np.asarray(random_rotation_matrix(deflection=d, randnums=np.array(x)), dtype=float)
    theta = (x[0] - 1 / 2) * d * 2 * np.pi
    phi = x[1] * 2 * np.pi
    z = x[2] * 2 * d
    vals = [np.sin(phi), np.cos(phi), np.sqrt(z), np.sqrt(2.0 - z), np.sin(theta), np.cos(theta)]
    case = {"kind": "krandrot", "randnums": x, "deflection": d, "M": M.tolist()}
    if M.shape != (3, 3) or not np.all(np.isfinite(M)):
        case["oracle"] = "random_rotation_matrix did not return a finite 3x3 matrix"
        case["M"] = [[repr(float(t)) for t in row] for row in np.atleast_2d(M)]
        return case, None
    if np.max(np.abs(M.T @ M - np.eye(3))) > 1e-12 or abs(np.linalg.det(M) - 1.0) > 1e-12:
        case["oracle"] = "random_rotation_matrix did not return a proper rotation"
    elif d == 0.0 and np.max(np.abs(M - np.eye(3))) > 1e-12:
        case["oracle"] = "random_rotation_matrix(deflection=0) is not the identity"
    term = "(RCase %s %s %s)" % (cq(Fraction(1, 10 ** 12)), " ".join(fq(v) for v in vals), cmat3(M))
    return case, term


def scramble_oracle(rng):
    """compute_scramble with its defaults (global numpy RNG): a permutation, a shift in [-3, 3)^3, a proper rotation"""
    from qcelemental.molutil.align import compute_scramble
    nat = rng.randint(1, 12)
    seed = rng.randrange(1 << 30)
    defl = rng.choice([1.0, 1.0, 0.1, 0.0])
    case = {"kind": "scramble", "nat": nat, "deflection": defl, "np_seed": seed, "do_mirror": rng.random() < 0.5}
    try:
        return eval_scramble(case)
    except Exception as e:
        return case, "compute_scramble raised %s: %s" % (type(e).__name__, e)


def eval_scramble(case):
    """compute_scramble draws from numpy's global RNG: the seed is part of the recorded case"""
    from qcelemental.molutil.align import compute_scramble
    nat, defl = case["nat"], case["deflection"]
    np.random.seed(case["np_seed"])
    m = compute_scramble(nat, deflection=defl, do_mirror=case["do_mirror"])
    Rm = np.asarray(m.rotation, dtype=float)
    if sorted(map(int, m.atommap)) != list(range(nat)):
        return case, "compute_scramble: atommap is not a permutation of range(nat)"
    if np.asarray(m.shift).shape != (3,) or np.any(np.asarray(m.shift) < -3) or np.any(np.asarray(m.shift) >= 3):
        return case, "compute_scramble: shift outside [-3, 3)^3"
    if Rm.shape != (3, 3) or np.max(np.abs(Rm.T @ Rm - np.eye(3))) > 1e-12 or abs(np.linalg.det(Rm) - 1.0) > 1e-12:
        return case, "compute_scramble: rotation is not proper"
    return case, None


MODEL_KINDS = [("kquat", case_kquat), ("kalign", case_kalign), ("kapplied", case_kapplied), ("kselect", case_kselect)]

# ---------------------------------------------------------------------------------------------
# property oracle on the implementation


SCRAMBLE_SELFTEST = ("Molecule.scramble(do_test=True) raised AssertionError although Molecule.align recovers the scrambled copy "
                     "exactly (RMSD 0, atom by atom)")


def apply_recipe(x, shift, rot, perm, mirror):
    """what Molecule.scramble does: (x . rot + shift), mirror, then take rows perm"""
    y = x @ np.asarray(rot) + np.asarray(shift)
    if mirror:
        y = y.copy()
        y[:, 1] *= -1.0
    return y[perm, :]


def gen_oracle_case(rng, kind=None):
    kind = kind or rng.choice(["rigid_fixed", "rigid_fixed", "rigid_perm", "unrelated", "mirror", "molecule", "near_copy", "options", "nearsym",
                               "history"])
    if kind == "history":
        # a short "trajectory": 2-4 moved (some slightly distorted) copies of one reference are aligned one after the other, each
        # through one of the public entry points; every result is KEPT as returned and judged only after the whole sequence
        n = rng.randint(2, 12)
        R = gen_geometry(rng, n, rng.choice(["generic", "generic", "generic", "planar", "collinear"]))
        if rng.random() < 0.3:
            R = R + np.array([rng.choice([-1, 1]) * rng.randint(100, 2000) for _ in range(3)], dtype=float)      # far from the origin
        frames = []
        for _ in range(rng.randint(2, 4)):
            k = rng.random()
            rot = np.eye(3) if k < 0.1 else (rational_rotation(rng, big=True) if k < 0.6 else random_rotation(rng))
            shift = [0.0, 0.0, 0.0] if (k < 0.1 and rng.random() < 0.5) else [rng.randint(-80, 80) / 8 for _ in range(3)]
            entry = rng.choice(HISTORY_ENTRIES)
            distort = [rng.randrange(n), rng.randrange(3), rng.choice([0.0625, 0.125, 0.25, 0.375])] if rng.random() < 0.3 else None
            if entry == "B787-mirror" and (n > 6 or distort):
                entry = "B787"            # (the mirror pre-check enumerates atom orderings; a distorted frame may legitimately prefer the mirror recipe)
            frames.append({"entry": entry, "rot": np.asarray(rot).tolist(), "shift": shift, "distort": distort,
                           "layout": rng.choice(["C", "C", "F", "view", "readonly"]),
                           "weight": rng.choice(["omitted", "none", "ones_list", "ones_array"]), "mols_align": rng.random() < 0.5})
        return {"kind": kind, "R": R.tolist(), "symbols": [rng.choice(["H", "C", "N", "O", "F"]) for _ in range(n)], "frames": frames,
                "reuse_buffers": rng.random() < 0.5}
    if kind == "near_copy":
        # a copy moved by a tiny rigid motion or stretched by a tiny factor: around the allclose short-cut of kabsch_align
        n = rng.randint(2, 12)
        R = gen_geometry(rng, n, rng.choice(["generic", "generic", "planar"])) + np.array([rng.randint(1, 40) / 8 for _ in range(3)])
        return {"kind": kind, "R": R.tolist(), "angle": 10.0 ** -rng.uniform(2, 9), "axis": rng.randrange(3),
                "shift": [rng.choice([0.0, 10.0 ** -rng.uniform(2, 9)]) for _ in range(3)],
                "stretch": rng.choice([0.0, 0.0, 10.0 ** -rng.uniform(3, 9)])}
    if kind == "options":
        # the option product of B787 on a small rigid copy
        want_chiral = rng.random() < 0.5
        for _ in range(60):
            R, labels = small_labelled(rng, chiral=want_chiral)
            if len(R) <= 6:
                break
        else:
            R, labels = R[:6], labels[:6]
        n = len(R)
        perm = list(range(n))
        atoms_map = rng.random() < 0.5
        if not atoms_map:
            rng.shuffle(perm)
        return {"kind": kind, "R": R.tolist(), "rot": rational_rotation(rng, big=True).tolist(), "shift": [rng.randint(-40, 40) / 8 for _ in range(3)],
                "perm": perm, "labels": list(map(str, labels)), "atoms_map": atoms_map, "run_resorting": rng.random() < 0.5 and n <= 6,
                "run_mirror": rng.random() < 0.5, "mirrored": rng.random() < 0.3, "run_to_completion": rng.random() < 0.5,
                "mols_align": rng.choice([False, 1.0e-3, 1.0e-6, 0.05]), "pass_uniq": rng.random() < 0.5}
    if kind == "nearsym":
        R, labels, delta = gen_nearsym(rng)
        n = len(R)
        perm = list(range(n))
        rng.shuffle(perm)
        return {"kind": kind, "R": R.tolist(), "rot": rational_rotation(rng, big=True).tolist(), "shift": [rng.randint(-40, 40) / 8 for _ in range(3)],
                "perm": perm, "labels": list(map(str, labels)), "delta": delta, "mols_align": rng.choice([True, True, False, 1.0e-6])}
    if kind == "rigid_fixed":
        n = rng.randint(2, 30)
        style = rng.choice(["generic", "generic", "planar", "collinear", "symmetric"])
        R = gen_geometry(rng, n, style)
        rot = rational_rotation(rng, big=True) if rng.random() < 0.7 else random_rotation(rng)
        shift = [rng.uniform(-10, 10) for _ in range(3)]
        return {"kind": kind, "R": R.tolist(), "rot": rot.tolist(), "shift": shift, "perm": list(range(n)), "labels": ["X"] * n, "style": style}
    if kind == "rigid_perm":
        R, labels = small_labelled(rng)
        n = len(R)
        perm = list(range(n))
        rng.shuffle(perm)
        rot = rational_rotation(rng, big=True) if rng.random() < 0.7 else random_rotation(rng)
        return {"kind": kind, "R": R.tolist(), "rot": rot.tolist(), "shift": [rng.uniform(-10, 10) for _ in range(3)],
                "perm": perm, "labels": list(map(str, labels))}
    if kind == "unrelated":
        n = rng.randint(2, 30)
        R = gen_geometry(rng, n, rng.choice(["generic", "planar", "collinear", "symmetric"]))
        C = gen_geometry(rng, n, rng.choice(["generic", "planar", "collinear"]))
        return {"kind": kind, "R": R.tolist(), "C": C.tolist(), "seed": rng.randrange(1 << 30)}
    if kind == "mirror":
        R, labels = small_labelled(rng, chiral=True)
        n = len(R)
        perm = list(range(n))
        rng.shuffle(perm)
        return {"kind": kind, "R": R.tolist(), "rot": rational_rotation(rng, big=True).tolist(),
                "shift": [rng.uniform(-10, 10) for _ in range(3)], "perm": perm, "labels": list(map(str, labels)),
                "mirrored": rng.random() < 0.6, "run_mirror": rng.random() < 0.5}
    if kind == "molecule":
        chiral = rng.random() < 0.35
        if chiral:
            R, _ = small_labelled(rng, chiral=True)
        else:
            R = gen_geometry(rng, rng.randint(2, 12), rng.choice(["generic", "generic", "planar", "collinear"]))
        n = len(R)
        if chiral:
            symbols = rng.sample(["H", "C", "N", "O", "F", "S", "P"], n)     # all different: no symmetry
        else:
            symbols = [rng.choice(["H", "H", "C", "N", "O"]) for _ in range(n)]
        return {"kind": kind, "R": R.tolist(), "symbols": symbols, "rot": rational_rotation(rng, big=True).tolist(),
                "shift": [rng.randint(-24, 24) / 8 for _ in range(3)], "mirror": chiral and rng.random() < 0.6}
    raise AssertionError(kind)


def check_solution(R, C, runiq, cuniq, rmsd, sol, what):
    """common checks on a (rmsd, AlignmentMill) answer: proper rotation, reported == applied RMSD"""
    RR = np.asarray(sol.rotation, dtype=float)
    if RR.shape != (3, 3) or np.max(np.abs(RR.T @ RR - np.eye(3))) > 1e-9 or abs(np.linalg.det(RR) - 1.0) > 1e-9:
        return what + ": returned rotation is not proper orthogonal", {"rotation": RR.tolist(), "det": float(np.linalg.det(RR))}
    aligned = sol.align_coordinates(C, reverse=False)
    applied = float(np.linalg.norm(aligned - R) * b2a() / np.sqrt(len(R)))
    if abs(applied - rmsd) > 1e-7:
        return what + ": reported RMSD differs from the RMSD obtained by applying the returned transformation", {"reported": float(rmsd), "applied": applied}
    return None


HISTORY_ENTRIES = ["kabsch_align", "kabsch_align", "kabsch_quaternion", "B787", "B787-mirror", "Molecule.align"]
LATER = " [result kept while later alignments ran, then checked]"


def lay_out(a, layout):
    """the same numbers in another legal memory layout"""
    a = np.asarray(a, dtype=float)
    if layout == "F":
        return np.asfortranarray(a.copy())
    if layout == "view":
        big = np.full((2 * a.shape[0], a.shape[1] + 2), 3.25)
        big[::2, 1:-1] = a
        return big[::2, 1:-1]
    out = a.copy()
    if layout == "readonly":
        out.flags.writeable = False
    return out


def history_frame_geometry(R, fr):
    D = R.copy()
    if fr.get("distort"):
        i, j, amount = fr["distort"]
        D[int(i), int(j)] += amount
    return D @ np.array(fr["rot"], dtype=float) + np.array(fr["shift"], dtype=float)


def history_oracle(case):
    """align every frame, keep what was returned (no copies), re-use the caller's buffers if the case says so; judge afterwards"""
    from qcelemental.molutil import B787, kabsch_align
    from qcelemental.molutil.align import kabsch_quaternion
    from qcelemental.models import Molecule
    R = np.array(case["R"], dtype=float)
    n = len(R)
    kept = []
    refmol = None
    for t, fr in enumerate(case["frames"]):
        C = history_frame_geometry(R, fr)
        entry = fr["entry"]
        Rin, Cin = lay_out(R, fr["layout"]), lay_out(C, fr["layout"])
        if entry == "kabsch_align":
            # (all-one weights are the unweighted problem: same centroids, same F, RMSD divided by sqrt(sum w) = sqrt(n))
            wt = fr["weight"]
            res = kabsch_align(Rin, Cin) if wt == "omitted" else kabsch_align(
                Rin, Cin, weight={"none": None, "ones_list": [1.0] * n, "ones_array": np.ones(n)}[wt])
        elif entry == "kabsch_quaternion":
            Rc, Cc = lay_out(R - R.mean(axis=0), fr["layout"]), lay_out(C - C.mean(axis=0), fr["layout"])
            res = kabsch_quaternion(Cc.T, Rc.T)
            if case.get("reuse_buffers") and fr["layout"] != "readonly":
                Rc[...] = -5.5
                Cc[...] = 7.75
        elif entry == "B787":
            res = B787(Cin, Rin, None, None, verbose=0, atoms_map=True, mols_align=bool(fr["mols_align"] and not fr.get("distort")))
        elif entry == "B787-mirror":
            # other options through the same driver: labels given, mirror matching requested (<= 6 atoms, rigid frames only)
            lab = np.array(case["symbols"])
            with MirrorRedirect() as red:
                res = red.orig(Cin, Rin, lab, lab, verbose=0, atoms_map=True, run_mirror=True, mols_align=bool(fr["mols_align"]))
        elif entry == "Molecule.align":
            if refmol is None:
                refmol = Molecule(symbols=case["symbols"], geometry=R.reshape(-1), fix_com=True, fix_orientation=True)
            cmol = Molecule(symbols=case["symbols"], geometry=C.reshape(-1), fix_com=True, fix_orientation=True)
            res = cmol.align(refmol, atoms_map=True, verbose=0)
        else:
            raise AssertionError(entry)
        if not (np.array_equal(Rin, R) and np.array_equal(Cin, C)):
            return "frame %d (%s): the geometries given to the aligner were modified" % (t, entry), {}
        if case.get("reuse_buffers") and fr["layout"] != "readonly":
            Rin[...] = -5.5          # the caller re-uses its buffers
            Cin[...] = 7.75
        kept.append((t, fr, entry, C, res))
    # ---- judge, oldest first
    for t, fr, entry, C, res in kept:
        what = "frame %d of %d (%s)" % (t, len(kept), entry)
        rmsd = None
        if entry == "kabsch_align":
            rmsd, RR, TT = res
        elif entry == "kabsch_quaternion":
            RR = res
            TT = C.mean(axis=0) - np.asarray(RR).dot(R.mean(axis=0)) if np.asarray(RR).shape == (3, 3) else None
        elif entry in ("B787", "B787-mirror"):
            rmsd, sol = res
            RR, TT = sol.rotation, sol.shift
            if sol.mirror or list(map(int, sol.atommap)) != list(range(n)):
                return what + ": fixed atom map, no mirror requested, but the recipe returned has another map or a mirror", {}
        else:
            amol, data = res
            rmsd, sol = data["rmsd"], data["mill"]
            RR, TT = sol.rotation, sol.shift
        RR, TT = np.asarray(RR, dtype=float), np.asarray(TT, dtype=float)
        if RR.shape != (3, 3) or TT.shape != (3,) or np.max(np.abs(RR.T @ RR - np.eye(3))) > 1e-9 or abs(np.linalg.det(RR) - 1.0) > 1e-9:
            return what + ": returned rotation is not proper orthogonal" + LATER, {"rotation": RR.tolist()}
        aligned = (C - TT) @ RR
        applied = float(np.linalg.norm(aligned - R) * b2a() / np.sqrt(n))
        # documented short-cut of kabsch_align (C12_kabsch_align_shortcut): |r - c| <= 1e-8 + 1e-5 |c| in every coordinate
        short = bool(np.all(np.abs(R - C) <= 1e-8 + 1e-5 * np.abs(C)))
        bound = float(np.linalg.norm(1e-8 + 1e-5 * np.abs(C)) * b2a() / np.sqrt(n)) if short else 0.0
        if rmsd is not None and abs(applied - float(rmsd)) > bound + 1e-7:
            return what + ": reported RMSD differs from the RMSD obtained by applying the returned rotation/shift" + LATER, \
                {"reported": float(rmsd), "applied": applied}
        Rc, Cc = R - R.mean(axis=0), C - C.mean(axis=0)
        U_, S_, Vt_ = np.linalg.svd(Cc.T @ Rc)
        d = np.sign(np.linalg.det(U_ @ Vt_))
        best = math.sqrt(max(0.0, float((Rc ** 2).sum() + (Cc ** 2).sum() - 2 * (S_[0] + S_[1] + d * S_[2])))) * b2a() / math.sqrt(n)
        if applied > best + bound + 1e-7:
            return what + ": the returned rotation/shift are worse than the optimal proper rotation" + LATER, {"applied": applied, "optimal": best}
        if not fr.get("distort") and not short:
            if np.max(np.abs(aligned - R)) > 1e-6:
                return what + ": rigid copy: the returned transformation does not map it back onto the reference atom by atom" + LATER, \
                    {"max_dev": float(np.max(np.abs(aligned - R)))}
            if not is_collinear(R):
                if np.max(np.abs(RR.T - np.array(fr["rot"]))) > 1e-6:
                    return what + ": non-collinear rigid copy: returned rotation is not (the transpose of) the applied one" + LATER, {"returned": RR.tolist()}
                # (Molecule stores geometries rounded to 1e-8: far from the origin that noise, through the rotation it implies
                #  - at most ~1e-8 sqrt(n) / sigma_2 of the centred reference -, moves the shift by that angle times |centroid|)
                tol_shift = 1e-6
                if entry == "Molecule.align":
                    sig = np.linalg.svd(Rc, compute_uv=False)
                    tol_shift += 5e-8 * math.sqrt(n) * float(np.linalg.norm(R.mean(axis=0))) / max(float(sig[1]), 1e-3)
                if np.max(np.abs(TT - np.array(fr["shift"]))) > tol_shift:
                    return what + ": non-collinear rigid copy: returned shift is not the applied one" + LATER, \
                        {"returned": TT.tolist(), "tolerance": tol_shift}
            if entry == "Molecule.align" and (np.max(np.abs(np.asarray(amol.geometry) - R)) > 1e-6 or list(amol.symbols) != list(case["symbols"])):
                return what + ": aligned molecule does not coincide with the reference atom by atom" + LATER, {}
    return None


def oracle(case):
    from qcelemental.molutil import B787, kabsch_align
    kind = case["kind"]
    if kind == "history":
        return history_oracle(case)
    R = np.array(case["R"], dtype=float)
    n = len(R)
    if kind in ("rigid_fixed", "rigid_perm"):
        rot, shift, perm = np.array(case["rot"]), np.array(case["shift"]), list(case["perm"])
        labels = np.array(case["labels"])
        C = apply_recipe(R, shift, rot, perm, False)
        cuniq = labels[perm]
        if kind == "rigid_fixed":
            rmsd, sol = B787(C.copy(), R.copy(), None, None, verbose=0, atoms_map=True, mols_align=True)
        else:
            rmsd, sol = B787(C.copy(), R.copy(), cuniq, labels, verbose=0, atoms_map=False, mols_align=True, algorithm="permutative")
        if not rmsd <= 1e-8:
            return "rigid copy not recovered: RMSD is not zero", {"rmsd": float(rmsd)}
        bad = check_solution(R, C, labels, cuniq, rmsd, sol, kind)
        if bad:
            return bad
        if sol.mirror:
            return "mirror recipe returned although mirror matching was not requested", {}
        aligned = sol.align_coordinates(C, reverse=False)
        if np.max(np.abs(aligned - R)) > 1e-6:
            return "returned transformation does not map the copy back onto the reference atom by atom", {"max_dev": float(np.max(np.abs(aligned - R)))}
        if list(sol.align_atoms(cuniq)) != list(labels):
            return "element labels do not match after alignment", {"aligned": list(map(str, sol.align_atoms(cuniq)))}
        if sorted(map(int, sol.atommap)) != list(range(n)):
            return "returned atom map is not a permutation", {"atommap": list(map(int, sol.atommap))}
        true_map = [perm.index(j) for j in range(n)]
        if not is_collinear(R) and list(map(int, sol.atommap)) == true_map:
            # (with another, symmetry-equivalent atom map a different rotation is equally exact)
            if np.max(np.abs(np.asarray(sol.rotation).T - rot)) > 1e-6:
                return "non-collinear molecule: returned rotation is not (the transpose of) the applied one", {"returned": np.asarray(sol.rotation).tolist()}
            if np.max(np.abs(np.asarray(sol.shift) - shift)) > 1e-6:
                return "non-collinear molecule: returned shift is not the applied one", {"returned": np.asarray(sol.shift).tolist()}
        return None
    if kind == "near_copy":
        th, ax = case["angle"], case["axis"]
        c_, s_ = math.cos(th), math.sin(th)
        rot = np.eye(3)
        i, j = [(1, 2), (0, 2), (0, 1)][ax]
        rot[i, i], rot[i, j], rot[j, i], rot[j, j] = c_, -s_, s_, c_
        cen = R.mean(axis=0)
        C = ((R - cen) @ rot + cen + np.array(case["shift"])) * (1.0 + case["stretch"])
        rmsd, RR, TT = kabsch_align(R.copy(), C.copy(), weight=None)
        from qcelemental.models import AlignmentMill
        sol = AlignmentMill(shift=TT, rotation=RR, atommap=np.arange(n), mirror=False)
        applied = float(np.linalg.norm(sol.align_coordinates(C, reverse=False) - R) * b2a() / np.sqrt(n))
        # documented short-cut (C12_kabsch_align_shortcut): geometries with |r - c| <= 1e-8 + 1e-5 |c| in every coordinate are
        # reported as identical (identity recipe, RMSD 0); outside it the reported RMSD is the applied one and is optimal
        short = bool(np.all(np.abs(R - C) <= 1e-8 + 1e-5 * np.abs(C)))
        bound = float(np.linalg.norm(1e-8 + 1e-5 * np.abs(C)) * b2a() / np.sqrt(n)) if short else 0.0
        if abs(applied - float(rmsd)) > bound + 1e-7:
            return "kabsch_align: reported RMSD differs from the RMSD obtained by applying the returned rotation/shift by more than its allclose tolerance", \
                {"reported": float(rmsd), "applied": applied, "tolerance": bound}
        # the best proper rotation about the centroids for this pair (Kabsch via SVD, independent of the implementation)
        Rc, Cc = R - R.mean(axis=0), C - C.mean(axis=0)
        U_, S_, Vt_ = np.linalg.svd(Cc.T @ Rc)
        d = np.sign(np.linalg.det(U_ @ Vt_))
        best = math.sqrt(max(0.0, float((Rc ** 2).sum() + (Cc ** 2).sum() - 2 * (S_[0] + S_[1] + d * S_[2])))) * b2a() / math.sqrt(n)
        if applied > best + bound + 1e-7:
            return "kabsch_align: the returned rotation/shift are worse than the optimal proper rotation by more than the allclose tolerance", \
                {"applied": applied, "optimal": best, "tolerance": bound}
        return None
    if kind == "options":
        rot, shift, perm = np.array(case["rot"]), np.array(case["shift"]), list(case["perm"])
        labels = np.array(case["labels"])
        C = apply_recipe(R, shift, rot, perm, case["mirrored"])
        cuniq = labels[perm]
        uq = (cuniq, labels) if (case["pass_uniq"] or not case["atoms_map"]) else (None, None)
        with MirrorRedirect() as red:
            rmsd, sol = red.orig(C.copy(), R.copy(), uq[0], uq[1], verbose=0, atoms_map=case["atoms_map"], run_resorting=case["run_resorting"],
                                 mols_align=case["mols_align"], run_to_completion=case["run_to_completion"], algorithm="permutative",
                                 run_mirror=case["run_mirror"])
        bad = check_solution(R, C, labels, cuniq, rmsd, sol, kind)
        if bad:
            return bad
        if sol.mirror and not case["run_mirror"]:
            return "mirror recipe returned although mirror matching was not requested", {}
        # (with a fixed atom map and no resorting, B787 skips the mirror trials whenever the point set is superimposable on its
        #  mirror image under SOME atom permutation - which the fixed map cannot use: no expectation in that corner)
        matchable = (not case["mirrored"]) or (case["run_mirror"] and (not case["atoms_map"] or case["run_resorting"]))
        # (a mirrored copy of a molecule that is superimposable on its mirror image is matchable by a proper rotation too)
        # without run_to_completion the search may stop at the first ordering below the requested convergence mols_align
        early = (not case["run_to_completion"]) and case["mols_align"] is not False and not case["atoms_map"] or \
                (not case["run_to_completion"]) and case["mols_align"] is not False and case["run_resorting"]
        limit = max(1e-7, float(case["mols_align"])) if early else 1e-7
        if matchable and not rmsd <= limit:
            return "options: a rigid copy is not recovered (RMSD not zero / not below the requested convergence)", {"rmsd": float(rmsd), "limit": limit}
        if rmsd <= 1e-7:
            aligned = sol.align_coordinates(C, reverse=False)
            if np.max(np.abs(aligned - R)) > 1e-5 or (uq[0] is not None and list(sol.align_atoms(cuniq)) != list(labels)):
                return "options: returned transformation does not map the copy onto the reference atom by atom with elements matching", {}
        if sorted(map(int, sol.atommap)) != list(range(n)):
            return "returned atom map is not a permutation", {"atommap": list(map(int, sol.atommap))}
        return None
    if kind == "nearsym":
        rot, shift, perm = np.array(case["rot"]), np.array(case["shift"]), list(case["perm"])
        labels = np.array(case["labels"])
        C = apply_recipe(R, shift, rot, perm, False)
        cuniq = labels[perm]
        rmsd, sol = B787(C.copy(), R.copy(), cuniq, labels, verbose=0, atoms_map=False, mols_align=case["mols_align"], algorithm="permutative")
        if not rmsd <= 1e-7:
            return "nearsym: exact shuffled copy of a slightly asymmetric molecule not recovered (RMSD not zero)", {"rmsd": float(rmsd)}
        bad = check_solution(R, C, labels, cuniq, rmsd, sol, kind)
        if bad:
            return bad
        aligned = sol.align_coordinates(C, reverse=False)
        if np.max(np.abs(aligned - R)) > 1e-6 or list(sol.align_atoms(cuniq)) != list(labels):
            return "nearsym: returned transformation does not map the copy onto the reference atom by atom", {}
        return None
    if kind == "unrelated":
        import random as _r
        C = np.array(case["C"], dtype=float)
        with EighTap() as tap:
            rmsd, RR, TT = kabsch_align(R.copy(), C.copy(), weight=None)
        from qcelemental.models import AlignmentMill
        sol = AlignmentMill(shift=TT, rotation=RR, atommap=np.arange(n), mirror=False)
        bad = check_solution(R, C, None, None, rmsd, sol, kind)
        if bad:
            return bad
        Rc, Cc = R - R.mean(axis=0), C - C.mean(axis=0)
        rr = _r.Random(case["seed"])
        best_other = min(float(np.linalg.norm(Rc - Cc @ random_rotation(rr))) for _ in range(300)) * b2a() / math.sqrt(n)
        if rmsd > best_other + 1e-9:
            return "a random proper rotation about the centroids gives a smaller RMSD than the aligner", {"aligner": float(rmsd), "random_rotation": best_other}
        if tap.calls:
            F = tap.calls[-1][0]
            lam = float(np.linalg.eigvalsh(F)[-1])
            tot = float((Rc ** 2).sum() + (Cc ** 2).sum())
            ssd = tot - 2 * lam
            ssd_reported = float(rmsd) ** 2 * n / b2a() ** 2
            if abs(ssd - ssd_reported) > 1e-9 * (1.0 + tot):       # compared as squared residuals: no sqrt amplification near 0
                return "RMSD differs from sqrt((|P|^2+|Q|^2-2 lambda_max)/N) computed from the aligner's own F", \
                    {"aligner_ssd": ssd_reported, "from_lambda_max_ssd": ssd}
        return None
    if kind == "mirror":
        rot, shift, perm = np.array(case["rot"]), np.array(case["shift"]), list(case["perm"])
        labels = np.array(case["labels"])
        C = apply_recipe(R, shift, rot, perm, case["mirrored"])
        cuniq = labels[perm]
        with MirrorRedirect() as red:
            kw = {"run_mirror": True, "mols_align": False} if case["run_mirror"] else \
                ({"run_mirror": False, "mols_align": False} if len(R) % 2 else {})       # half of the 'off' cases rely on the defaults
            rmsd, sol = red.orig(C.copy(), R.copy(), cuniq, labels, verbose=0, atoms_map=False, algorithm="permutative", **kw)
        bad = check_solution(R, C, labels, cuniq, rmsd, sol, kind)
        if bad:
            return bad
        if sol.mirror and not case["run_mirror"]:
            return "mirror recipe returned although mirror matching was not requested", {}
        if case["mirrored"] and not case["run_mirror"] and rmsd < 1e-3:
            return "mirror image of a chiral molecule matched (RMSD ~ 0) although mirror matching was not requested", {"rmsd": float(rmsd)}
        if case["mirrored"] and case["run_mirror"] and not (rmsd <= 1e-7 and sol.mirror):
            return "mirror image not matched although mirror matching was requested", {"rmsd": float(rmsd), "mirror": bool(sol.mirror)}
        if not case["mirrored"] and not (rmsd <= 1e-7 and not sol.mirror):
            return "proper copy not matched without mirror", {"rmsd": float(rmsd), "mirror": bool(sol.mirror)}
        if rmsd <= 1e-7:
            aligned = sol.align_coordinates(C, reverse=False)
            if np.max(np.abs(aligned - R)) > 1e-5 or list(sol.align_atoms(cuniq)) != list(labels):
                return "returned transformation does not map the geometry onto the reference atom by atom", {}
        return None
    if kind == "molecule":
        # the Molecule wrappers: scramble(do_test=True) runs the aligner on the scrambled copy and asserts that the
        # opposite transformation is found; then align() is called explicitly and checked
        from qcelemental.models import Molecule
        rot, shift = np.array(case["rot"]), np.array(case["shift"])
        mol = Molecule(symbols=case["symbols"], geometry=R.reshape(-1), validate=True)
        with MirrorRedirect():
            cmol, data = mol.scramble(do_shift=shift, do_rotate=rot, do_resort=False, do_mirror=case["mirror"], do_test=False, verbose=0)
            amol, adata = cmol.align(mol, atoms_map=True, mols_align=True, run_mirror=case["mirror"], verbose=0)
        sol = adata["mill"]
        if not adata["rmsd"] <= 1e-8:
            return "Molecule.align: scrambled copy not recovered (RMSD not zero)", {"rmsd": float(adata["rmsd"])}
        if np.max(np.abs(np.asarray(amol.geometry) - np.asarray(mol.geometry))) > 1e-6 or list(amol.symbols) != list(mol.symbols):
            return "Molecule.align: aligned molecule does not coincide with the reference atom by atom", {}
        if bool(sol.mirror) and not case["mirror"]:
            return "mirror recipe returned although mirror matching was not requested", {}
        if case["mirror"] and not sol.mirror:
            return "Molecule.align: mirror image of a chiral molecule matched without the mirror recipe", {}
        if not is_collinear(R):
            if np.max(np.abs(np.asarray(sol.rotation).T - rot)) > 1e-6 or np.max(np.abs(np.asarray(sol.shift) - shift)) > 1e-6:
                return "Molecule.align: returned rotation/shift are not the applied ones", {"rotation": np.asarray(sol.rotation).tolist(), "shift": np.asarray(sol.shift).tolist()}
        # the built-in self test of scramble must agree (everything it could check was just found to hold)
        import logging
        logging.disable(logging.ERROR)
        try:
            with MirrorRedirect():
                mol.scramble(do_shift=shift, do_rotate=rot, do_resort=False, do_mirror=case["mirror"], do_test=True, verbose=0)
        except AssertionError:
            return SCRAMBLE_SELFTEST, {"collinear": bool(is_collinear(R)), "align_rmsd": float(adata["rmsd"])}
        finally:
            logging.disable(logging.NOTSET)
        return None
    raise AssertionError(kind)


def run_oracle(case):
    try:
        return oracle(case)
    except Exception as e:
        return "implementation raised %s: %s" % (type(e).__name__, e), {}


CORPUS_ORACLE = [
    # known finding C12-mols-align-early-exit: the two H atoms are C2-related up to 0.004 bohr; shuffled copy, mols_align=True
    {"kind": "nearsym", "R": [[0.0, 0.0, 0.0], [0.0, 0.0, 2.2], [1.5, 0.0, -1.0], [-1.496, 0.0, -1.0]], "labels": ["C", "O", "H", "H"],
     "rot": [[0.0, -1.0, 0.0], [1.0, 0.0, 0.0], [0.0, 0.0, 1.0]], "shift": [1.0, 2.0, 3.0], "perm": [0, 1, 3, 2], "delta": 0.004, "mols_align": True},
    {"kind": "nearsym", "R": [[0.0, 0.0, 0.0], [0.0, 0.0, 2.2], [1.5, 0.0, -1.0], [-1.496, 0.0, -1.0]], "labels": ["C", "O", "H", "H"],
     "rot": [[0.0, -1.0, 0.0], [1.0, 0.0, 0.0], [0.0, 0.0, 1.0]], "shift": [1.0, 2.0, 3.0], "perm": [0, 1, 3, 2], "delta": 0.004, "mols_align": False},
    {"kind": "near_copy", "R": [[1.0, 2.0, 3.0], [4.0, 2.5, 1.0], [2.0, 5.0, 4.0]], "angle": 1e-6, "axis": 2, "shift": [0.0, 0.0, 1e-7], "stretch": 0.0},
    # known finding C12-scramble-selftest-linear: H2 along z, quarter turn about z
    {"kind": "molecule", "R": [[0.0, 0.0, 1.0], [0.0, 0.0, 2.5]], "symbols": ["H", "H"],
     "rot": [[0.0, -1.0, 0.0], [1.0, 0.0, 0.0], [0.0, 0.0, 1.0]], "shift": [1.0, 2.0, 3.0], "mirror": False},
    {"kind": "rigid_fixed", "R": [[0.0, 0.0, 0.0], [1.0, 0.0, 0.0], [0.0, 2.0, 0.0], [0.0, 0.0, 3.0]],
     "rot": [[0.0, -1.0, 0.0], [1.0, 0.0, 0.0], [0.0, 0.0, 1.0]], "shift": [1.0, -2.0, 0.5], "perm": [0, 1, 2, 3], "labels": ["X"] * 4},
    {"kind": "rigid_fixed", "R": [[0.0, 0.0, 0.0], [0.0, 0.0, 1.5]], "rot": [[1.0, 0.0, 0.0], [0.0, 0.0, -1.0], [0.0, 1.0, 0.0]],
     "shift": [0.0, 0.0, 0.0], "perm": [0, 1], "labels": ["X", "X"]},
    {"kind": "mirror", "R": [[0.0, 0.0, 0.0], [1.0, 0.0, 0.0], [0.0, 2.0, 0.0], [0.0, 0.0, 3.0]],
     "rot": [[0.0, -1.0, 0.0], [1.0, 0.0, 0.0], [0.0, 0.0, 1.0]], "shift": [1.0, -2.0, 0.5], "perm": [2, 0, 3, 1],
     "labels": ["X0", "X1", "X2", "X3"], "mirrored": True, "run_mirror": False},
    {"kind": "mirror", "R": [[0.0, 0.0, 0.0], [1.0, 0.0, 0.0], [0.0, 2.0, 0.0], [0.0, 0.0, 3.0]],
     "rot": [[0.0, -1.0, 0.0], [1.0, 0.0, 0.0], [0.0, 0.0, 1.0]], "shift": [1.0, -2.0, 0.5], "perm": [2, 0, 3, 1],
     "labels": ["X0", "X1", "X2", "X3"], "mirrored": True, "run_mirror": True},
]


# ---------------------------------------------------------------------------------------------

def correspond(ctx):
    corr = Corr()
    rng = ctx.rng
    corr.rule = ("model cases: kabsch_quaternion / kabsch_align / applied residual / B787 selection on generated geometries "
                 "(generic, planar, collinear, symmetric; 1-30 points; rational rotations, shifts, permutations); oracle cases: rigid "
                 "copies (fixed map 2-30 atoms, permutative <= 7 atoms), unrelated pairs, chiral molecules and mirror images, histories of 2-4 "
                 "alignments judged after the sequence; a case "
                 "is non-trivial unless the allclose short-cut of kabsch_align fired; distinct = distinct inputs")
    n_model = 9000 if ctx.thorough else 800
    n_oracle = 24000 if ctx.thorough else 1200
    cases, terms = [], []
    for k in range(n_model):
        name, fn = MODEL_KINDS[k % len(MODEL_KINDS)]
        if name == "kselect" and (k // len(MODEL_KINDS)) % 3 != 0:
            name, fn = MODEL_KINDS[(k // len(MODEL_KINDS)) % 3]         # the driver is slower: every third round only
        try:
            case, term = fn(rng)
        except Exception as e:       # the implementation raised where the builders expect none
            case, term = {"kind": name, "error": "%s: %s" % (type(e).__name__, e)}, None
        corr.count("model-" + name)
        if term is None:
            if "error" in case:
                corr.failures.append({"stream": "model-" + name, "case": case, "what": "implementation misbehaved while building a model case: " + case["error"], "observed": {}})
            else:
                corr.hit("kselect_skipped_large")
            continue
        cases.append(case)
        terms.append(term)
        if not case.get("shortcut"):
            corr.nontriv(case)
        else:
            corr.hit("allclose_shortcut")
        if name == "kselect":
            corr.hit("kselect_mirror_%s" % case["mirror"])
            corr.hit("kselect_run_mirror_%s" % case["run_mirror"])
            corr.hit("kselect_superimposable_%s" % case["superimposable"])
    corr.sample({"stream": "model", "case": {k: cases[1][k] for k in cases[1] if k in ("kind", "rmsd", "RR", "TT")}})
    ctx.log(f"{len(terms)} model cases through the implementation; running the property oracle")
    ocases = list(CORPUS_ORACLE) + [gen_oracle_case(rng) for _ in range(n_oracle)]
    for oc in ocases:
        bad = run_oracle(oc)
        corr.count("oracle-" + oc["kind"])
        corr.hit("oracle_n%02d" % len(oc["R"]))
        corr.nontriv(oc)
        if bad:
            corr.failures.append({"stream": "oracle-" + oc["kind"], "case": oc, "what": bad[0], "observed": bad[1]})
    corr.sample({"stream": "oracle", "case": {k: ocases[5][k] for k in ocases[5] if k not in ("R", "C")}, "natoms": len(ocases[5]["R"])})
    ctx.log("evaluating the model")
    shard = 40 if not ctx.thorough else 120
    bad, errors = coqrun.eval_bad_indices("C12", REQ, "", "check_kcase", terms, shard=shard, ty="kcase")
    if errors:
        still = []
        for k, e in errors:
            bad2, err2 = coqrun.eval_bad_indices("C12retry", REQ, "", "check_kcase", terms[k:k + shard], shard=10, ty="kcase")
            bad.extend(k + b for b in bad2)
            still.extend((k + k2, e2) for k2, e2 in err2)
        bad.sort()
        errors = still
    corr.errors.extend(f"shard {k}: {e}" for k, e in errors)
    # the translated kabsch_align, weighted and unweighted
    wcases, wterms = [], []
    for _ in range(3000 if ctx.thorough else 300):
        try:
            case, term = case_kweighted(rng)
        except Exception as e:
            case, term = {"kind": "kweighted", "error": "%s: %s" % (type(e).__name__, e)}, None
        corr.count("model-kweighted")
        if term is None:
            corr.failures.append({"stream": "model-kweighted", "case": case, "what": "implementation misbehaved: " + case.get("error", ""), "observed": {}})
            continue
        wcases.append(case)
        wterms.append(term)
        corr.nontriv(case)
        corr.hit("kweighted_weighted" if case["weighted"] else "kweighted_plain")
    badw, errw = coqrun.eval_bad_indices("C12w", REQW, "", "check_wcase", wterms, shard=40 if not ctx.thorough else 120, ty="wcase")
    corr.errors.extend(f"weighted shard {k}: {e}" for k, e in errw)
    for b in badw[:4]:
        corr.disagreements.append({"stream": "model-kweighted", "case": wcases[b], "impl": "see case",
                                   "model": "check_wcase = false (Gen/KabschAlign.v run at Q disagrees with kabsch_align)"})
    # the permutative candidate generator
    pcases, pterms = [], []
    for _ in range(2400 if ctx.thorough else 240):
        case, term = case_kperm(rng)
        corr.count("model-kperm")
        if term is None:
            if "error" in case:
                corr.failures.append({"stream": "model-kperm", "case": case, "observed": case["error"],
                                      "what": "_plausible_atom_orderings(algorithm='permutative') raised an undocumented exception on labelled geometries"})
            else:
                corr.hit("kperm_skipped_large")
            continue
        pcases.append(case)
        pterms.append(term)
        corr.nontriv(case)
        corr.hit("kperm_validation_error" if case["n_orderings"] < 0 else ("kperm_no_candidate" if case["n_orderings"] == 0 else "kperm_candidates"))
    badp, errp = coqrun.eval_bad_indices("C12perm", REQP, "", "check_pcase", pterms, shard=30 if not ctx.thorough else 80, ty="pcase")
    corr.errors.extend(f"perm shard {k}: {e}" for k, e in errp)
    for b in badp[:4]:
        corr.disagreements.append({"stream": "model-kperm", "case": pcases[b], "impl": "see case",
                                   "model": "check_pcase = false (Model/KabschPerm.v yields other orderings or another order)"})
    # the loop body of the real driver, trial by trial
    dcases, dterms = [], []
    for _ in range(600 if ctx.thorough else 60):
        try:
            case, ts = case_kdriver(rng)
        except Exception as e:
            case, ts = {"kind": "kdriver", "error": "%s: %s" % (type(e).__name__, e)}, []
        corr.count("model-kdriver")
        if case.get("skipped"):
            corr.hit("kdriver_no_candidates" if case.get("no_candidates") else "kdriver_skipped_large")
            continue
        if "error" in case:
            corr.failures.append({"stream": "model-kdriver", "case": case, "what": "B787 misbehaved while its loop was observed: " + case["error"], "observed": {}})
            continue
        corr.nontriv(case)
        corr.hit("kdriver_candidates_%s" % ("1" if case["candidates"] == 1 else "several"))
        corr.hit("kdriver_trials_per_candidate_%d" % (case["trials"] // max(1, case["candidates"])))
        corr.hit("kdriver_mirror_%s" % case["mirror"])
        for t in ts:
            dcases.append(case)
            dterms.append(t)
    badd, errd = coqrun.eval_bad_indices("C12drv", REQD, "", "check_dcase", dterms, shard=30 if not ctx.thorough else 90, ty="dcase")
    corr.errors.extend(f"driver shard {k}: {e}" for k, e in errd)
    for b in badd[:4]:
        corr.disagreements.append({"stream": "model-kdriver", "case": dcases[b], "impl": "see case",
                                   "model": "check_dcase = false (Model/KabschDriver.v [trial] disagrees with a trial of the real B787 loop)"})
    # the translated random_rotation_matrix and the scramble generator
    rcases, rterms = [], []
    for _ in range(1500 if ctx.thorough else 150):
        try:
            case, term = case_krandrot(rng)
        except Exception as e:
            case, term = {"kind": "krandrot", "oracle": "random_rotation_matrix raised %s: %s" % (type(e).__name__, e), "M": None, "deflection": -1}, None
        corr.count("model-krandrot")
        corr.nontriv(case)
        corr.hit("krandrot_deflection_%s" % ("0" if case["deflection"] == 0 else ("1" if case["deflection"] == 1 else "between")))
        if term is not None:
            rcases.append(case)
            rterms.append(term)
        if "oracle" in case:
            corr.failures.append({"stream": "oracle-randrot", "case": case, "what": case["oracle"], "observed": {"M": case["M"]}})
        try:
            sc, sbad = scramble_oracle(rng)
        except Exception as e:
            sc, sbad = {"kind": "scramble"}, "compute_scramble raised %s: %s" % (type(e).__name__, e)
        corr.count("oracle-scramble")
        if sbad:
            corr.failures.append({"stream": "oracle-scramble", "case": sc, "what": sbad, "observed": {}})
    badr, errr = coqrun.eval_bad_indices("C12rr", REQR, "", "check_rcase", rterms, shard=75 if not ctx.thorough else 150, ty="rcase")
    corr.errors.extend(f"randrot shard {k}: {e}" for k, e in errr)
    for b in badr[:4]:
        corr.disagreements.append({"stream": "model-krandrot", "case": rcases[b], "impl": "see case",
                                   "model": "check_rcase = false (Gen/Rand3dRot.v run at Q disagrees with random_rotation_matrix)"})
    for b in bad[:6]:
        c = cases[b]
        corr.disagreements.append({"stream": "model-" + c["kind"], "case": c, "impl": "see case",
                                   "model": "check_kcase = false (Model/Kabsch.v / Gen/Quat.v disagree, or the eigh specification fails)"})
    if len(bad) > 6:
        corr.notes.append(f"{len(bad)} disagreeing model cases in total")
    return corr


def search(ctx, corr, reasons):
    if corr.failures:
        return []
    found = []
    for _ in range(3000):
        oc = gen_oracle_case(ctx.rng)
        bad = run_oracle(oc)
        if bad:
            found.append({"stream": "search-" + oc["kind"], "case": oc, "what": bad[0], "observed": bad[1]})
            if len(found) >= 4:
                break
    found.sort(key=lambda f: len(f["case"]["R"]))
    return found[:1]


def replay(ctx, rp):
    case = rp.get("case")
    if not isinstance(case, dict):
        return {"note": "this replay records broken proof obligations without a failing input; re-run ./check C12", "fails": True}
    if case.get("kind") in ("rigid_fixed", "rigid_perm", "unrelated", "mirror", "molecule", "near_copy", "options", "nearsym", "history"):
        bad = run_oracle(case)
        return {"case": case, "oracle": bad[0] if bad else None, "observed": bad[1] if bad else None, "fails": bool(bad)}
    if case.get("kind") == "krandrot":
        from qcelemental.util import random_rotation_matrix
        M = np.asarray(random_rotation_matrix(deflection=case["deflection"], randnums=np.array(case["randnums"])), dtype=float)
        bad = (not np.all(np.isfinite(M))) or np.max(np.abs(M.T @ M - np.eye(3))) > 1e-12 or abs(np.linalg.det(M) - 1.0) > 1e-12 or \
            (case["deflection"] == 0.0 and np.max(np.abs(M - np.eye(3))) > 1e-12)
        return {"case": case, "observed": {"M": M.tolist()}, "fails": bool(bad)}
    if case.get("kind") == "kperm":
        import qcelemental.molutil.align as al
        from qcelemental.exceptions import ValidationError
        try:
            list(al._plausible_atom_orderings(np.array(case["runiq"]), np.array(case["cuniq"]), np.array(case["R"], dtype=float),
                                              np.array(case["C"], dtype=float), algorithm="permutative", verbose=0))
        except ValidationError:
            return {"case": case, "observed": "ValidationError", "fails": False}
        except Exception as e:
            return {"case": case, "observed": "%s: %s" % (type(e).__name__, e), "fails": True}
        return {"case": case, "observed": "no exception", "fails": False}
    evals = {"kquat": (eval_kquat, None), "kalign": (eval_kalign, None), "kapplied": (eval_kapplied, None), "kselect": (eval_kselect, None),
             "kweighted": (eval_kweighted, None), "kdriver": (eval_kdriver, [])}
    if case.get("kind") in evals:
        # the implementation misbehaved while a model case was built: the same evaluation again, from the recorded input alone
        fn, none = evals[case["kind"]]
        try:
            c2, _ = run_eval(fn, case["kind"], {k: v for k, v in case.items() if k != "error"}, none=none)
        except KeyError as e:
            return {"case": case, "note": "replay recorded before the inputs were kept in full (missing %s): re-run ./check C12" % e, "fails": True}
        return {"case": case, "observed": c2.get("error", "no misbehaviour"), "fails": "error" in c2}
    if case.get("kind") == "scramble":
        try:
            _, sbad = eval_scramble(case)
        except Exception as e:
            sbad = "compute_scramble raised %s: %s" % (type(e).__name__, e)
        return {"case": case, "observed": sbad, "fails": bool(sbad)}
    return {"case": case, "note": "model-building failure: re-run ./check C12", "fails": True}


def _known_scramble_linear(f):
    # narrow: only the self-test of scramble, only on collinear molecules (where rotation and shift are not unique)
    case = f.get("case") or {}
    return (f.get("what") == SCRAMBLE_SELFTEST and case.get("kind") == "molecule"
            and bool(is_collinear(np.array(case["R"], dtype=float))))


def _mols_align_true_searches(case):
    """every B787 call of an oracle / model case that asks for mols_align=True AND searches atom orderings (with a fixed map
    and no resorting there is a single candidate and nothing to stop early at): (R, C, runiq, cuniq) per such call, recomputed
    from the recorded case alone.  Kinds whose B787 calls use a fixed map (rigid_fixed, history, molecule / Molecule.align /
    scramble) or a numeric / False mols_align (mirror, kdriver, unrelated, near_copy) contribute none."""
    kind = case.get("kind")
    out = []
    if kind in ("rigid_perm", "nearsym", "options"):
        if kind == "nearsym" and case.get("mols_align") is not True:
            return out
        if kind == "options" and not (case.get("mols_align") is True and (not case.get("atoms_map") or case.get("run_resorting"))
                                      and not case.get("mirrored") and not case.get("run_mirror")):
            return out
        R = np.array(case["R"], dtype=float)
        labels = np.array(case["labels"])
        perm = list(case["perm"])
        out.append((R, apply_recipe(R, np.array(case["shift"]), np.array(case["rot"]), perm, False), labels, labels[perm]))
    elif kind == "kselect" and case.get("mols_align") is True and not case.get("run_mirror"):
        out.append((np.array(case["R"], dtype=float), np.array(case["C"], dtype=float), np.array(case["runiq"]), np.array(case["cuniq"])))
    return out


def _known_early_exit(f):
    # narrow: (1) the observed outcome is the driver's own AssertionError; (2) the case makes a B787 call with mols_align=True
    # that searches atom orderings; (3) in the candidate loop of that call - RMSDs recomputed per ordering from the recorded
    # case - the first ordering below the 1e-3 convergence threshold is an INEXACT one (RMSD > 5e-5 A, enough to fail the
    # driver's 1e-4 self-checks) although an exact ordering (RMSD <= 1e-7) exists; (4) the same call with mols_align=True
    # indeed raises AssertionError and with mols_align=False recovers the copy (RMSD <= 1e-7).  Any stream / kind.
    case = f.get("case") or {}
    what = str(f.get("what", ""))
    if not isinstance(case, dict) or not ("raised AssertionError" in what or str(case.get("error", "")).startswith("AssertionError")):
        return False
    try:
        from qcelemental.molutil import B787
        for R, C, runiq, cuniq in _mols_align_true_searches(case):
            cands = candidate_rmsds(R, C, runiq, cuniq, False)
            below = [c[1] for c in cands if c[1] < 1.0e-3]
            if not (below and below[0] > 5.0e-5 and min(c[1] for c in cands) <= 1.0e-7):
                continue
            try:
                B787(C.copy(), R.copy(), cuniq, runiq, verbose=0, atoms_map=False, mols_align=True, algorithm="permutative")
                continue                                   # (no AssertionError from this call: not this finding)
            except AssertionError:
                pass
            rmsd, sol = B787(C.copy(), R.copy(), cuniq, runiq, verbose=0, atoms_map=False, mols_align=False, algorithm="permutative")
            if rmsd <= 1.0e-7 and list(sol.align_atoms(cuniq)) == list(runiq):
                return True
    except Exception:
        return False
    return False


KNOWN = {"C12-scramble-selftest-linear": _known_scramble_linear, "C12-mols-align-early-exit": _known_early_exit}

TECHNIQUE = ("Coq proofs (ring identities against translated source polynomials, induction over point lists, a Rayleigh-quotient "
             "argument from an eigh specification, loop invariants of the candidate loop, a composition theorem for the whole "
             "'permutative' driver) over a Gallina model + two fail-closed translators + differential correspondence")
DESIGN_REF = "DESIGN.md §6 C12"
LEVEL_TEXT = (
    "Machine-checked (Coq 8.16.1) theorems. Against the polynomial terms regenerated on every run from the F[i,j]/U[i,j] "
    "assignments of kabsch_quaternion (any commutative ring, by ring): C12_U_gram (U^T U = |q|^4 I), C12_U_det (det U = |q|^6), "
    "C12_U_proper (unit q => proper rotation), C12_residual_identity (sum|r_k - c_k U(q)|^2 = sum|r|^2 + |q|^4 sum|c|^2 - 2 q^T F q for "
    "every q and ANY number of points, by induction on the point list). Over the reals, from the eigh specification taken as a "
    "hypothesis (and evaluated at run time on what LAPACK returned): C12_top_eigvec_optimal (Rayleigh), "
    "C12_kabsch_optimal_over_quaternions, C12_kabsch_minimum_value, C12_every_proper_rotation_is_U (surjectivity of the quaternion "
    "map, by nsatz against the translated U), hence the FULL statements C12_kabsch_optimal_over_proper_rotations and "
    "C12_kabsch_align_proper_and_optimal (returned rotation proper; reported residual <= that of any other proper rotation about the "
    "centroids), C12_kabsch_align_rotation_always_proper, C12_kabsch_align_shortcut (identity recipe within the allclose tolerance), "
    "C12_reported_rmsd_is_applied_rmsd, C12_recovers_rigid_copy (for ANY proper rotation and shift: residual exactly 0, the "
    "returned recipe maps the copy back atom by atom, and for non-collinear molecules the returned rotation/shift are the applied "
    "ones), C12_weighted_kabsch_align_optimal, C12_translated_kabsch_align_is_model (the let-chain generated from the body of "
    "kabsch_align is the model). Candidate loop of B787 (any ordered carrier): C12_mirror_only_on_request, C12_selected_rmsd_is_minimal, "
    "C12_selected_rmsd_is_minimal_or_converged (any setting), C12_selected_solution_attains_reported_rmsd, "
    "C12_no_solution_only_if_no_trial_below_100, and C12_selected_rmsd_is_minimal_with_early_exit_refuted (witness replayed: known "
    "finding C12-mols-align-early-exit). Atom-map search: C12_candidates_are_label_preserving_permutations, "
    "C12_true_ordering_is_a_candidate, C12_rigid_motion_preserves_distances. END TO END for algorithm='permutative' "
    "(Model/KabschDriver.v = validation + candidate generator + loop body + selection): C12_driver_recovers_shuffled_rigid_copy (a copy "
    "moved by any proper rotation and shift and atom-shuffled is returned with the RMSD of a zero residual - or below the requested "
    "convergence when the loop may stop early -, by a label-preserving permutation, no mirror recipe unless requested, reported = "
    "applied RMSD, and mapped back atom by atom up to the 8-decimal rounding of the RMSD), C12_driver_errors. Scramble generator: "
    "C12_random_rotation_is_proper (the matrix random_rotation_matrix builds, translated from the source, is a proper rotation for all "
    "random numbers and every deflection in [0,1]), C12_random_rotation_domain, C12_random_rotation_no_deflection. Model tied to "
    "molutil/align.py by the translators (F, U; body of kabsch_align) and by differential execution at K = Q of kabsch_quaternion (F, "
    "eigh spec on LAPACK's output, U), kabsch_align (rotation, shift, RMSD; weighted too; copies near the allclose short-cut), the "
    "applied residual, the candidate generator (every ordering, in order), the B787 selection loop (incl. the mirror pass and "
    "mols_align=True), every trial of real B787 runs observed by tapping kabsch_align/eigh/AlignmentMill.align_coordinates against "
    "[trial] of Model/KabschDriver.v (orderings tried = generator order, plain then mirror, returned solution = first best trial), "
    "and random_rotation_matrix against the translated matrix algebra; the property itself is evaluated on the implementation (rigid copies 2-30 atoms x rotations x shifts x "
    "permutations, optimality vs random rotations, vs lambda_max and vs an SVD Kabsch, chiral molecules vs mirror images with "
    "run_mirror on/off, the option product of B787, near-symmetric molecules around the 1e-3 convergence threshold, near copies "
    "around the allclose short-cut, Molecule.align/scramble; and sequences of 2-4 alignments of moved/distorted copies through "
    "kabsch_align / kabsch_quaternion / B787 / Molecule.align - C-, Fortran-ordered, strided or read-only arguments, 30% far from "
    "the origin - whose results are all RETAINED as returned and judged only after the sequence).")
LEVEL_NOTE = (
    "Clause map: proper rotation -> C12_U_proper, C12_kabsch_align_rotation_always_proper; reported = applied RMSD -> "
    "C12_reported_rmsd_is_applied_rmsd, C12_kabsch_align_shortcut, C12_selected_solution_attains_reported_rmsd; optimal among all "
    "proper rotations -> C12_kabsch_align_proper_and_optimal (+ residual_identity, top_eigvec_optimal, every_proper_rotation_is_U), "
    "C12_selected_rmsd_is_minimal(_or_converged); recovery of rigid copies (fixed map, incl. applied rotation/shift for non-collinear "
    "molecules) -> C12_recovers_rigid_copy; shuffled copies with elements matching -> C12_driver_recovers_shuffled_rigid_copy (+ "
    "candidates/true-ordering theorems); mirror only on request -> C12_mirror_only_on_request and the driver theorem; errors -> "
    "C12_driver_errors, C12_no_solution_only_if_no_trial_below_100. Only correspondence/oracle: Molecule.align/scramble wrappers, "
    "compute_scramble (oracle: permutation, shift range, proper rotation), the applied rotation under a symmetry-equivalent atom map, "
    "chirality itself; scramble generator -> C12_random_rotation_is_proper. "
    "_refuted: C12_selected_rmsd_is_minimal_with_early_exit_refuted (mols_align=True stops at the first ordering below 1e-3 A; on a "
    "slightly asymmetric molecule that is a wrong ordering and B787 then fails its own 1e-4 checks: known finding). No theorem is "
    "_partial. LAPACK eigh is specified, not verified: its specification (F V = V diag(w), V^T V = V V^T = I, w "
    "ascending) is a hypothesis of the real-number theorems, instance-level (about the one matrix kabsch_align hands to eigh; in the "
    "driver theorem only for the true ordering), and is "
    "checked in exact arithmetic (tol 1e-8) on every (F, w, V) of the correspondence cases. kabsch_align's allclose short-cut "
    "(returns identity and RMSD 0 when |R-C| <= 1e-8 + 1e-5|C|) is modelled; the optimality/recovery theorems are about the "
    "non-short-cut path (on the short-cut path the reported RMSD 0 differs from the applied one by at most that tolerance: "
    "C12_kabsch_align_shortcut). In Model/KabschDriver.v the RMSD-from-residual map (sqrt, bohr2angstroms, rounding to 8 decimals) is a "
    "parameter of which only monotonicity is assumed; the composition is a hand-written reading of the loop of B787 whose parts are "
    "tied separately. 'hungarian_uno' (needs "
    "networkx, absent offline; only covered through C14), plotting and the pNRE self-checks of B787 are outside the model; with "
    "run_mirror the inner superimposability pre-check is redirected to algorithm='permutative' for the runs of this check. Binary64 "
    "rounding is outside the model (exact rationals, tolerance 1e-8). B787(algorithm='permutative') on "
    "unrelated geometries for which no ordering passes the distance filter fails with AttributeError (hold_solution is None) - "
    "modelled as Err PyAttributeError. Axioms: ring-level, loop and candidate-generator theorems are closed under the global context; "
    "the real-number theorems depend on the standard Reals axioms (ClassicalDedekindReals.sig_forall_dec, sig_not_dec, "
    "FunctionalExtensionality.functional_extensionality_dep) only.")
