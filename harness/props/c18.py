"""C18 — distances, angles, dihedrals, guessed bonds.

translate : qcelemental/util/misc.py (_norm, compute_distance, compute_angle, compute_dihedral) -> coq/Gen/Dihedral.v
correspond: the generated code (run over Q with a 1e-16 sqrt) and the hand models (measure dispatch, distance_matrix,
            guess_connectivity on squared distances) against the implementation on the same inputs, plus the property
            oracle evaluated directly on the implementation (textbook values computed independently with exact
            rationals, ranges, rigid motions, reflections, reversal, degrees, batched/row-wise/index forms,
            connectivity spec / invariance / relabelling)."""
import math
import os
from decimal import Decimal, getcontext
from fractions import Fraction as Fr

import numpy as np

from .. import coqrun
from ..core import Corr
from ..coqrun import cz, clist, cq, cnat
from ..translate import geo3np, geo3glue

PID = "C18"
ALLOWED_AXIOMS = {
    "ClassicalDedekindReals.sig_forall_dec", "ClassicalDedekindReals.sig_not_dec",
    "FunctionalExtensionality.functional_extensionality_dep", "Classical_Prop.classic",
}
TRUSTED = [
    "translator harness/translate/geo3np.py (Python ast of misc.py -> monadic Gallina over Common/Geo3Np.v; fail-closed)",
    "Common/Geo3Np.v: hand-written semantics of the numpy operations used (atleast_2d, +-*/ with broadcasting, einsum 'ij,ij->i', "
    "cross, clip, sqrt, arccos, arctan2, degrees, a[:, None]) over an exact field: binary64 rounding, inf and nan are not modelled",
    "translator harness/translate/geo3glue.py (fail-closed): the bond test of guess_connectivity's loop body, the entry expression of "
    "distance_matrix and the bounds test + len(m)->kernel chain of measure_coordinates are translated into Gen/GeoGlue.v and proved "
    "equal to the hand models (C18_generated_glue_is_model); the loop skeletons (tail slices x+1:, index shift, append order, "
    "default_connectivity post-processing, single/many wrapping, val[0]) and every statement around the loops (coordinates = "
    "np.atleast_2d(coordinates), num_coords, the single/many wrapping and return of measure_coordinates; geometry = "
    "np.asarray(geometry, dtype=float).reshape(-1, 3) and the radii lookup with 1.8 for unknown symbols in guess_connectivity; the "
    "shape assertion, allocation and return of distance_matrix) are pinned statement by statement against the source and otherwise "
    "tied by differential execution; the single/many wrapping of measure_coordinates (probe index, ret[k]) and the default_connectivity "
    "comprehension are translated into measure_wrap_gen / attach_default_gen (theorems C18_measure_single_and_many_forms, "
    "C18_default_connectivity_keeps_bonds; exercised by the oracle, not by a model comparison)",
    "libm/numpy arccos and arctan2 are trusted to approximate Coq's acos and the atan2 of Common/Geo3R.v (specification proved "
    "there: C18_atan2_spec); each run checks sin/cos residuals <= 1e-9 of what numpy returned",
    "the executable Q instance Common/Geo3Q.v (square roots truncated at 1e-16) is used only to run the models; comparison "
    "tolerance 1e-9",
    "covalent radii are taken from covalentradii.get (property C17) and passed to the connectivity model as data",
]
ASSUMPTIONS = [
    "the points are handed over in every legal container / memory layout (C / Fortran order, transposed (3,n) view, non-contiguous "
    "and negative-stride views, big-endian, nested lists / tuples / lists of rows, integer arrays, flat (3n,) for connectivity); numpy "
    "computes float32 and int16 inputs in binary32: those are judged by the oracle with tolerance 1e-3 (worst seen 2.2e-5; a re-cut "
    "layout is off by O(1)) and not fed to the model; int8 arrays are not streamed (numpy's einsum overflows in int8)",
    "point arrays have shape (3,) or (n,3); coordinates are finite; non-degenerate point sets (no coincident points, no collinear "
    "triple where an angle plane is needed) for the textbook/range statements",
    "connectivity cases keep every squared distance at least 1e-9 (relative) away from its squared threshold, except the boundary "
    "stream (radius 1.8 + 1.8, power-of-two thresholds, axis-aligned: exact in binary64), which sits exactly at it / one step inside",
]
EXTRA_TARGETS = ["Model/Geometry.vo"]
REQ = ["QV.Common.Outcome", "QV.Common.Geo3", "QV.Common.Geo3Np", "QV.Common.Geo3Q", "QV.Gen.Dihedral", "QV.Model.Geometry"]
TOL = 1e-9
getcontext().prec = 60


def translate(ctx):
    geo3np.generate(ctx.repo, os.path.join(coqrun.COQ, "Gen", "Dihedral.v"))
    geo3glue.generate(ctx.repo, os.path.join(coqrun.COQ, "Gen", "GeoGlue.v"))


# ------------------------------------------------------------------------------------------------
# exact helpers

def fr_s(x):
    return f"{x.numerator}/{x.denominator}"


def s_fr(s):
    return Fr(s)


def pts_json(P):
    return [[fr_s(c) for c in p] for p in P]


def json_pts(J):
    return [tuple(Fr(c) for c in p) for p in J]


def fsub(a, b):
    return tuple(x - y for x, y in zip(a, b))


def fdot(a, b):
    return sum(x * y for x, y in zip(a, b))


def fcross(a, b):
    return (a[1] * b[2] - a[2] * b[1], a[2] * b[0] - a[0] * b[2], a[0] * b[1] - a[1] * b[0])


def fsqrt(q):
    """float of sqrt of an exact non-negative rational (60-digit Decimal)"""
    return float((Decimal(q.numerator) / Decimal(q.denominator)).sqrt())


def quat_matrix(q):
    a, b, c, d = (Fr(x) for x in q)
    n = a * a + b * b + c * c + d * d
    return [[(a * a + b * b - c * c - d * d) / n, 2 * (b * c - a * d) / n, 2 * (b * d + a * c) / n],
            [2 * (b * c + a * d) / n, (a * a - b * b + c * c - d * d) / n, 2 * (c * d - a * b) / n],
            [2 * (b * d - a * c) / n, 2 * (c * d + a * b) / n, (a * a - b * b - c * c + d * d) / n]]


def move(P, motion):
    """motion = {"q": [a,b,c,d], "t": [..], "reflect": bool}: p -> M p + t, M = R(q) or R(q) diag(1,1,-1)"""
    M = quat_matrix(motion["q"])
    if motion.get("reflect"):
        M = [[r[0], r[1], -r[2]] for r in M]
    t = [Fr(x) for x in motion["t"]]
    return [tuple(sum(M[i][k] * p[k] for k in range(3)) + t[i] for i in range(3)) for p in P]


def to_np(P):
    return np.array([[float(c) for c in p] for p in P], dtype=float)


def ang_close(a, b, tol=TOL):
    """angles equal modulo 2 pi within tol"""
    return abs(math.sin(a - b)) <= tol and math.cos(a - b) > 0


# ------------------------------------------------------------------------------------------------
# Coq literals

def cvec(p):
    return "(" + ", ".join(cq(Fr(c)) for c in p) + ")"


def carr(P, form):
    if form == "1d":
        assert len(P) == 1
        return "(@A1 QK [" + "; ".join(cq(Fr(c)) for c in P[0]) + "])"
    return "(@A2 QK [" + "; ".join(cvec(p) for p in P) + "])"


def cfl(x):
    """a binary64 value as an exact rational"""
    return cq(Fr(float(x)))


def ccs(theta):
    return "(" + cfl(math.cos(theta)) + ", " + cfl(math.sin(theta)) + ")"


EK = {"ValueError": "PyValueError", "KeyError": "PyKeyError", "IndexError": "PyIndexError", "TypeError": "PyTypeError",
      "AttributeError": "PyAttributeError", "AssertionError": "PyAssertion"}


def cexp(out, f):
    if out[0] == "Ok":
        return f"(EOk {f(out[1])})"
    return f"(EErr {EK.get(out[1], 'PyAssertion')})"


def call(f, *a, **k):
    try:
        with np.errstate(all="ignore"):
            r = f(*a, **k)
    except Exception as e:
        return ("Err", type(e).__name__)
    return ("Ok", r)


def rad(out, degrees):
    """implementation result (array of angles) -> list of radians"""
    return [math.radians(float(v)) if degrees else float(v) for v in np.atleast_1d(out)]


def finite(vals):
    return all(math.isfinite(float(v)) for v in np.atleast_1d(vals))


# ------------------------------------------------------------------------------------------------
# generators

DENS = [1, 1, 2, 2, 4, 5, 8, 10, 16]


def rnd_coord(rng, lim=10, grid=None):
    d = 1 if grid == "int" else rng.choice([1, 2, 4, 8, 16]) if grid == "dyadic" else rng.choice(DENS)
    return Fr(rng.randint(-lim * d, lim * d), d)


def rnd_point(rng, lim=10, grid=None):
    return tuple(rnd_coord(rng, lim, grid) for _ in range(3))


def nondegenerate(P4):
    """distinct points, bond vectors not too short, consecutive bond vectors well away from collinear"""
    b = [fsub(P4[i + 1], P4[i]) for i in range(3)]
    n = [fdot(x, x) for x in b]
    if any(x < Fr(1, 4) for x in n):
        return False
    if fdot(fsub(P4[0], P4[2]), fsub(P4[0], P4[2])) < Fr(1, 4) or fdot(fsub(P4[1], P4[3]), fsub(P4[1], P4[3])) < Fr(1, 4):
        return False
    for i in range(2):
        c = fcross(b[i], b[i + 1])
        if fdot(c, c) < Fr(1, 25) * n[i] * n[i + 1]:     # |sin| >= 0.2
            return False
    return True


def rnd_quad(rng, grid=None):
    while True:
        P = [rnd_point(rng, 10, grid) for _ in range(4)]
        if nondegenerate(P):
            return P


def rnd_motion(rng, reflect=None):
    while True:
        q = [rng.randint(-4, 4) for _ in range(4)]
        if sum(1 for x in q if x) >= 2:
            break
    return {"q": q, "t": [fr_s(rnd_coord(rng, 5)) for _ in range(3)],
            "reflect": (rng.random() < 0.4) if reflect is None else reflect}


# ------------------------------------------------------------------------------------------------
# the implementation

def impl():
    from qcelemental.util import compute_distance, compute_angle, compute_dihedral, measure_coordinates, distance_matrix
    from qcelemental.molutil import guess_connectivity
    return compute_distance, compute_angle, compute_dihedral, measure_coordinates, distance_matrix, guess_connectivity


# ---- input classes: the same points handed over in every legal container / memory layout ----------------------------
# "c" C-ordered float64 (n,3); "f" Fortran-ordered; "t" the transposed view of a (3,n) array built from the x, y, z columns;
# "slice" a non-contiguous window of a larger array; "rev" a view with negative strides; "be" big-endian float64; "list" / "tuple"
# nested Python sequences; "rows" a list of 1-D arrays; "f32" / "f32f" float32 (C / Fortran; only for exactly representable
# coordinates); "i64" / "i32" / "i16" / "bei4" integer arrays (only for integer coordinates); "flat" the (3n,) form (connectivity only)
LAYOUTS_ND = ["f", "t", "slice", "rev", "be", "f32", "f32f", "i64", "i32", "i16", "bei4"]
LAYOUTS_ANY = LAYOUTS_ND + ["list", "tuple", "rows"]
LOW_PRECISION = ("f32", "f32f", "i16")     # numpy computes these in binary32 (sqrt of an int16 array is float32)
TOL32 = 1e-3        # binary32 inputs: coordinates up to ~25 carry 1.5e-6, bonds >= 0.5, |sin| >= 0.2 -> angles within ~1e-4 (worst seen 2.2e-5); a re-cut layout is off by O(1)


def lay_feasible(P, layout):
    if layout in ("i64", "i32", "i16", "bei4"):
        return all(Fr(c).denominator == 1 for p in P for c in p)
    if layout in ("f32", "f32f"):
        return all(Fr(float(np.float32(float(Fr(c))))) == Fr(c) for p in P for c in p)
    return True


def lay(a, layout):
    """the C-ordered float64 array `a` ((n,3) or (3,)) as the container / layout `layout`; the VALUES are unchanged"""
    a = np.array(a, dtype=float)
    if layout in (None, "c"):
        return a
    one = a.ndim == 1
    if layout == "f":
        return a[::1] if one else np.asfortranarray(a)
    if layout == "t":
        return a if one else np.array([a[:, k].copy() for k in range(3)]).T
    if layout == "slice":
        if one:
            big = np.full(9, 99.5)
            v = big[1:7:2]
        else:
            big = np.full((2 * a.shape[0] + 1, 7), 99.5)
            v = big[1::2, 2:5]
        v[...] = a
        return v
    if layout == "rev":
        if one:
            return a[::-1].copy()[::-1]
        return a[::-1, ::-1].copy()[::-1, ::-1]
    if layout == "be":
        return a.astype(">f8")
    if layout == "list":
        return a.tolist()
    if layout == "tuple":
        return tuple(a.tolist()) if one else tuple(tuple(r) for r in a.tolist())
    if layout == "rows":
        return a.tolist() if one else [np.array(r, dtype=float) for r in a]
    if layout == "f32":
        return a.astype(np.float32)
    if layout == "f32f":
        return a.astype(np.float32) if one else np.asfortranarray(a.astype(np.float32))
    if layout in ("i64", "i32", "i16", "bei4"):
        dt = {"i64": np.int64, "i32": np.int32, "i16": np.int16, "bei4": ">i4"}[layout]
        b = a.astype(dt)
        return b if (one or layout != "i32") else np.asfortranarray(b)
    if layout == "flat":
        return a.ravel()
    raise ValueError(layout)


def same_values(obj, a):
    """the laid-out object still denotes the points of the C-ordered array a"""
    try:
        b = np.array([np.asarray(r, dtype=float) for r in obj], dtype=float) if isinstance(obj, (list, tuple)) else np.asarray(obj, dtype=float)
        return b.reshape(np.shape(a)).shape == np.shape(a) and bool(np.array_equal(b.reshape(np.shape(a)), a))
    except Exception:
        return False


def case_layout(case, P=None, k=None):
    """layout of a case (of its k-th array), "c" where the points cannot be written in it exactly"""
    L = case.get("layouts")[k] if (k is not None and case.get("layouts")) else case.get("layout")
    L = L or "c"
    if P is not None and not lay_feasible(P, L):
        return "c"
    return L


def low_precision(case):
    return any(L in LOW_PRECISION for L in [case.get("layout")] + list(case.get("layouts") or []))


def pick_layout(rng, allowed, p_plain=0.45):
    return "c" if rng.random() < p_plain else rng.choice(allowed)


def grid_for(*layouts):
    if any(L in ("i64", "i32", "i16", "bei4") for L in layouts):
        return "int"
    if any(L in ("f32", "f32f") for L in layouts):
        return "dyadic"
    return None


def np_in(P, form, layout="c"):
    a = to_np(P)
    a = a[0] if form == "1d" else a
    if layout in (None, "c") or not lay_feasible(P, layout):
        return a
    return lay(a, layout)


# ---- kind "single": one quadruple, everything the property says about it -------------------------

def textbook(P):
    """independent reference values (floats from exact rationals)"""
    p1, p2, p3, p4 = P
    d12 = fsqrt(fdot(fsub(p1, p2), fsub(p1, p2)))
    u, v = fsub(p1, p2), fsub(p3, p2)
    cosang = float(fdot(u, v)) / (fsqrt(fdot(u, u)) * fsqrt(fdot(v, v)))
    ang = math.acos(max(-1.0, min(1.0, cosang)))
    b1, b2, b3 = fsub(p2, p1), fsub(p3, p2), fsub(p4, p3)
    y = fsqrt(fdot(b2, b2)) * float(fdot(b1, fcross(b2, b3)))
    x = float(fdot(fcross(b1, b2), fcross(b2, b3)))
    return d12, ang, math.atan2(y, x)


def oracle_single(case):
    """returns (failures, observations) ; observations feed the Coq cases"""
    cd, ca, ct, _, _, _ = impl()
    P = json_pts(case["pts"])
    form, dg = case["form"], case["degrees"]
    fails = []

    def bad(what, obs):
        fails.append({"what": what, "observed": obs})

    L = case_layout(case, P)
    tol = TOL32 if L in LOW_PRECISION else TOL
    A = [np_in([p], form, L) for p in P]
    od = call(cd, A[0], A[1])
    if case.get("omit_kw") and not dg:
        # radians are the kernels' default: the keyword is left out
        oa = call(ca, A[0], A[1], A[2])
        ot = call(ct, A[0], A[1], A[2], A[3])
    else:
        oa = call(ca, A[0], A[1], A[2], degrees=dg)
        ot = call(ct, A[0], A[1], A[2], A[3], degrees=dg)
    obs = {"dist": od, "ang": oa, "dih": ot}
    for nm, o in obs.items():
        if o[0] != "Ok":
            bad(f"{nm}: raised {o[1]} on a non-degenerate single row", o)
        elif np.shape(o[1]) != (1,) or not finite(o[1]):
            bad(f"{nm}: result is not one finite number", repr(o[1]))
    if fails:
        return fails, obs
    d = float(od[1][0])
    a = rad(oa[1], dg)[0]
    t = rad(ot[1], dg)[0]
    rd, ra, rt = textbook(P)
    if not (abs(d - rd) <= tol * (1 + rd)) or d < 0:
        bad("distance differs from |p1-p2|", [d, rd])
    if not ang_close(a, ra, tol) or not (0.0 <= a <= math.pi + (1e-6 if tol > TOL else 1e-15)):
        bad("angle differs from the textbook angle at p2 / outside [0,pi]", [a, ra])
    if not ang_close(t, rt, tol) or not (-math.pi - (1e-6 if tol > TOL else 1e-15) <= t <= math.pi + (1e-6 if tol > TOL else 1e-15)):
        bad("dihedral differs from atan2(|b2| b1.(b2xb3), (b1xb2).(b2xb3)) / outside [-pi,pi]", [t, rt])
    # degrees flag: only the factor 180/pi
    oa2 = call(ca, A[0], A[1], A[2], degrees=not dg)
    ot2 = call(ct, A[0], A[1], A[2], A[3], degrees=not dg)
    for nm, o1, o2 in (("angle", oa, oa2), ("dihedral", ot, ot2)):
        if o2[0] != "Ok":
            bad(f"{nm}: degrees={not dg} raised {o2[1]}", o2)
            continue
        deg, r_ = (o1[1][0], o2[1][0]) if dg else (o2[1][0], o1[1][0])
        if not abs(float(deg) - float(r_) * 180.0 / math.pi) <= (1e-12 if tol == TOL else 1e-5) * (1 + abs(float(deg))):
            bad(f"{nm}: degrees is not radians*180/pi", [float(deg), float(r_)])
    # listed backwards
    ob = call(ct, A[3], A[2], A[1], A[0], degrees=dg)
    if ob[0] != "Ok" or not ang_close(rad(ob[1], dg)[0], t, tol):
        bad("dihedral changes when the four points are listed backwards", [ob, t])
    ob = call(ca, A[2], A[1], A[0], degrees=dg)
    if ob[0] != "Ok" or not ang_close(rad(ob[1], dg)[0], a, tol):
        bad("angle changes when the three points are listed backwards", [ob, a])
    ob = call(cd, A[1], A[0])
    if ob[0] != "Ok" or abs(float(ob[1][0]) - d) > tol * (1 + d):
        bad("distance is not symmetric", [ob, d])
    # rigid motion / reflection
    mo = case.get("motion")
    if mo:
        Q = move(P, mo)
        LQ = L if L not in ("i64", "i32", "i16", "bei4") else "c"     # the moved points are not integers; float32 rounds them (1e-7)
        B = [lay(np_in([p], form), LQ) for p in Q]
        od2, oa3, ot3 = call(cd, B[0], B[1]), call(ca, B[0], B[1], B[2], degrees=dg), call(ct, B[0], B[1], B[2], B[3], degrees=dg)
        kind = "reflection" if mo.get("reflect") else "rotation+translation"
        if od2[0] != "Ok" or abs(float(od2[1][0]) - d) > tol * (1 + d):
            bad(f"distance changes under {kind}", [od2, d])
        if oa3[0] != "Ok" or not ang_close(rad(oa3[1], dg)[0], a, tol):
            bad(f"angle changes under {kind}", [oa3, a])
        want = -t if mo.get("reflect") else t
        if ot3[0] != "Ok" or not ang_close(rad(ot3[1], dg)[0], want, tol):
            bad("dihedral does not change sign under reflection" if mo.get("reflect") else "dihedral changes under rotation+translation",
                [ot3, want])
    return fails, obs


def terms_single(case, obs):
    """Coq cases for chk_distance / chk_angle / chk_dihedral / chk_textbook"""
    P = json_pts(case["pts"])
    form, dg = case["form"], case["degrees"]
    if case_layout(case, P) in LOW_PRECISION:
        return {}                   # binary32 arithmetic: judged by the oracle (1e-3), outside the model's 1e-9
    A = [carr([p], form) for p in P]
    od, oa, ot = obs["dist"], obs["ang"], obs["dih"]
    out = {}
    out["chk_distance"] = f"({A[0]}, {A[1]}, {cexp(od, lambda v: clist(np.atleast_1d(v), cfl))})"
    out["chk_angle"] = f"({A[0]}, {A[1]}, {A[2]}, {cexp(oa, lambda v: clist(rad(v, dg), ccs))})"
    out["chk_dihedral"] = f"({A[0]}, {A[1]}, {A[2]}, {A[3]}, {cexp(ot, lambda v: clist(rad(v, dg), ccs))})"
    if od[0] == oa[0] == ot[0] == "Ok":
        out["chk_textbook"] = ("(" + clist(P, cvec) + ", ((" + clist([od[1][0]], cfl) + ", " + clist(rad(oa[1], dg), ccs) + "), "
                               + clist(rad(ot[1], dg), ccs) + "))")
    return out


# ---- kind "batched": n rows, mixed shapes ---------------------------------------------------------

def shape_rows(P, shape):
    """P: list of n points; shape 'n' -> all rows (n,3); '1' -> first row as (1,3); '1d' -> first row as (3,)"""
    if shape == "n":
        return P, "2d"
    if shape == "1":
        return P[:1], "2d"
    if shape == "1d":
        return P[:1], "1d"
    if shape.startswith("k"):           # first k rows: a deliberately mismatching extent
        return P[:int(shape[1:])], "2d"
    raise ValueError(shape)


def oracle_batched(case):
    cd, ca, ct, _, _, _ = impl()
    cols = [json_pts(c) for c in case["cols"]]          # 4 columns of n points each
    shapes, dg = case["shapes"], case["degrees"]
    fn = case["fn"]
    fails = []
    k = {"distance": 2, "angle": 3, "dihedral": 4}[fn]
    ins = [shape_rows(cols[i], shapes[i]) for i in range(k)]
    Ls = [case_layout(case, ins[i][0], i) for i in range(k)]
    tol = TOL32 if any(L in LOW_PRECISION for L in Ls) else 1e-9
    A = [np_in(P, form, L) for (P, form), L in zip(ins, Ls)]
    for i in range(k):
        if not same_values(A[i], np_in(*ins[i])):
            fails.append({"what": "harness: laid-out array does not hold the points", "observed": Ls[i]})
    f = {"distance": cd, "angle": ca, "dihedral": ct}[fn]
    kw = {} if fn == "distance" else {"degrees": dg}
    out = call(f, *A, **({} if (case.get("omit_kw") and not dg) else kw))
    lens = [len(P) for P, _ in ins]
    n = max(lens)
    compatible = all(m in (1, n) for m in lens)
    obs = {"out": out}
    if not compatible:
        if out[0] != "Err" or out[1] != "ValueError":
            fails.append({"what": f"batched {fn}: incompatible row counts {lens} did not raise ValueError", "observed": repr(out)})
        return fails, obs
    # row by row
    rows = []
    for r in range(n):
        args = [to_np([P[r if len(P) > 1 else 0]])[0] for P, _ in ins]
        o = call(f, *args, **kw)
        rows.append(o)
    if any(o[0] != "Ok" for o in rows):
        fails.append({"what": f"{fn}: a single row raised", "observed": repr(rows)})
        return fails, obs
    want = [float(o[1][0]) for o in rows]
    if out[0] != "Ok":
        fails.append({"what": f"batched compute_{fn} raises {out[1]} on {n} rows although every row alone is fine", "observed": repr(out)})
    else:
        got = [float(v) for v in np.atleast_1d(out[1])]
        if len(got) != n or any(not (abs(g - w) <= tol * (1 + abs(w))) for g, w in zip(got, want)):
            fails.append({"what": f"batched compute_{fn} differs from its rows evaluated one by one", "observed": {"batched": got, "rows": want}})
    return fails, obs


def terms_batched(case, obs):
    cols = [json_pts(c) for c in case["cols"]]
    shapes, dg, fn = case["shapes"], case["degrees"], case["fn"]
    k = {"distance": 2, "angle": 3, "dihedral": 4}[fn]
    A = [carr(*shape_rows(cols[i], shapes[i])) for i in range(k)]
    out = obs["out"]
    if out[0] == "Ok" and not finite(out[1]):
        return {}
    if any(case_layout(case, shape_rows(cols[i], shapes[i])[0], i) in LOW_PRECISION for i in range(k)):
        return {}
    if fn == "distance":
        return {"chk_distance": f"({A[0]}, {A[1]}, {cexp(out, lambda v: clist(np.atleast_1d(v), cfl))})"}
    if fn == "angle":
        return {"chk_angle": f"({A[0]}, {A[1]}, {A[2]}, {cexp(out, lambda v: clist(rad(v, dg), ccs))})"}
    return {"chk_dihedral": f"({A[0]}, {A[1]}, {A[2]}, {A[3]}, {cexp(out, lambda v: clist(rad(v, dg), ccs))})"}


# ---- kind "measure" -----------------------------------------------------------------------------------

def oracle_measure(case):
    cd, ca, ct, mc, dm, _ = impl()
    P = json_pts(case["coords"])
    ms, dg, via = case["ms"], case["degrees"], case["via"]
    fails = []
    coords = to_np(P)
    L = case_layout(case, P)
    if via == "molecule" and L == "tuple":
        L = "list"          # Molecule(geometry=<tuple>) raises AttributeError in contiguize_from_fragment_pattern (geom.copy()); not C18's business
    given = lay(coords, L)                          # the same points in the case's container / memory layout
    if not same_values(given, coords):
        fails.append({"what": "harness: laid-out array does not hold the points", "observed": L})
    if via == "molecule":
        from qcelemental.models import Molecule
        mol = Molecule(symbols=["He"] * len(P), geometry=given, nonphysical=True)
        coords = np.array(mol.geometry, dtype=float)
        if not np.array_equal(coords, to_np(P)):
            fails.append({"what": "Molecule(geometry=<the points in another layout>) stores other points", "observed": [L, coords.tolist()]})
        out = call(mol.measure, ms) if dg else call(mol.measure, ms, degrees=False)
        ref = call(mc, coords, ms, degrees=dg)
        same = out[0] == ref[0] and (np.array_equal(np.array(out[1], dtype=float), np.array(ref[1], dtype=float)) if out[0] == "Ok" else out[1] == ref[1])
        if not same:
            fails.append({"what": "Molecule.measure differs from measure_coordinates on its geometry", "observed": [repr(out), repr(ref)]})
    elif case.get("omit_kw") and not dg:
        out = call(mc, given, ms)                   # measure_coordinates defaults to radians
    else:
        out = call(mc, given, ms, degrees=dg)
    obs = {"out": out, "coords": coords, "low_precision": L in LOW_PRECISION and via != "molecule"}
    # the rows the index-based form must be measuring: row x of the C-ordered copy, in the dtype numpy gives the container
    rowsrc = coords if via == "molecule" else np.ascontiguousarray(np.array(given))
    n = len(P)
    single = len(ms) > 0 and isinstance(ms[0], int)
    mlist = [ms] if single else ms
    # expected exception, in the code's order
    exp_err = None
    if len(ms) == 0:
        exp_err = "IndexError"
    else:
        for m in mlist:
            if any(x >= n for x in m):
                exp_err = "ValueError"
            elif len(m) not in (2, 3, 4):
                exp_err = "KeyError"
            elif any(x < -n for x in m):
                exp_err = "IndexError"
            if exp_err:
                break
    if exp_err:
        if out != ("Err", exp_err):
            fails.append({"what": f"measure: expected {exp_err}", "observed": repr(out)})
        return fails, obs
    if out[0] != "Ok":
        fails.append({"what": f"measure raised {out[1]} on valid indices", "observed": repr(out)})
        return fails, obs
    vals = [out[1]] if single else list(out[1])
    if len(vals) != len(mlist):
        fails.append({"what": "measure: wrong number of results", "observed": repr(out)})
        return fails, obs
    for m, v in zip(mlist, vals):
        rows = [rowsrc[x] for x in m]
        if len(m) == 2:
            w = cd(*rows)[0]
        elif len(m) == 3:
            w = ca(*rows, degrees=dg)[0]
        else:
            w = ct(*rows, degrees=dg)[0]
        if not (float(v) == float(w) or (math.isnan(float(v)) and math.isnan(float(w)))):
            fails.append({"what": "index-based measurement differs from the row-wise function on the same rows", "observed": [m, float(v), float(w)]})
            continue
        # and from the row-wise function on the plain float64 rows (binary32 containers: within 1e-3)
        rows = [to_np(P)[x] for x in m]
        w = float(cd(*rows)[0] if len(m) == 2 else ca(*rows, degrees=dg)[0] if len(m) == 3 else ct(*rows, degrees=dg)[0])
        tol = TOL32 * (180.0 / math.pi if (dg and len(m) > 2) else 1.0) if obs["low_precision"] else 1e-12
        if math.isfinite(w) and not abs(float(v) - w) <= tol * (1 + abs(w)) and not (tol and abs(abs(float(v) - w) - (360.0 if dg else 2 * math.pi)) <= tol * 400):
            fails.append({"what": "index-based measurement of the points handed over as " + L + " differs from the row-wise function on the plain float64 rows",
                          "observed": [m, float(v), w]})
    # asked again right away for the same points and indices in the other unit: only the factor 180/pi on angles and dihedrals
    out2 = call(mol.measure, ms, degrees=not dg) if via == "molecule" else call(mc, given, ms, degrees=not dg)
    if out2[0] != "Ok":
        fails.append({"what": f"measure with degrees={not dg} raised {out2[1]} right after the same call with degrees={dg} succeeded", "observed": repr(out2)})
    else:
        vals2 = [out2[1]] if single else list(out2[1])
        rt = 1e-5 if obs["low_precision"] else 1e-12
        for m, v, v2 in zip(mlist, vals, vals2):
            f = 1.0 if len(m) == 2 else (math.pi / 180.0 if dg else 180.0 / math.pi)
            if math.isfinite(float(v)) and not abs(float(v2) - float(v) * f) <= rt * (1 + abs(float(v2))):
                fails.append({"what": "index-based form: the same measurement in degrees and in radians (asked one after the other) differs by more than the factor 180/pi",
                              "observed": [m, float(v), float(v2)]})
    return fails, obs


def terms_measure(case, obs):
    out, coords = obs["out"], obs["coords"]
    ms, dg = case["ms"], case["degrees"]
    single = len(ms) > 0 and isinstance(ms[0], int)
    mlist = [ms] if single else ms
    if obs.get("low_precision"):
        return {}
    if out[0] == "Ok":
        vals = [out[1]] if single else list(out[1])
        if not finite(vals):
            return {}

        def one(m, v):
            if len(m) == 2:
                return f"(XDist {cfl(v)})"
            th = math.radians(float(v)) if dg else float(v)
            return f"(XAng {cfl(math.cos(th))} {cfl(math.sin(th))})"
        e = "(EOk " + clist([one(m, v) for m, v in zip(mlist, vals)]) + ")"
    else:
        e = f"(EErr {EK.get(out[1], 'PyAssertion')})"
    cc = clist([tuple(Fr(float(c)) for c in p) for p in coords], cvec)
    return {"chk_measure": f"({cc}, {clist(mlist, lambda m: clist(m, cz))}, {e})"}


# ---- kind "distmat" -----------------------------------------------------------------------------------

def oracle_distmat(case):
    cd, _, _, _, dm, _ = impl()
    a, b = json_pts(case["a"]), json_pts(case["b"])
    La, Lb = case_layout(case, a, 0), case_layout(case, b, 1)
    low = La in LOW_PRECISION or Lb in LOW_PRECISION
    out = call(dm, lay(to_np(a), La), lay(to_np(b), Lb))
    fails = []
    obs = {"out": out, "low_precision": low}
    if out[0] != "Ok" or np.shape(out[1]) != (len(a), len(b)):
        fails.append({"what": "distance_matrix: raised / wrong shape", "observed": repr(out)})
        return fails, obs
    for i, p in enumerate(a):
        for j, q in enumerate(b):
            w = fsqrt(fdot(fsub(p, q), fsub(p, q)))
            # relative (1e-9) plus the binary64 resolution of the coordinates (|x| <= 10: a few 1e-15): a distance of 1e-9 returned
            # as 0, or taken to the wrong point of a nearly identical set, is a difference
            if abs(float(out[1][i][j]) - w) > (TOL32 * (1 + w) if low else TOL * w + 1e-13):
                fails.append({"what": "distance_matrix entry differs from |a_i - b_j|", "observed": [i, j, float(out[1][i][j]), w]})
                return fails, obs
    # the same a against another b (every row shifted by (1, -2, 1/2)) right after, and the first call again
    sh = (Fr(1), Fr(-2), Fr(1, 2))
    b2 = [tuple(c + t for c, t in zip(q, sh)) for q in b]
    out2 = call(dm, lay(to_np(a), La), lay(to_np(b2), Lb if lay_feasible(b2, Lb) else "c"))
    if out2[0] != "Ok" or np.shape(out2[1]) != (len(a), len(b2)):
        fails.append({"what": "distance_matrix(a, b + shift) right after distance_matrix(a, b): raised / wrong shape", "observed": repr(out2)})
    else:
        for i, p in enumerate(a):
            for j, q in enumerate(b2):
                w = fsqrt(fdot(fsub(p, q), fsub(p, q)))
                if abs(float(out2[1][i][j]) - w) > (TOL32 * (1 + w) if low else TOL * w + 1e-13):
                    fails.append({"what": "distance_matrix(a, b + shift) asked right after distance_matrix(a, b): entry differs from |a_i - b_j|",
                                  "observed": [i, j, float(out2[1][i][j]), w]})
                    return fails, obs
    out3 = call(dm, lay(to_np(a), La), lay(to_np(b), Lb))
    if out3[0] != "Ok" or not np.array_equal(out3[1], out[1]):
        fails.append({"what": "distance_matrix(a, b) gives another answer when asked again", "observed": repr(out3)[:300]})
    if len(a) == len(b):
        d = cd(lay(to_np(a), La), lay(to_np(b), Lb))
        if not np.allclose(np.diag(out[1]), d, rtol=TOL32 if low else 1e-9, atol=TOL32 if low else 1e-300):
            fails.append({"what": "diagonal of distance_matrix differs from compute_distance", "observed": [np.diag(out[1]).tolist(), d.tolist()]})
    return fails, obs


def terms_distmat(case, obs):
    a, b = json_pts(case["a"]), json_pts(case["b"])
    out = obs["out"]
    if out[0] != "Ok" or obs.get("low_precision"):
        return {}
    return {"chk_distmat": f"({clist(a, cvec)}, {clist(b, cvec)}, {clist(out[1], lambda r: clist(r, cfl))})"}


# ---- kind "conn" -----------------------------------------------------------------------------------------

_RADII = {}


def radii_of(symbols):
    from qcelemental import covalentradii
    from qcelemental.exceptions import NotAnElementError
    out = []
    for s in symbols:
        if s not in _RADII:
            try:
                _RADII[s] = float(covalentradii.get(s, missing=1.8))
            except NotAnElementError:
                _RADII[s] = 1.8
        out.append(_RADII[s])
    return out


def conn_reference(P, radii, thr):
    """exact decision on squared distances; also the smallest relative margin to a threshold"""
    want, margin = [], 1.0
    t = Fr(thr)
    for i in range(len(P)):
        for j in range(i + 1, len(P)):
            d2 = fdot(fsub(P[i], P[j]), fsub(P[i], P[j]))
            c = (Fr(radii[i]) + Fr(radii[j])) * t
            if c > 0:
                if d2 == c * c:
                    continue          # exactly AT the scaled sum (boundary stream: exact in binary64 too): "closer than" is strict
                margin = min(margin, abs(float(d2 / (c * c)) - 1.0))
                if d2 < c * c:
                    want.append((i, j))
    return want, margin


def oracle_conn(case):
    gc = impl()[5]
    P = json_pts(case["geom"])
    syms, thr, dc = case["symbols"], case["thr"], case["default"]
    fails = []
    radii = radii_of(syms)
    want, margin = conn_reference(P, radii, thr)
    obs = {"radii": radii, "margin": margin}
    if margin < 1e-9 and not case.get("boundary"):
        obs["skip"] = True
        return fails, obs
    kw = {} if (case.get("omit_kw") and thr == 1.2) else {"threshold": thr}       # 1.2 is the documented default
    if dc is not None:
        kw["default_connectivity"] = dc
    L = case_layout(case, P)
    symc = case.get("symbols_as") or "array"
    out = call(gc, np.array(syms) if symc == "array" else list(syms) if symc == "list" else tuple(syms), lay(to_np(P), L), **kw)
    obs["out"] = out
    if out[0] != "Ok":
        fails.append({"what": f"guess_connectivity raised {out[1]}", "observed": repr(out)})
        return fails, obs
    got = [tuple(x) for x in out[1]]
    pairs = [(int(x[0]), int(x[1])) for x in got]
    obs["pairs"] = pairs
    if pairs != want:
        fails.append({"what": "guess_connectivity is not exactly the pairs i<j with d_ij < thr*(r_i+r_j) in lexicographic order",
                      "observed": {"got": pairs, "want": want}})
    if dc:
        if any(len(x) != 3 or x[2] != dc for x in got):
            fails.append({"what": "default_connectivity not attached to every bond", "observed": repr(got)})
    elif any(len(x) != 2 for x in got):
        fails.append({"what": "bonds are not (i, j) pairs", "observed": repr(got)})
    # the same geometry right after with another threshold / with the symbols shifted by one atom, each judged on its own; then the
    # first call again
    thr2 = 1.5 if thr != 1.5 else 0.8
    syms2 = list(syms[1:]) + list(syms[:1])
    for nm, t_, s_ in (("another threshold", thr2, syms), ("the symbols shifted by one atom", thr, syms2)):
        w_, m_ = conn_reference(P, radii_of(s_), t_)
        if m_ < 1e-9:
            continue
        o_ = call(gc, np.array(s_), lay(to_np(P), L), threshold=t_)
        if o_[0] != "Ok" or [(int(x[0]), int(x[1])) for x in o_[1]] != w_:
            fails.append({"what": f"guess_connectivity on the same geometry with {nm}, asked right after: not the pairs closer than the scaled radii sum",
                          "observed": {"got": repr(o_)[:300], "want": w_, "threshold": t_, "symbols": s_}})
    o_ = call(gc, np.array(syms), lay(to_np(P), L), **kw)
    if o_[0] != "Ok" or [tuple(x) for x in o_[1]] != got:
        fails.append({"what": "guess_connectivity gives another answer when asked again", "observed": [repr(o_)[:300], repr(got)[:300]]})
    mo = case.get("motion")
    if mo:
        Q = move(P, mo)
        _, m2 = conn_reference(Q, radii, thr)
        o2 = call(gc, np.array(syms), lay(to_np(Q), L if L not in ("i64", "i32", "i16", "bei4", "f32", "f32f") else "f"), threshold=thr)
        if m2 >= 1e-9 and (o2[0] != "Ok" or [(int(x[0]), int(x[1])) for x in o2[1]] != pairs):
            fails.append({"what": "guess_connectivity changes under a rigid motion", "observed": repr(o2)})
    perm = case.get("perm")
    if perm:
        # atom k of the reordered molecule is atom perm[k] of the original
        o3 = call(gc, np.array([syms[k] for k in perm]), lay(to_np([P[k] for k in perm]), L), threshold=thr)
        if o3[0] != "Ok":
            fails.append({"what": "guess_connectivity raised after reordering atoms", "observed": repr(o3)})
        else:
            relabelled = {frozenset((perm[int(x[0])], perm[int(x[1])])) for x in o3[1]}
            if relabelled != {frozenset(p) for p in pairs} or len(o3[1]) != len(pairs):
                fails.append({"what": "bonds do not relabel consistently under atom reordering", "observed": [repr(o3[1]), pairs]})
    return fails, obs


def terms_conn(case, obs):
    if obs.get("skip") or "pairs" not in obs:
        return {}
    P = json_pts(case["geom"])
    atoms = clist([f"({cvec(p)}, {cq(Fr(r))})" for p, r in zip(P, obs["radii"])])
    return {"chk_conn": f"({cq(Fr(case['thr']))}, {atoms}, {clist(obs['pairs'], lambda p: '(' + cnat(p[0]) + ', ' + cnat(p[1]) + ')')})"}


# ---- kind "collinear": straight, folded-back and nearly collinear triples; linear molecules through measure ----------

def ref_angle(p1, p2, p3):
    """textbook angle at p2 from exact rationals, accurate also near 0 and pi: atan2(|u x v|, u.v)"""
    u, v = fsub(p1, p2), fsub(p3, p2)
    c = fcross(u, v)
    return math.atan2(fsqrt(fdot(c, c)), float(fdot(u, v)))


def oracle_collinear(case):
    cd, ca, ct, mc, dm, _ = impl()
    fails = []
    obs = {}
    dg = case["degrees"]
    if case["via"] == "angle":
        rows = [json_pts(r) for r in case["rows"]]
        cols = [[r[i] for r in rows] for i in range(3)]
        A = [np_in(c, case["form"], case_layout(case, [p for r in rows for p in r])) for c in cols]
        if case_layout(case, [p for r in rows for p in r]) in LOW_PRECISION:
            A = [np_in(c, case["form"]) for c in cols]          # nearly collinear triples are ill-conditioned in binary32: not streamed
        out = call(ca, *A, degrees=dg)
        obs["out"] = out
        if out[0] != "Ok":
            fails.append({"what": f"compute_angle raised {out[1]} on (nearly) collinear points", "observed": repr(out)})
            return fails, obs
        vals = np.atleast_1d(out[1])
        if len(vals) != len(rows):
            fails.append({"what": "compute_angle: wrong number of results", "observed": repr(out)})
            return fails, obs
        for r, v in zip(rows, vals):
            a = math.radians(float(v)) if dg else float(v)
            ref = ref_angle(*r)
            if not math.isfinite(a):
                fails.append({"what": "compute_angle is not finite (nan) on straight / folded-back / nearly collinear points",
                              "observed": {"points": pts_json(r), "value": repr(v), "textbook": ref}})
            elif not (0.0 <= a <= math.pi + 1e-12) or abs(a - ref) > 1e-6:
                fails.append({"what": "compute_angle on (nearly) collinear points differs from the textbook angle / leaves [0,pi]",
                              "observed": {"points": pts_json(r), "value": a, "textbook": ref}})
        return fails, obs
    # a linear molecule in general orientation through measure_coordinates / Molecule.measure
    P = json_pts(case["coords"])
    L = case_layout(case, P)
    if case["via"] == "molecule" and L == "tuple":
        L = "list"
    coords = lay(to_np(P), L if L not in LOW_PRECISION else "c")
    ms = case["ms"]
    if case["via"] == "molecule":
        from qcelemental.models import Molecule
        mol = Molecule(symbols=["He"] * len(P), geometry=coords, nonphysical=True)
        out = call(mol.measure, ms) if dg else call(mol.measure, ms, degrees=False)
    else:
        out = call(mc, coords, ms, degrees=dg)
    obs["out"] = out
    if out[0] != "Ok" or len(out[1]) != len(ms):
        fails.append({"what": "measure raised / wrong length on a linear molecule", "observed": repr(out)})
        return fails, obs
    for m, v in zip(ms, out[1]):
        a = math.radians(float(v)) if (dg and len(m) != 2) else float(v)
        if not math.isfinite(a):
            fails.append({"what": f"measure {m} on a linear molecule is not finite (nan)", "observed": {"m": m, "value": repr(v)}})
            continue
        if len(m) == 3:
            ref = ref_angle(*[P[i] for i in m])
            if not (0.0 <= a <= math.pi + 1e-12) or abs(a - ref) > 1e-6:
                fails.append({"what": "angle in a linear molecule is not 0 / pi", "observed": {"m": m, "value": a, "textbook": ref}})
        elif len(m) == 4 and not (-math.pi - 1e-12 <= a <= math.pi + 1e-12):
            fails.append({"what": "dihedral in a linear molecule outside [-pi,pi]", "observed": {"m": m, "value": a}})
        elif len(m) == 2:
            ref = fsqrt(fdot(fsub(P[m[0]], P[m[1]]), fsub(P[m[0]], P[m[1]])))
            if abs(a - ref) > 1e-7 * (1 + ref):
                fails.append({"what": "distance in a linear molecule differs from |p-q|", "observed": {"m": m, "value": a, "textbook": ref}})
    return fails, obs


def terms_collinear(case, obs):
    """the generated code on the same (nearly) collinear rows (cosine residual only)"""
    if case["via"] != "angle":
        return {}
    out = obs.get("out")
    if out is None or (out[0] == "Ok" and not finite(out[1])):
        return {}
    rows = [json_pts(r) for r in case["rows"]]
    cols = [[r[i] for r in rows] for i in range(3)]
    A = [carr(c, case["form"]) for c in cols]
    dg = case["degrees"]
    return {"chk_angle": f"({A[0]}, {A[1]}, {A[2]}, {cexp(out, lambda v: clist(rad(v, dg), ccs))})"}


ORACLES = {"single": (oracle_single, terms_single), "batched": (oracle_batched, terms_batched),
           "measure": (oracle_measure, terms_measure), "distmat": (oracle_distmat, terms_distmat),
           "conn": (oracle_conn, terms_conn), "collinear": (oracle_collinear, terms_collinear)}
CHK_TY = {
    "chk_distance": "arr QK * arr QK * expect (list Q)",
    "chk_angle": "arr QK * arr QK * arr QK * expect (list (Q * Q))",
    "chk_dihedral": "arr QK * arr QK * arr QK * arr QK * expect (list (Q * Q))",
    "chk_textbook": "list (vec3 QK) * (list Q * list (Q * Q) * list (Q * Q))",
    "chk_measure": "list (vec3 QK) * list (list Z) * expect (list mexp)",
    "chk_distmat": "list (vec3 QK) * list (vec3 QK) * list (list Q)",
    "chk_conn": "Q * list (atom QK) * list (nat * nat)",
}

ELEMENTS = ["H", "H", "H", "C", "C", "N", "O", "O", "F", "S", "Cl", "He", "Li", "Fe", "Zr", "h", "c1", "O18", "D",
            "Cm", "Og", "Xx", "Gh", "C_sp3"]      # incl. elements without a tabulated radius and non-elements (-> 1.8)


def gen_cases(ctx):
    rng = ctx.rng
    T = ctx.thorough
    cases = []
    # corpus: the literal configurations of test_utils.py plus the inputs on which batched compute_dihedral failed before
    # the repair 056f883 (3 rows: wrong values; 2 rows: ValueError) — a regression is reported with these as replay
    z = lambda *r: [[str(c) for c in p] for p in r]
    corpus_quads = [z((0, 0, 0), (0, 2, 0), (2, 2, 0), (2, 2, -2)), z((0, 4, 0), (0, 2, 0), (2, 2, 0), (2, 2, 2)),
                    z((0, 0, 0), (0, 2, 0), (2, 2, 0), (2, 0, 0)), z((0, 0, 0), (0, 2, 0), (2, 2, 0), (2, 4, 0)),
                    z((5, 0, 0), (0, 0, 0), (0, 2, 0), (0, 2, 4))]
    for qd in corpus_quads:
        cases.append({"kind": "single", "stream": "corpus", "pts": qd, "form": "1d", "degrees": True,
                      "motion": {"q": [1, 2, 0, -1], "t": ["1/2", "-3", "7/4"], "reflect": False}})
    cases.append({"kind": "batched", "stream": "corpus", "fn": "dihedral", "degrees": False, "shapes": ["n"] * 4,
                  "cols": [z((0, 0, 0), (1, 0, 0), (0, 0, 1)), z((0, 2, 0), (1, 2, 0), (0, 3, 1)),
                           z((2, 2, 0), (3, 3, 2), (0, 6, 5)), z((2, 2, -2), (3, 4, -2), (2, 5, 3))]})
    cases.append({"kind": "batched", "stream": "corpus", "fn": "dihedral", "degrees": True, "shapes": ["n"] * 4,
                  "cols": [z(("77/8", "13/2", "5/2"), ("-6/5", 2, 10)), z(("-3/2", "-39/4", -10), (9, -7, "25/4")),
                           z((7, "-9/2", 7), (-8, "65/8", "9/2")), z((-3, "3/2", "-11/10"), (5, -8, 1))]})
    for tri, form in ((z((-4, -4, -4), (-2, -2, -2), (0, 0, 0)), "1d"), (z((1, 2, 3), (2, 4, 6), (4, 8, 12)), "2d"),
                      (z((3, 3, 3), (1, 1, 1), (2, 2, 2)), "1d"), (z(("1/3", "-2/3", 1), (1, -2, 3), (-1, 2, -3)), "2d")):
        cases.append({"kind": "collinear", "stream": "corpus", "via": "angle", "rows": [tri], "form": form, "degrees": False})
    cases.append({"kind": "collinear", "stream": "corpus", "via": "molecule", "degrees": True,
                  "coords": z((-4, -4, -4), (-2, -2, -2), (0, 0, 0), (3, 3, 3)), "ms": [[0, 1, 2], [2, 0, 1], [0, 1, 2, 3], [0, 3]]})
    # single rows
    for _ in range(12000 if T else 700):
        L = pick_layout(rng, LAYOUTS_ANY, 0.6)
        P = rnd_quad(rng, grid_for(L))
        cases.append({"kind": "single", "stream": "single", "pts": pts_json(P), "form": rng.choice(["1d", "2d"]),
                      "degrees": rng.random() < 0.5, "motion": rnd_motion(rng), "omit_kw": rng.random() < 0.5, "layout": L})
    # batched / mixed shapes
    for _ in range(5000 if T else 400):
        n = rng.choice([1, 2, 2, 3, 3, 4, 5, 7])
        r = rng.random()
        Ls = ["c"] * 4 if r < 0.4 else [rng.choice(LAYOUTS_ANY)] * 4 if r < 0.7 else [pick_layout(rng, LAYOUTS_ANY, 0.3) for _ in range(4)]
        quads = [rnd_quad(rng, grid_for(*Ls)) for _ in range(n)]
        cols = [[q[i] for q in quads] for i in range(4)]
        fn = rng.choice(["distance", "angle", "angle", "dihedral"])
        r = rng.random()
        if r < 0.6:
            shapes = ["n"] * 4
        elif r < 0.9:
            shapes = [rng.choice(["n", "n", "1", "1d"]) for _ in range(4)]
        else:
            shapes = [rng.choice(["n", "k2", "k3"]) for _ in range(4)]
        cases.append({"kind": "batched", "stream": "batched", "fn": fn, "degrees": rng.random() < 0.5, "shapes": shapes,
                      "cols": [pts_json(c) for c in cols], "omit_kw": rng.random() < 0.5, "layouts": Ls})
    # measure_coordinates / Molecule.measure
    import itertools

    def general_position(P):
        for i, j in itertools.combinations(range(len(P)), 2):
            if fdot(fsub(P[i], P[j]), fsub(P[i], P[j])) < 1:
                return False
        for i, j, k in itertools.combinations(range(len(P)), 3):
            u, v = fsub(P[j], P[i]), fsub(P[k], P[i])
            c = fcross(u, v)
            if fdot(c, c) < Fr(1, 25) * fdot(u, u) * fdot(v, v):
                return False
        return True
    for _ in range(6000 if T else 350):
        n = rng.randint(4, 7)
        L = pick_layout(rng, LAYOUTS_ANY, 0.35)
        while True:
            P = [rnd_point(rng, 6, grid_for(L)) for _ in range(n)]
            if general_position(P):
                break

        def rnd_m():
            rr = rng.random()
            k = rng.choice([2, 3, 4]) if rr < 0.85 else rng.choice([0, 1, 5])
            m = rng.sample(range(n), min(k, n)) + [0] * max(0, k - n)      # distinct atoms
            m = [x - n if rng.random() < 0.3 else x for x in m]             # some counted from the end
            if m and rr > 0.93:
                m[rng.randrange(len(m))] = rng.choice([n, n + 1, -n - 1, -n - 2])
            return m
        if rng.random() < 0.35:
            ms = rnd_m()
        else:
            ms = [rnd_m() for _ in range(rng.choice([0, 1, 2, 3, 3]))]
        cases.append({"kind": "measure", "stream": "measure", "coords": pts_json(P), "ms": ms, "degrees": rng.random() < 0.5,
                      "via": "molecule" if rng.random() < 0.3 else "function", "omit_kw": rng.random() < 0.5, "layout": L})
        # history: the very same measurement list on two more coordinate sets of the same size, back to back (a result memoised
        # on the indices, or any state left behind by the previous call, shows here)
        if rng.random() < 0.15 and ms:
            for _h in range(2):
                while True:
                    P2 = [rnd_point(rng, 6, grid_for(L)) for _ in range(n)]
                    if general_position(P2):
                        break
                cases.append({"kind": "measure", "stream": "measure-history", "coords": pts_json(P2), "ms": ms,
                              "degrees": cases[-1]["degrees"], "via": cases[-1]["via"], "omit_kw": cases[-1]["omit_kw"],
                              "layout": rng.choice([L, L, "c", "f", "t"])})
    # straight / folded-back / nearly collinear triples (lattice and random directions), scalar and batched; linear molecules
    def rnd_dir():
        if rng.random() < 0.5:
            d = tuple(Fr(rng.randint(-3, 3)) for _ in range(3))
        else:
            d = tuple(rnd_coord(rng, 2) for _ in range(3))
        return d if any(d) else (Fr(1), Fr(1), Fr(1))

    def rnd_line_triple():
        while True:
            d = rnd_dir()
            p2 = rnd_point(rng, 4)
            a = Fr(rng.choice([-3, -2, -1, 1, 2, 3]), rng.choice([1, 2, 4]))
            b = Fr(rng.choice([-3, -2, -1, 1, 2, 3]), rng.choice([1, 1, 2, 5]))
            p1 = tuple(p2[i] + a * d[i] for i in range(3))
            p3 = tuple(p2[i] + b * d[i] for i in range(3))
            r = rng.random()
            if r < 0.4:          # nearly collinear: a tiny rational push off the line
                eps = Fr(1, 10 ** rng.choice([6, 7, 9, 11, 13]))
                wv = tuple(Fr(rng.randint(-3, 3)) for _ in range(3))
                p3 = tuple(p3[i] + eps * wv[i] for i in range(3))
            if all(abs(c) <= 10 for p in (p1, p2, p3) for c in p):
                return [p1, p2, p3]
    for _ in range(6000 if T else 400):
        k = rng.choice([1, 1, 1, 2, 3, 5])
        rows = [rnd_line_triple() for _ in range(k)]
        cases.append({"kind": "collinear", "stream": "collinear", "via": "angle", "rows": [pts_json(r) for r in rows],
                      "form": "1d" if (k == 1 and rng.random() < 0.5) else "2d", "degrees": rng.random() < 0.5,
                      "layout": pick_layout(rng, LAYOUTS_ANY, 0.6)})
    for _ in range(1500 if T else 120):
        n = rng.randint(3, 6)
        d = rnd_dir()
        o = rnd_point(rng, 3)
        ks = rng.sample([Fr(k, 2) for k in range(-6, 7)], n)
        P = [tuple(o[i] + k * d[i] for i in range(3)) for k in ks]
        if any(abs(c) > 10 for p in P for c in p) or fdot(d, d) < Fr(1, 2):
            continue
        ms = []
        for _m in range(rng.randint(1, 4)):
            ms.append(rng.sample(range(n), rng.choice([2, 3, 3, 3, 4]) if n >= 4 else rng.choice([2, 3, 3])))
        cases.append({"kind": "collinear", "stream": "collinear", "via": rng.choice(["function", "function", "molecule"]),
                      "coords": pts_json(P), "ms": ms, "degrees": rng.random() < 0.5, "layout": pick_layout(rng, LAYOUTS_ANY, 0.5)})
    # distance_matrix
    for _ in range(600 if T else 60):
        Ls = [pick_layout(rng, LAYOUTS_ND, 0.4), pick_layout(rng, LAYOUTS_ND, 0.4)]
        a = [rnd_point(rng, 10, grid_for(*Ls)) for _ in range(rng.randint(1, 5))]
        b = [rnd_point(rng, 10, grid_for(*Ls)) for _ in range(len(a) if rng.random() < 0.5 else rng.randint(1, 5))]
        cases.append({"kind": "distmat", "stream": "distmat", "a": pts_json(a), "b": pts_json(b), "layouts": Ls})
    # two point sets of the same shape that are (nearly) the same: b = a, b = a moved by tiny amounts over many decades (dyadic
    # coordinates and dyadic displacements 2^-10 .. 2^-40, i.e. 1e-3 .. 1e-12, exact in binary64 and in the model), b = a permuted,
    # b = a with one row replaced; a fast path that takes b for a shows here
    def dy_point():
        return tuple(Fr(rng.randint(-160, 160), rng.choice([1, 2, 4, 8, 16])) for _ in range(3))
    for _ in range(400 if T else 60):
        na = rng.randint(1, 6)
        a = []
        while len(a) < na:
            p = dy_point()
            if p not in a:
                a.append(p)
        mode = rng.choice(["same", "near", "near", "near", "near-one", "perm", "one-row"])
        if mode == "same":
            b = list(a)
        elif mode == "near":
            k = rng.randint(10, 40)
            b = [tuple(c + rng.choice([-1, 0, 1, 1]) * Fr(1, 2 ** rng.randint(k, min(40, k + 3))) for c in p) for p in a]
        elif mode == "near-one":
            b = list(a)
            r = rng.randrange(na)
            b[r] = tuple(c + Fr(rng.choice([-1, 1]), 2 ** rng.randint(10, 40)) for c in a[r])
        elif mode == "perm":
            b = list(a)
            rng.shuffle(b)
        else:
            b = list(a)
            b[rng.randrange(na)] = dy_point()
        cases.append({"kind": "distmat", "stream": "distmat-near-copy", "a": pts_json(a), "b": pts_json(b), "mode": mode,
                      "layouts": [pick_layout(rng, ["f", "t", "slice", "rev", "be"], 0.5), pick_layout(rng, ["f", "t", "slice", "rev", "be"], 0.5)]})
    # connectivity
    for _ in range(8000 if T else 450):
        n = rng.randint(1, 15) if rng.random() > 0.03 else 0          # now and then no atoms at all
        box = rng.choice([2, 3, 4, 6])
        L = pick_layout(rng, LAYOUTS_ANY + ["flat", "flat"], 0.4) if n else rng.choice(["c", "flat", "list"])
        P = []
        while len(P) < n:
            p = rnd_point(rng, box, grid_for(L) if box > 2 else None)
            if all(fdot(fsub(p, q), fsub(p, q)) > 0 for q in P):
                P.append(p)
        syms = [rng.choice(ELEMENTS) for _ in range(n)]
        perm = list(range(n))
        rng.shuffle(perm)
        cases.append({"kind": "conn", "stream": "connectivity", "symbols": syms, "geom": pts_json(P),
                      "thr": rng.choice([1.2, 1.2, 1.0, 0.8, 1.5, 2.0, 0.0, -1.0, 1.25]),
                      "default": rng.choice([None, None, 1, 0, 2.5]),
                      "motion": rnd_motion(rng, reflect=rng.random() < 0.3), "perm": perm, "omit_kw": rng.random() < 0.5,
                      "layout": L, "symbols_as": rng.choice(["array", "array", "list", "tuple"])})
    # the boundary of the bond criterion: two atoms without a tabulated radius (1.8 each) exactly thr * (1.8 + 1.8) apart along a
    # coordinate axis, thr a power of two - every step of the criterion is exact in binary64 whatever the association, so the pair
    # is AT the scaled sum and must not be listed ("closer than"); one binary64 step nearer it must be
    r18 = Fr(1.8)
    for _ in range(60 if T else 12):
        thr = rng.choice([0.5, 1.0, 2.0])
        d = 2 * r18 * Fr(thr)
        ax = rng.randrange(3)
        sgn = rng.choice([-1, 1])
        nearer = rng.random() < 0.5
        dd = Fr(float(np.nextafter(float(d), 0.0))) if nearer else d
        P = [(Fr(0), Fr(0), Fr(0)), tuple(sgn * dd if k == ax else Fr(0) for k in range(3))]
        syms = [rng.choice(["Xx", "Gh", "Og"]), rng.choice(["Xx", "Gh", "Og"])]
        if rng.random() < 0.5:
            far = tuple(Fr(9) if k == (ax + 1) % 3 else Fr(0) for k in range(3))
            P.append(far)
            syms.append("H")
        cases.append({"kind": "conn", "stream": "connectivity-boundary", "symbols": syms, "geom": pts_json(P), "thr": thr,
                      "default": None, "motion": None, "perm": None, "boundary": "nearer" if nearer else "at"})
    return cases


_EXECUTED = []      # every case judged by this interpreter, in order: the call history of a failing case (see geo_history.py)


def judge(case):
    c = {k: v for k, v in case.items() if k not in ("stream", "history", "rows")}
    if str(c.get("kind", "")).startswith("batched_"):
        c["kind"] = "batched"
    _EXECUTED.append(c)
    orc, trm = ORACLES[case["kind"]]
    fails, obs = orc(case)
    return fails, trm(case, obs), obs


def is_known(f):
    return any(m(f) for m in KNOWN.values())


def run_history(steps):
    """histseq interface: the cases one after the other in this interpreter; the oracle's complaints about the LAST one"""
    import warnings
    warnings.filterwarnings("ignore")
    fails = []
    for c in steps:
        c = dict(c)
        if str(c.get("kind", "")).startswith("batched_"):
            c["kind"] = "batched"
        fails, _, _ = judge(c)
    return [f["what"] for f in fails]


def correspond(ctx):
    corr = Corr()
    corr.rule = ("random rational point sets in [-10,10]^3 (denominators 1..16), non-degenerate (bond vectors >= 0.5, |sin| >= 0.2 "
                 "between consecutive bonds) x rational rigid motions / reflections from integer quaternions x 1-D / (1,3) / (n,3) "
                 "shapes x degrees flag; straight / folded-back / nearly collinear triples on lattice and random directions (scalar, batched, and "
                 "as linear molecules through measure_coordinates / Molecule.measure); measure index lists incl. negative, out-of-range and wrong-length; molecules of 1-15 atoms "
                 "x thresholds for connectivity; every point array also as Fortran-ordered / transposed (3,n) view / strided window / negative strides / big-endian / float32 / int64,32,16 / nested list / tuple / list of rows / flat (connectivity), symbols as array / list / tuple (keywords given or left to their defaults; the same measurement list on several coordinate sets back to back; distance_matrix also on nearly identical / identical / permuted point sets (dyadic displacements 1e-12..1e-3); pairs exactly at / one binary64 step inside the bond threshold). A case is non-trivial if the implementation returned a value (not an exception) "
                 "and the point set is non-degenerate; distinct = distinct inputs")
    cases = gen_cases(ctx)
    buckets = {k: [] for k in CHK_TY}
    for case in cases:
        try:
            fails, terms, obs = judge(case)
        except Exception as e:            # the harness itself must not die on one case
            corr.errors.append(f"oracle crashed on {case}: {e!r}")
            continue
        corr.count(case["stream"])
        corr.hit("kind_" + case["kind"] + ("_" + case["fn"] if "fn" in case else ""))
        if case.get("omit_kw"):
            corr.hit("keyword_defaults_exercised")
        for Lh in sorted(set([case.get("layout")] + list(case.get("layouts") or [])) - {None}):
            corr.hit("layout_" + Lh + "_" + case["kind"])
        if case.get("boundary"):
            corr.hit("conn_boundary_" + case["boundary"])
        if case.get("mode"):
            corr.hit("distmat_b_" + case["mode"])
        if case["kind"] == "conn":
            if obs.get("skip"):
                corr.hit("conn_skipped_near_threshold")
                continue
            corr.hit("conn_bonds", len(obs.get("pairs", [])))
        o = obs.get("out")
        if o is not None and o[0] == "Err":
            corr.hit("impl_raises_" + o[1])
        else:
            corr.nontriv({k: v for k, v in case.items() if k != "stream"})
        if ctx.rng.random() < 0.002:
            corr.sample({"case": case, "observed": repr({k: v for k, v in obs.items() if k != "coords"})[:600]})
        for f in fails:
            ck = {k: v for k, v in case.items() if k != "stream"}
            if case["kind"] == "batched":
                ck["kind"] = "batched_" + case["fn"]
                ck["rows"] = max(len(c) for c in case["cols"])
            corr.failures.append({"stream": "oracle-" + case["kind"] + ("-" + case["fn"] if "fn" in case else ""), "case": ck,
                                  "what": f["what"], "observed": f["observed"], "_pos": len(_EXECUTED) - 1})
        for chk, term in terms.items():
            buckets[chk].append((term, case))
    # every stream's first failure must replay from its recorded input alone (with the earlier calls it depends on, if any)
    from . import geo_history
    corr.failures = geo_history.attach("c18", corr.failures, _EXECUTED, is_known, log=ctx.log)
    corr.sample({"case": cases[0]})
    ctx.log(f"{len(cases)} cases through the implementation; evaluating the models: "
            + ", ".join(f"{k}={len(v)}" for k, v in buckets.items()))
    from concurrent.futures import ThreadPoolExecutor

    def run(chk):
        items = buckets[chk]
        return chk, coqrun.eval_bad_indices("C18-" + chk, REQ, "", chk, [t for t, _ in items], shard=max(25, min(400, len(items) // 16 + 1)),
                                            timeout=3000, ty=CHK_TY[chk])
    todo = [chk for chk, items in buckets.items() if items]
    with ThreadPoolExecutor(max_workers=len(todo) or 1) as ex:
        results = list(ex.map(run, todo))
    for chk, (bad, errors) in results:
        items = buckets[chk]
        corr.count("model:" + chk, len(items))
        corr.errors.extend(f"{chk} shard {k}: {e}" for k, e in errors)
        for b in bad[:6]:
            term, case = items[b]
            corr.disagreements.append({"stream": chk, "case": {k: v for k, v in case.items() if k != "stream"},
                                       "impl": term[-400:], "model": f"{chk} = false"})
    return corr


def search(ctx, corr, reasons):
    """More oracle runs on the implementation (fresh random cases) and the disagreeing cases."""
    found = []
    for d in corr.disagreements:
        case = dict(d["case"])
        try:
            fails, _, _ = judge(case)
        except Exception:
            continue
        for f in fails:
            found.append({"stream": "search", "case": case, "what": f["what"], "observed": f["observed"], "_pos": len(_EXECUTED) - 1})
    if not found:
        class C2:
            pass
        c2 = C2()
        c2.rng, c2.thorough = ctx.rng, False
        for case in gen_cases(c2):
            try:
                fails, _, _ = judge(case)
            except Exception:
                continue
            for f in fails:
                ck = {k: v for k, v in case.items() if k != "stream"}
                if case["kind"] == "batched":
                    ck["kind"] = "batched_" + case["fn"]
                    ck["rows"] = max(len(c) for c in case["cols"])
                found.append({"stream": "search-" + case["kind"], "case": ck, "what": f["what"], "observed": f["observed"], "_pos": len(_EXECUTED) - 1})
    from . import geo_history
    return geo_history.attach("c18", found, _EXECUTED, is_known, log=getattr(ctx, "log", None))


def replay(ctx, rp):
    case = dict(rp["case"])
    if case.get("kind", "").startswith("batched_"):
        case["kind"] = "batched"
    if case.get("history"):
        from . import geo_history
        return geo_history.replay_history("c18", case)
    fails, _, obs = judge(case)
    return {"case": case, "failures": fails, "fails": bool(fails)}


KNOWN = {}      # C18-batched-dihedral was repaired in /repo (056f883): status "fixed", suppresses nothing

TECHNIQUE = ("Coq proofs (ring/field over an abstract field, Reals for sqrt/acos/atan2, induction for the connectivity loop) about "
             "Gallina code regenerated from misc.py by a fail-closed translator + differential correspondence + property oracle")
DESIGN_REF = "DESIGN.md §6 C18"
LEVEL_TEXT = (
    "Machine-checked (Coq 8.16.1). The arithmetic of compute_distance / compute_angle / compute_dihedral is translated from "
    "qcelemental/util/misc.py on every run into Gen/Dihedral.v (numpy shapes and broadcasting modelled in Common/Geo3Np.v). "
    "Over ANY field with a square-root function (no axioms): distance = |p-q|; the arccos argument is clip(-cos of the textbook "
    "angle); the (y,x) given to arctan2 equals the textbook pair (|b2| b1.(b2xb3), (b1xb2).(b2xb3)) divided by |b2|^2 (despite the "
    "v1.v1 operand); invariance under translation + orthogonal matrices (det 1 for the dihedral), y -> -y under det -1, reversal, "
    "degrees = radians*180/pi, batched distance/angle/dihedral = row-wise for every number of rows (C18_batched_full: arccos/arctan2/degrees "
    "included; C18_broadcast_distance: one row against n), measure index form = row-wise form, Molecule.measure = measure_coordinates in "
    "degrees by default (C18_entry_point_defaults), one measurement returns the bare value of its row and a list the list of values "
    "(C18_measure_single_and_many_forms, wrapper translated from the source), distance_matrix entries, default_connectivity never changes "
    "the bonds (C18_default_connectivity_keeps_bonds), "
    "guess_connectivity = exactly the pairs i<j with d < thr(r_i+r_j) in lexicographic order, its rigid invariance and relabelling "
    "under reordering. Over the reals: angle = acos(textbook cosine) in [0,pi]; dihedral is an argument in [-pi,pi] of the textbook "
    "pair, and the only one in (-pi,pi] (atan2 defined from acos, specification proved); reflection negates it; the squared-distance bond decision equals the "
    "code's, and a pair exactly at the scaled sum is not bonded (C18_connectivity_boundary_strict). (Batched compute_dihedral was found broken by this model — ValueError on 2 rows, wrong values on 3 — and repaired in "
    "/repo as 056f883; the old failing inputs stay in the corpus.)")
LEVEL_NOTE = (
    "Trusted: Coq kernel + vm_compute; the translator; the numpy semantics of Common/Geo3Np.v over an exact field (no binary64 "
    "rounding/inf/nan); libm arccos/arctan2 (their arguments are proved, their values checked by sin/cos residuals <= 1e-9 each run); "
    "the hand models of measure_coordinates' dispatch, distance_matrix and the bond test are proved equal to the code translated from "
    "the sources (C18_generated_glue_is_model), their loop skeletons are pinned structurally and tied by correspondence; the keyword "
    "defaults (degrees of the kernels / measure_coordinates / Molecule.measure, threshold of guess_connectivity) are read from the "
    "signatures each run (C18_entry_point_defaults) and exercised by calls that omit the keyword; radii come from C17. Clause map: "
    "textbook -> C18_distance_is_textbook / _angle_argument_ / _dihedral_is_textbook + the _R_ theorems; rigid motions -> "
    "C18_rigid_invariance; ranges -> C18_distance_R, C18_angle_R_range, C18_dihedral_R_is_textbook; reflection / reversal -> "
    "C18_reflection_flips_dihedral, C18_reversal_preserves_*; degrees -> C18_degrees; forms agree -> C18_batched_*, C18_batched_full, "
    "C18_broadcast_distance, C18_measure_index_form, C18_distance_matrix_entry, C18_entry_point_defaults; bonds -> C18_connectivity_spec, "
    "_boundary_strict, _rigid_invariant, _relabel, C18_default_connectivity_keeps_bonds; single/many wrapping -> C18_measure_single_and_many_forms; only oracle: radii lookup, binary64 effects, the "
    "container / memory layout / dtype of the point arrays (the model sees the points; every stream hands them over in 15 layouts). Part-B theorems depend on the Reals library axioms (sig_forall_dec, sig_not_dec, functional_extensionality_dep, classic); "
    "part A is closed.")
